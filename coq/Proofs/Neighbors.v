(** Lindig's upper-neighbour search ([neighbors], machine-translated) yields exactly the
    upper covers of a closed extent. *)
From Coq Require Import ZArith List Bool Lia ZifyBool Arith.
From Concepts Require Import Base.Res Base.PyInt Base.BitSet Spec.FCA Spec.Context
  Model.Matrices Model.ContextApi Model.Lindig Model.Members Model.Lattice
  Proofs.Matrices Proofs.ContextApi Proofs.Closure Proofs.LatticeBasics Proofs.LatticeFirst
  Proofs.Covers.
Import ListNotations.
Open Scope Z_scope.

(** * bit tests *)

Lemma truthy_iff_exists x : 0 <= x -> (truthy x = true <-> exists i, mem x i = true).
Proof.
  intros Hx. rewrite truthy_true_iff. split.
  - intros Hne. assert (Hpos : 0 < x) by lia.
    exists (Z.to_nat (Z.log2 x)). unfold mem. rewrite Z2Nat.id by apply Z.log2_nonneg.
    apply Z.bit_log2. exact Hpos.
  - intros [i Hi] ->. rewrite mem_0 in Hi. discriminate.
Qed.

Lemma truthy_land_bit b i : truthy (Z.land b (bit i)) = mem b i.
Proof.
  assert (Hnn : 0 <= Z.land b (bit i)) by (apply Z.land_nonneg; right; apply bit_nonneg).
  destruct (mem b i) eqn:E.
  - apply truthy_iff_exists; [exact Hnn|]. exists i. rewrite mem_land, E, mem_bit, Nat.eqb_refl. reflexivity.
  - destruct (truthy (Z.land b (bit i))) eqn:T; [|reflexivity].
    apply truthy_iff_exists in T; [|exact Hnn]. destruct T as [j Hj].
    rewrite mem_land, mem_bit in Hj. apply andb_prop in Hj. destruct Hj as [H1 H2].
    apply Nat.eqb_eq in H2. subst. congruence.
Qed.

Lemma atomic_lnot n A :
  atomic n (Z.lnot A) = map bit (filter (fun i => negb (mem A i)) (seq 0 n)).
Proof.
  unfold atomic. f_equal. apply filter_ext'. intros i. rewrite truthy_land_bit, mem_lnot. reflexivity.
Qed.

(** * the loop *)

Definition nb_body (dp : Z -> res (Z * Z)) (objects : Z) :
  Z * list (Z * Z) -> Z -> res (Z * list (Z * Z)) :=
  fun '(minimal, out) add =>
    let objects_and_add := (Z.lor objects add) in
    do t1 <- (dp objects_and_add) ;;
    let '(extent, intent) := t1 in
    do '(minimal, out) <- (if (truthy (Z.land (Z.land extent (Z.lnot objects_and_add)) minimal)) then
      let minimal := (Z.land minimal (Z.lnot add)) in
      Ok (minimal, out)
    else
      let out := out ++ [(extent, intent)] in
      Ok (minimal, out)) ;;
    Ok (minimal, out).

Lemma neighbors_unfold dp atomic objects :
  neighbors dp atomic objects =
  do '(minimal, out) <- for_fold (nb_body dp objects) (atomic (Z.lnot objects)) (Z.lnot objects, []) ;;
  Ok out.
Proof. reflexivity. Qed.

Lemma NoDup_map_inj_in {X Y} (f : X -> Y) l :
  NoDup l -> (forall x y, In x l -> In y l -> f x = f y -> x = y) -> NoDup (map f l).
Proof.
  induction 1 as [|x l Hx Hnd IH]; intros Hinj; cbn; constructor.
  - intros Hin. apply in_map_iff in Hin. destruct Hin as [y [Hy Hyl]].
    apply Hx. rewrite <- (Hinj y x); [exact Hyl|right; exact Hyl|left; reflexivity|exact Hy].
  - apply IH. intros a b Ha Hb. apply Hinj; right; assumption.
Qed.

Section Loop.
  Variable c : ctx.
  Variable A : Z.
  Variable dfuel : nat.
  Hypothesis Hwf : wf_ctx c.
  Hypothesis HA : closedO c A.
  Hypothesis Hfuel : (Nat.max (nG c) (nM c) <= dfuel)%nat.

  Notation gen := (gen c A).
  Notation goodb := (goodb c A).
  Notation coverb := (coverb c A).

  Definition mk (g : nat) : Z * Z := (gen g, upO c (Z.lor A (bit g))).
  Definition sel (g : nat) : bool := negb (mem A g) && goodb g.

  Definition Inv (s : nat) (minimal : Z) (out : list (Z * Z)) : Prop :=
    (forall h, mem minimal h = true <-> mem A h = false /\ ((h < s)%nat -> goodb h = true)) /\
    out = map mk (filter sel (seq 0 s)).

  Definition test (g : nat) (minimal : Z) : bool :=
    truthy (Z.land (Z.land (gen g) (Z.lnot (Z.lor A (bit g)))) minimal).

  Lemma test_spec g minimal : test g minimal = true <->
    exists h, mem (gen g) h = true /\ mem A h = false /\ h <> g /\ mem minimal h = true.
  Proof.
    unfold test. rewrite truthy_iff_exists.
    2:{ apply Z.land_nonneg. left. apply Z.land_nonneg. left. exact (proj1 (gen_in_range c A g)). }
    split; intros [h Hh]; exists h.
    - rewrite !mem_land, mem_lnot, mem_lor, mem_bit in Hh.
      apply andb_prop in Hh. destruct Hh as [Hh H3]. apply andb_prop in Hh. destruct Hh as [H1 H2].
      apply negb_true_iff, orb_false_iff in H2. destruct H2 as [H2 H4]. apply Nat.eqb_neq in H4.
      repeat split; auto.
    - destruct Hh as (H1 & H2 & H3 & H4).
      rewrite !mem_land, mem_lnot, mem_lor, mem_bit, H1, H2, H4.
      apply Nat.eqb_neq in H3. rewrite Nat.eqb_sym in H3. rewrite H3. reflexivity.
  Qed.

  Lemma test_decides g minimal : (g < nG c)%nat -> mem A g = false ->
    (forall h, mem minimal h = true <-> mem A h = false /\ ((h < g)%nat -> goodb h = true)) ->
    test g minimal = negb (goodb g).
  Proof.
    intros Hg Hm Hmin. destruct (goodb g) eqn:G; cbn [negb].
    - destruct (test g minimal) eqn:T; [|reflexivity]. exfalso.
      apply test_spec in T. destruct T as (h & H1 & H2 & H3 & H4).
      pose proof (proj1 (goodb_spec c A g) G h H1 H2) as [E Hle].
      apply Hmin in H4. destruct H4 as [_ H4]. specialize (H4 ltac:(lia)).
      pose proof (proj1 (goodb_spec c A h) H4 g) as K.
      rewrite E in K. specialize (K (gen_self c A HA g Hg) Hm). lia.
    - apply test_spec. destruct (coverb g) eqn:C.
      + unfold Covers.goodb in G. apply forallb_false_exists in G. destruct G as [h [Hh Hf]].
        apply in_seq in Hh. unfold outside in Hf.
        destruct (mem (gen g) h) eqn:E1; [|discriminate]. destruct (mem A h) eqn:E2; [discriminate|].
        cbn in Hf. rewrite (proj1 (coverb_spec c A g) C h E1 E2), Z.eqb_refl in Hf. cbn in Hf.
        apply Nat.leb_gt in Hf.
        exists h. split; [exact E1|]. split; [exact E2|]. split; [lia|].
        apply Hmin. split; [exact E2|intros; lia].
      + destruct (cover_below c A HA g Hg Hm) as (h0 & H1 & H2 & H3).
        pose proof (mem_lt_of_in_range _ _ _ (gen_in_range c A g) H1) as Hlt0.
        pose proof (proj2 (cover_iff c A HA h0 Hlt0 H2) H3) as Hcov.
        destruct (good_generator c A HA _ Hcov) as (gs & Hgs & HAgs & Egs & Ggs).
        exists gs. split.
        { apply (gen_mono c A HA g h0 Hg H1). rewrite Egs. apply gen_self; assumption. }
        split; [exact HAgs|]. split.
        { intros ->. apply goodb_coverb in Ggs. congruence. }
        apply Hmin. split; [exact HAgs|intros _; exact Ggs].
  Qed.

  Lemma body_step g minimal out : (g < nG c)%nat ->
    nb_body (objects_doubleprime dfuel (relation_new c)) A (minimal, out) (bit g) =
    Ok (if test g minimal then (Z.land minimal (Z.lnot (bit g)), out) else (minimal, out ++ [mk g])).
  Proof.
    intros Hg. unfold nb_body.
    rewrite (objects_doubleprime_spec dfuel c _ Hwf (lor_bit_in_range c A HA g Hg) Hfuel).
    cbn [bind]. fold (gen g). fold (test g minimal).
    destruct (test g minimal); reflexivity.
  Qed.

  Lemma filter_seq_S {f : nat -> bool} s :
    filter f (seq 0 (S s)) = filter f (seq 0 s) ++ (if f s then [s] else []).
  Proof. rewrite seq_S, filter_app. cbn. destruct (f s); reflexivity. Qed.

  Lemma loop_spec : forall len s minimal out, (s + len = nG c)%nat -> Inv s minimal out ->
    exists minimal' out',
      for_fold (nb_body (objects_doubleprime dfuel (relation_new c)) A)
        (map bit (filter (fun i => negb (mem A i)) (seq s len))) (minimal, out) = Ok (minimal', out') /\
      Inv (nG c) minimal' out'.
  Proof.
    induction len as [|len IH]; intros s minimal out Hs HI.
    - cbn. exists minimal, out. split; [reflexivity|]. replace (nG c) with s by lia. exact HI.
    - cbn [seq filter]. destruct HI as [Hmin Hout].
      destruct (mem A s) eqn:EA; cbn [negb].
      + apply (IH (S s)); [lia|]. split.
        * intros h. rewrite Hmin. split; intros [H1 H2]; (split; [exact H1|]); intros Hlt; apply H2.
          -- destruct (Nat.eq_dec h s) as [->|Hne]; [congruence|lia].
          -- lia.
        * rewrite filter_seq_S. unfold sel at 2. rewrite EA. cbn. rewrite app_nil_r. exact Hout.
      + cbn [map for_fold]. rewrite body_step by lia.
        rewrite (test_decides s minimal ltac:(lia) EA Hmin).
        destruct (goodb s) eqn:G; cbn [negb bind].
        * apply (IH (S s)); [lia|]. split.
          -- intros h. rewrite Hmin. split; intros [H1 H2]; (split; [exact H1|]); intros Hlt.
             ++ destruct (Nat.eq_dec h s) as [->|Hne]; [exact G|apply H2; lia].
             ++ apply H2. lia.
          -- rewrite filter_seq_S. unfold sel at 2. rewrite EA, G. cbn. rewrite map_app. cbn. rewrite Hout. reflexivity.
        * apply (IH (S s)); [lia|]. split.
          -- intros h. rewrite mem_land, mem_lnot, mem_bit, andb_true_iff, Hmin, negb_true_iff, Nat.eqb_neq.
             split.
             ++ intros [[H1 H2] H3]. split; [exact H1|]. intros Hlt. apply H2. lia.
             ++ intros [H1 H2]. split; [split; [exact H1|intros Hlt; apply H2; lia]|].
                intros ->. specialize (H2 ltac:(lia)). congruence.
          -- rewrite filter_seq_S. unfold sel at 2. rewrite EA, G. cbn. rewrite app_nil_r. exact Hout.
  Qed.
End Loop.

Theorem ctx_neighbors_spec : forall dfuel c A,
  wf_ctx c -> closedO c A -> (Nat.max (nG c) (nM c) <= dfuel)%nat ->
  exists l, ctx_neighbors dfuel (relation_new c) A = Ok l /\
    NoDup (map fst l) /\
    (forall E F, In (E, F) l -> F = upO c E) /\
    (forall E, In E (map fst l) <-> covers c A E).
Proof.
  intros dfuel c A Hwf HA Hfuel.
  unfold ctx_neighbors. cbn [mc relation_new]. rewrite neighbors_unfold, atomic_lnot.
  destruct (loop_spec c A dfuel Hwf HA Hfuel (nG c) 0 (Z.lnot A) []) as (minimal' & out' & Hrun & _ & Hout).
  { lia. }
  { split; [|reflexivity]. intros h. rewrite mem_lnot, negb_true_iff. split; [intros H; split; [exact H|lia]|tauto]. }
  rewrite Hrun. cbn [bind]. exists out'. split; [reflexivity|]. subst out'.
  assert (Hsel : forall g, In g (filter (sel c A) (seq 0 (nG c))) <->
            (g < nG c)%nat /\ mem A g = false /\ goodb c A g = true).
  { intros g. rewrite filter_In, in_seq. unfold sel. rewrite andb_true_iff, negb_true_iff. split.
    - intros [H1 [H2 H3]]. repeat split; auto; lia.
    - intros [H1 [H2 H3]]. repeat split; auto; lia. }
  split; [|split].
  - rewrite map_map. cbn [mk fst]. apply NoDup_map_inj_in.
    + apply NoDup_filter, seq_NoDup.
    + intros x y Hx Hy E. apply Hsel in Hx, Hy.
      destruct Hx as (X1 & X2 & X3), Hy as (Y1 & Y2 & Y3).
      apply (goodb_inj c A HA x y); assumption.
  - intros E F Hin. apply in_map_iff in Hin. destruct Hin as [g [Hg Hin]].
    apply Hsel in Hin. destruct Hin as (G1 & G2 & G3).
    unfold mk in Hg. injection Hg as <- <-. unfold gen. symmetry. apply upO_clO.
    apply lor_bit_in_range; assumption.
  - intros E. rewrite map_map. cbn [mk fst]. rewrite in_map_iff. split.
    + intros [g [<- Hin]]. apply Hsel in Hin. destruct Hin as (G1 & G2 & G3).
      apply goodb_covers; assumption.
    + intros Hcov. destruct (good_generator c A HA E Hcov) as (g & G1 & G2 & G3 & G4).
      exists g. split; [symmetry; exact G3|]. apply Hsel. auto.
Qed.
