(** The machine-translated [Common.iterunion] (Model/Common.v, a [while_fuel] loop over the state
    [(heap, seen, out)] with the heap primitives of Base/Heap.v) computes exactly the same result,
    for every fuel, as the hand-written recursive model [LatticeApi.iterunion] used by
    Proofs/IterUnion.v.  The main theorems on [iterunion] and its lattice instances are transported
    to the translated kernel. *)
From Coq Require Import ZArith List Bool Lia ZifyBool Sorted Permutation Arith.
From Concepts Require Import Base.Res Base.PyInt Base.BitSet Base.Heap Spec.FCA Spec.Context
  Model.Matrices Model.ContextApi Model.Members Model.Lattice Model.LatticeApi Spec.LatticeSpec
  Proofs.Members Proofs.LatticeBasics Proofs.LatticeFirst Proofs.IterUnion.
From Concepts Require Model.Common.
Import ListNotations.
Open Scope Z_scope.

(** * The heap primitives *)

Lemma hmin_aux_zmin_aux : forall rest best acc,
  @hmin_aux nat best acc rest = zmin_aux best acc rest.
Proof.
  induction rest as [|x rest IH]; intros best acc; cbn [hmin_aux zmin_aux]; [reflexivity|].
  destruct (fst x <? fst best); apply IH.
Qed.

(** * The translated loop, one iteration at a time *)
Section Loop.
  Variables (sortkey : nat -> Z) (next : nat -> list nat).

  Let ent (c : nat) : Z * nat := (sortkey c, c).

  Definition tstate : Type := (list (Z * nat) * Z * list nat)%type.

  Definition tcond : tstate -> bool := fun '(heap, seen, out) => nonempty heap.

  Definition tpush : list (Z * nat) * list nat -> nat -> res (list (Z * nat) * list nat) :=
    fun '(heap, out) c => let heap := heappush heap ((sortkey c), c) in Ok (heap, out).

  Definition tbody : tstate -> res tstate :=
    fun '(heap, seen, out) =>
      do '(t1, heap) <- heappop heap ;;
      let '(index, concept) := t1 in
      do '(seen, heap, out) <- (if (seen <? index) then
        let seen := index in
        let out := out ++ [concept] in
        do '(heap, out) <- for_fold tpush (next concept) (heap, out) ;;
        Ok (seen, heap, out)
      else
        Ok (seen, heap, out)) ;;
      Ok (heap, seen, out).

  Definition tout : tstate -> res (list nat) := fun '(heap, seen, out) => Ok out.

  Lemma common_iterunion_unfold fuel seeds :
    Common.iterunion fuel sortkey next seeds =
    bind (while_fuel fuel tcond tbody (map ent seeds, -1, [])) tout.
  Proof. reflexivity. Qed.

  Lemma tpush_fold : forall l heap out,
    for_fold tpush l (heap, out) = Ok (rev (map ent l) ++ heap, out).
  Proof.
    induction l as [|c l IH]; intros heap out; cbn [for_fold map rev app]; [reflexivity|].
    unfold tpush at 1. unfold heappush. cbn [bind]. rewrite IH.
    rewrite <- app_assoc. reflexivity.
  Qed.

  Lemma tbody_cons x rest seen out :
    tbody (x :: rest, seen, out) =
    let '((index, concept), heap') := zmin_aux x [] rest in
    if seen <? index then Ok (rev (map ent (next concept)) ++ heap', index, out ++ [concept])
    else Ok (heap', seen, out).
  Proof.
    unfold tbody, heappop. rewrite hmin_aux_zmin_aux. cbn [bind].
    destruct (zmin_aux x [] rest) as [[index concept] heap'].
    destruct (seen <? index); [|reflexivity].
    rewrite tpush_fold. reflexivity.
  Qed.

  Lemma twhile_nil fuel seen out :
    bind (while_fuel fuel tcond tbody ([], seen, out)) tout = Ok out.
  Proof. destruct fuel; reflexivity. Qed.

  Lemma twhile_cons_O x rest seen out :
    bind (while_fuel O tcond tbody (x :: rest, seen, out)) tout = Raise OutOfFuel.
  Proof. reflexivity. Qed.

  Lemma twhile_cons_S fuel x rest seen out :
    bind (while_fuel (S fuel) tcond tbody (x :: rest, seen, out)) tout =
    let '((index, concept), heap') := zmin_aux x [] rest in
    if seen <? index
    then bind (while_fuel fuel tcond tbody
                 (rev (map ent (next concept)) ++ heap', index, out ++ [concept])) tout
    else bind (while_fuel fuel tcond tbody (heap', seen, out)) tout.
  Proof.
    cbn [while_fuel]. change (tcond (x :: rest, seen, out)) with true. cbv iota.
    rewrite tbody_cons.
    destruct (zmin_aux x [] rest) as [[index concept] heap'].
    destruct (seen <? index); reflexivity.
  Qed.

  (** * The simulation *)
  Variable nodes : list nat.
  Hypothesis H2 : forall c d, In c nodes -> In d nodes -> sortkey c = sortkey d -> c = d.
  Hypothesis H3 : forall c d, In c nodes -> In d (next c) -> In d nodes /\ sortkey c < sortkey d.

  (** every heap entry is [(sortkey c, c)] for a node [c] *)
  Definition good (heap : list (Z * nat)) : Prop :=
    forall e, In e heap -> e = ent (snd e) /\ In (snd e) nodes.

  Lemma good_perm h1 h2 : Permutation h1 h2 -> good h1 -> good h2.
  Proof. intros P G e He. apply G. apply (Permutation_in _ (Permutation_sym P)). exact He. Qed.

  Lemma good_app h1 h2 : good h1 -> good h2 -> good (h1 ++ h2).
  Proof. intros G1 G2 e He. apply in_app_iff in He. destruct He; auto. Qed.

  Lemma good_succ c : In c nodes -> good (map ent (next c)).
  Proof.
    intros Hc e He. apply in_map_iff in He. destruct He as [d [<- Hd]]. cbn [snd ent].
    split; [reflexivity|]. exact (proj1 (H3 c d Hc Hd)).
  Qed.

  (** popping from two permuted good heaps gives the same entry, and permuted remainders *)
  Lemma pop_perm x1 r1 x2 r2 m1 o1 m2 o2 :
    good (x1 :: r1) -> Permutation (x1 :: r1) (x2 :: r2) ->
    zmin_aux x1 [] r1 = (m1, o1) -> zmin_aux x2 [] r2 = (m2, o2) ->
    m1 = m2 /\ Permutation o1 o2 /\ good o1 /\ In (snd m1) nodes.
  Proof.
    intros G P E1 E2.
    destruct (zmin_spec _ _ _ _ E1) as [P1 M1].
    destruct (zmin_spec _ _ _ _ E2) as [P2 M2].
    assert (I1 : In m1 (x1 :: r1)) by (apply (Permutation_in _ P1); left; reflexivity).
    assert (I2 : In m2 (x1 :: r1)).
    { apply (Permutation_in _ (Permutation_sym P)). apply (Permutation_in _ P2). left; reflexivity. }
    assert (L12 : fst m1 <= fst m2).
    { apply M1. apply (Permutation_in _ (Permutation_sym P1)). exact I2. }
    assert (L21 : fst m2 <= fst m1).
    { apply M2. apply (Permutation_in _ (Permutation_sym P2)). apply (Permutation_in _ P). exact I1. }
    destruct (G m1 I1) as [Em1 N1]. destruct (G m2 I2) as [Em2 N2].
    assert (Em : m1 = m2).
    { assert (Hk : sortkey (snd m1) = sortkey (snd m2)).
      { rewrite Em1, Em2 in L12, L21. cbn [fst ent] in L12, L21. lia. }
      rewrite Em1, Em2. rewrite (H2 _ _ N1 N2 Hk). reflexivity. }
    split; [exact Em|]. split; [|split; [|exact N1]].
    - apply (Permutation_cons_inv (a := m1)).
      rewrite P1, P. rewrite Em. symmetry. exact P2.
    - intros e He. apply G. apply (Permutation_in _ P1). right. exact He.
  Qed.

  Lemma loop_equiv : forall fuel h1 h2 seen out,
    good h1 -> Permutation h1 h2 ->
    bind (while_fuel fuel tcond tbody (h1, seen, out)) tout =
    iterunion_loop fuel sortkey next h2 seen out.
  Proof.
    induction fuel as [|fuel IH]; intros h1 h2 seen out G P.
    - destruct h1 as [|x1 r1].
      + apply Permutation_nil in P. subst h2. reflexivity.
      + destruct h2 as [|x2 r2]; [apply Permutation_sym, Permutation_nil in P; discriminate|].
        reflexivity.
    - destruct h1 as [|x1 r1].
      + apply Permutation_nil in P. subst h2. reflexivity.
      + destruct h2 as [|x2 r2]; [apply Permutation_sym, Permutation_nil in P; discriminate|].
        rewrite twhile_cons_S. cbn [iterunion_loop].
        destruct (zmin_aux x1 [] r1) as [m1 o1] eqn:E1.
        destruct (zmin_aux x2 [] r2) as [m2 o2] eqn:E2.
        destruct (pop_perm _ _ _ _ _ _ _ _ G P E1 E2) as (Em & Po & Go & Nm).
        subst m2. destruct m1 as [index concept]. cbn [snd] in Nm.
        destruct (seen <? index).
        * apply IH.
          -- apply good_app; [|exact Go].
             apply (good_perm (map ent (next concept))); [apply Permutation_rev|].
             apply good_succ. exact Nm.
          -- apply Permutation_app; [|exact Po]. symmetry. apply Permutation_rev.
        * apply IH; assumption.
  Qed.

  Variable seeds : list nat.
  Hypothesis H4 : forall c, In c seeds -> In c nodes.

  Lemma good_seeds : good (map ent seeds).
  Proof.
    intros e He. apply in_map_iff in He. destruct He as [c [<- Hc]]. cbn [snd ent].
    split; [reflexivity|apply H4; exact Hc].
  Qed.

  (** ** Main theorem: the two models agree for every fuel (results and exceptions alike) *)
  Theorem common_iterunion_equiv : forall fuel,
    Common.iterunion fuel sortkey next seeds = LatticeApi.iterunion fuel seeds sortkey next.
  Proof.
    intros fuel. rewrite common_iterunion_unfold. unfold iterunion.
    apply loop_equiv; [exact good_seeds|reflexivity].
  Qed.

End Loop.

(** * The generic theorems of Proofs/IterUnion.v for the translated kernel
    (same hypotheses, in the same order, as [iterunion_correct]) *)
Section Generic.
  Variables (sortkey : nat -> Z) (next : nat -> list nat) (nodes seeds : list nat).
  Hypothesis H1 : forall c, In c nodes -> 0 <= sortkey c.
  Hypothesis H2 : forall c d, In c nodes -> In d nodes -> sortkey c = sortkey d -> c = d.
  Hypothesis H3 : forall c d, In c nodes -> In d (next c) -> In d nodes /\ sortkey c < sortkey d.
  Hypothesis H4 : forall c, In c seeds -> In c nodes.

  Theorem common_iterunion_correct fuel out :
    Common.iterunion fuel sortkey next seeds = Ok out ->
    StronglySorted (fun a b => sortkey a < sortkey b) out /\
    forall c, In c out <-> reach next seeds c.
  Proof.
    rewrite (common_iterunion_equiv sortkey next nodes H2 H3 seeds H4).
    exact (iterunion_correct sortkey next nodes seeds H1 H2 H3 H4 fuel out).
  Qed.

  Theorem common_iterunion_terminates fuel : (iterunion_fuel next nodes seeds <= fuel)%nat ->
    exists out, Common.iterunion fuel sortkey next seeds = Ok out.
  Proof.
    rewrite (common_iterunion_equiv sortkey next nodes H2 H3 seeds H4).
    exact (iterunion_terminates sortkey next nodes seeds H1 H2 H3 H4 fuel).
  Qed.

  Theorem common_iterunion_total fuel : (iterunion_fuel next nodes seeds <= fuel)%nat ->
    exists out, Common.iterunion fuel sortkey next seeds = Ok out /\
      StronglySorted (fun a b => sortkey a < sortkey b) out /\
      forall c, In c out <-> reach next seeds c.
  Proof.
    rewrite (common_iterunion_equiv sortkey next nodes H2 H3 seeds H4).
    exact (iterunion_total sortkey next nodes seeds H1 H2 H3 H4 fuel).
  Qed.
End Generic.

(** * The lattice instances: upset / downset / upset_union / downset_union on the translated kernel *)
Section LatticeInstances.
  Variables (c : ctx) (L : lattice).
  Hypothesis OK : lattice_ok c L.

  Notation n := (lat_size L).

  (** any list of valid seeds, upward and downward *)
  Theorem common_up_equiv fuel seeds : (forall s, In s seeds -> (s < n)%nat) ->
    Common.iterunion fuel (up_key L) (up_next L) seeds = iterunion fuel seeds (up_key L) (up_next L).
  Proof.
    intros Hs.
    exact (common_iterunion_equiv (up_key L) (up_next L) (seq 0 n) (up_H2 c L OK) (up_H3 c L OK)
             seeds (seeds_H4 L seeds Hs) fuel).
  Qed.

  Theorem common_down_equiv fuel seeds : (forall s, In s seeds -> (s < n)%nat) ->
    Common.iterunion fuel (down_key L) (down_next L) seeds = iterunion fuel seeds (down_key L) (down_next L).
  Proof.
    intros Hs.
    exact (common_iterunion_equiv (down_key L) (down_next L) (seq 0 n) (down_H2 c L OK) (down_H3 c L OK)
             seeds (seeds_H4 L seeds Hs) fuel).
  Qed.

  Theorem common_upset_eq fuel i : (i < length (l_concepts L))%nat ->
    Common.iterunion fuel (fun c => Z.of_nat (c_index (get_concept L c)))
      (fun c => c_upper (get_concept L c)) [i] = upset fuel L i.
  Proof.
    intros Hi. apply (common_up_equiv fuel [i]). intros s [<-|[]]. exact Hi.
  Qed.

  Theorem common_downset_eq fuel i : (i < length (l_concepts L))%nat ->
    Common.iterunion fuel (fun c => Z.of_nat (c_dindex (get_concept L c)))
      (fun c => c_lower (get_concept L c)) [i] = downset fuel L i.
  Proof.
    intros Hi. apply (common_down_equiv fuel [i]). intros s [<-|[]]. exact Hi.
  Qed.

  Theorem common_upset_union_eq fuel cs : (forall i, In i cs -> (i < length (l_concepts L))%nat) ->
    Common.iterunion fuel (fun c => Z.of_nat (c_index (get_concept L c)))
      (fun c => c_upper (get_concept L c))
      (maximal (fun a b => ok_true (properly_subsumes (c_extent (get_concept L a))
                                      (c_extent (get_concept L b)) (ones (nG (mc (l_k L)))))) cs)
    = upset_union fuel L cs.
  Proof.
    intros Hcs. apply (common_up_equiv fuel). intros s Hs. apply Hcs. exact (maximal_In _ _ _ Hs).
  Qed.

  Theorem common_downset_union_eq fuel cs : (forall i, In i cs -> (i < length (l_concepts L))%nat) ->
    Common.iterunion fuel (fun c => Z.of_nat (c_dindex (get_concept L c)))
      (fun c => c_lower (get_concept L c))
      (maximal (fun a b => ok_true (properly_implies (c_extent (get_concept L a))
                                      (c_extent (get_concept L b)) (ones (nG (mc (l_k L)))))) cs)
    = downset_union fuel L cs.
  Proof.
    intros Hcs. apply (common_down_equiv fuel). intros s Hs. apply Hcs. exact (maximal_In _ _ _ Hs).
  Qed.

  (** ** the specifications of Proofs/IterUnion.v, restated on the translated kernel *)
  Theorem common_upset_spec fuel i x :
    concept_at L i x -> (1 + edges_up L <= fuel)%nat ->
    Common.iterunion fuel (fun c => Z.of_nat (c_index (get_concept L c)))
      (fun c => c_upper (get_concept L c)) [i] =
    Ok (filter (fun j => subsetb (c_extent x) (nth_extent (l_exts L) j)) (seq 0 (length (l_concepts L)))).
  Proof.
    intros Hx Hf. rewrite (common_upset_eq fuel i (concept_at_lt L i x Hx)).
    exact (upset_spec c L OK fuel i x Hx Hf).
  Qed.

  Theorem common_downset_spec fuel i x :
    concept_at L i x -> (1 + edges_down L <= fuel)%nat ->
    exists out,
      Common.iterunion fuel (fun c => Z.of_nat (c_dindex (get_concept L c)))
        (fun c => c_lower (get_concept L c)) [i] = Ok out /\
      StronglySorted (fun a b => (c_dindex (get_concept L a) < c_dindex (get_concept L b))%nat) out /\
      NoDup out /\
      forall j, In j out <->
        (j < length (l_concepts L))%nat /\ subset (nth_extent (l_exts L) j) (c_extent x).
  Proof.
    intros Hx Hf. rewrite (common_downset_eq fuel i (concept_at_lt L i x Hx)).
    exact (downset_spec c L OK fuel i x Hx Hf).
  Qed.

  Theorem common_upset_union_spec fuel cs :
    (forall i, In i cs -> (i < length (l_concepts L))%nat) -> (length cs + edges_up L <= fuel)%nat ->
    Common.iterunion fuel (fun c => Z.of_nat (c_index (get_concept L c)))
      (fun c => c_upper (get_concept L c))
      (maximal (fun a b => ok_true (properly_subsumes (c_extent (get_concept L a))
                                      (c_extent (get_concept L b)) (ones (nG (mc (l_k L)))))) cs) =
    Ok (filter (fun j => existsb (fun i => subsetb (nth_extent (l_exts L) i) (nth_extent (l_exts L) j)) cs)
               (seq 0 (length (l_concepts L)))).
  Proof.
    intros Hcs Hf. rewrite (common_upset_union_eq fuel cs Hcs).
    exact (upset_union_spec c L OK cs Hcs fuel Hf).
  Qed.

  Theorem common_downset_union_spec fuel cs :
    (forall i, In i cs -> (i < length (l_concepts L))%nat) -> (length cs + edges_down L <= fuel)%nat ->
    exists out,
      Common.iterunion fuel (fun c => Z.of_nat (c_dindex (get_concept L c)))
        (fun c => c_lower (get_concept L c))
        (maximal (fun a b => ok_true (properly_implies (c_extent (get_concept L a))
                                        (c_extent (get_concept L b)) (ones (nG (mc (l_k L)))))) cs) = Ok out /\
      StronglySorted (fun a b => (c_dindex (get_concept L a) < c_dindex (get_concept L b))%nat) out /\
      NoDup out /\
      forall j, In j out <->
        (j < length (l_concepts L))%nat /\
        exists i, In i cs /\ subset (nth_extent (l_exts L) j) (nth_extent (l_exts L) i).
  Proof.
    intros Hcs Hf. rewrite (common_downset_union_eq fuel cs Hcs).
    exact (downset_union_spec c L OK cs Hcs fuel Hf).
  Qed.
End LatticeInstances.

(** the empty seed list needs no hypothesis at all *)
Theorem common_iterunion_nil fuel sortkey next : Common.iterunion fuel sortkey next [] = Ok [].
Proof. destruct fuel; reflexivity. Qed.
