(** The heap loop of lindig.lattice enumerates every closed extent once, in shortlex order,
    with the covering relation as upper / lower links. *)
From Coq Require Import ZArith List Bool Lia ZifyBool Arith Sorted Permutation.
From Concepts Require Import Base.Res Base.PyInt Base.BitSet Spec.FCA Spec.Context
  Model.Matrices Model.ContextApi Model.Lindig Model.Members Model.Lattice
  Proofs.Matrices Proofs.ContextApi Proofs.Closure Proofs.LatticeBasics Proofs.LatticeFirst
  Proofs.Covers Proofs.Neighbors Proofs.LindigAux.
Import ListNotations.
Open Scope Z_scope.

Definition hexts (heap : list (key * Z)) : list Z := map snd heap.

Lemma NoDup_snoc {X} (l : list X) a : NoDup l -> ~ In a l -> NoDup (l ++ [a]).
Proof.
  intros Hnd Hn. apply (Permutation_NoDup (l := a :: l)).
  - apply Permutation_cons_append.
  - constructor; assumption.
Qed.

Lemma NoDup_mid_notin {X} (h o : list X) e : NoDup (h ++ e :: o) -> ~ In e h /\ ~ In e o.
Proof.
  intros H. apply NoDup_remove_2 in H. rewrite in_app_iff in H. tauto.
Qed.

Section Loop.
  Variable c : ctx.
  Variable dfuel : nat.
  Hypothesis Hwf : wf_ctx c.
  Hypothesis Hfuel : (Nat.max (nG c) (nM c) <= dfuel)%nat.

  Record LInv (heap : list (key * Z)) (m : mapping) (out : list Z) : Prop := {
    li_nodup : NoDup (hexts heap ++ out);
    li_keys : forall x, lookup m x <> None <-> In x out \/ In x (hexts heap);
    li_entry : forall x x' i up lo, lookup m x = Some (x', i, up, lo) ->
      x' = x /\ i = upO c x /\ closedO c x /\ NoDup lo /\
      (forall y, In y lo <-> In y out /\ covers c y x);
    li_up_heap : forall x x' i up lo, lookup m x = Some (x', i, up, lo) -> In x (hexts heap) -> up = [];
    li_up_out : forall x x' i up lo, lookup m x = Some (x', i, up, lo) -> In x out ->
      NoDup up /\ forall u, In u up <-> covers c x u;
    li_cov : forall x u, In x out -> covers c x u -> In u out \/ In u (hexts heap);
    li_hkeys : forall k e, In (k, e) heap -> k = shortlex (nG c) e;
    li_sorted : StronglySorted (klt (nG c)) out;
    li_lt : forall x y, In x out -> In y (hexts heap) -> klt (nG c) x y;
    li_bot : In (clO c 0) out \/ In (clO c 0) (hexts heap)
  }.

  Record PInv (e : Z) (out us : list Z) (heap : list (key * Z)) (m : mapping) : Prop := {
    pi_nodup : NoDup (hexts heap ++ e :: out);
    pi_keys : forall x, lookup m x <> None <-> In x out \/ x = e \/ In x (hexts heap);
    pi_entry : forall x x' i up lo, lookup m x = Some (x', i, up, lo) ->
      x' = x /\ i = upO c x /\ closedO c x /\ NoDup lo /\
      (forall y, In y lo <-> (In y out /\ covers c y x) \/ (y = e /\ In x us));
    pi_up_heap : forall x x' i up lo, lookup m x = Some (x', i, up, lo) -> In x (hexts heap) -> up = [];
    pi_up_out : forall x x' i up lo, lookup m x = Some (x', i, up, lo) -> In x out ->
      NoDup up /\ forall u, In u up <-> covers c x u;
    pi_up_e : forall x' i up lo, lookup m e = Some (x', i, up, lo) -> up = us;
    pi_cov : forall x u, In x out -> covers c x u -> In u out \/ u = e \/ In u (hexts heap);
    pi_us : forall u, In u us -> In u out \/ u = e \/ In u (hexts heap);
    pi_hkeys : forall k x, In (k, x) heap -> k = shortlex (nG c) x;
    pi_lt : forall y, In y (hexts heap) -> klt (nG c) e y;
    pi_bot : In (clO c 0) out \/ clO c 0 = e \/ In (clO c 0) (hexts heap)
  }.

  Lemma LInv_closed heap m out x : LInv heap m out -> In x out \/ In x (hexts heap) -> closedO c x.
  Proof.
    intros HI Hx. assert (K : lookup m x <> None) by (apply (li_keys _ _ _ HI); exact Hx).
    destruct (lookup m x) as [[[[x' i] up] lo]|] eqn:L; [|congruence].
    exact (proj1 (proj2 (proj2 (li_entry _ _ _ HI _ _ _ _ _ L)))).
  Qed.

  (** ** inversion of the two shapes of the updated mapping *)

  Lemma inv_present m m' e u :
    u <> e ->
    (forall q, lookup m' q =
       if u =? q then option_map (add_lower e) (lookup m q)
       else if e =? q then option_map (add_upper u) (lookup m q) else lookup m q) ->
    forall x x' i up lo, lookup m' x = Some (x', i, up, lo) ->
      (x = u /\ exists lo0, lookup m u = Some (x', i, up, lo0) /\ lo = lo0 ++ [e]) \/
      (x = e /\ exists up0, lookup m e = Some (x', i, up0, lo) /\ up = up0 ++ [u]) \/
      (x <> u /\ x <> e /\ lookup m x = Some (x', i, up, lo)).
  Proof.
    intros Hne HL x x' i up lo L. rewrite HL in L.
    destruct (Z.eqb_spec u x) as [<-|N1].
    - left. split; [reflexivity|]. destruct (lookup m u) as [[[[a b] d] f]|]; [|discriminate].
      cbn in L. injection L as <- <- <- <-. eauto.
    - destruct (Z.eqb_spec e x) as [<-|N2].
      + right. left. split; [reflexivity|]. destruct (lookup m e) as [[[[a b] d] f]|]; [|discriminate].
        cbn in L. injection L as <- <- <- <-. eauto.
      + right. right. auto.
  Qed.

  Lemma inv_absent m m' e u new :
    u <> e -> lookup m u = None ->
    (forall q, lookup m' q =
       match (if e =? q then option_map (add_upper u) (lookup m q) else lookup m q) with
       | Some en => Some en
       | None => if u =? q then Some new else None
       end) ->
    forall x x' i up lo, lookup m' x = Some (x', i, up, lo) ->
      (x = u /\ (x', i, up, lo) = new) \/
      (x = e /\ exists up0, lookup m e = Some (x', i, up0, lo) /\ up = up0 ++ [u]) \/
      (x <> u /\ x <> e /\ lookup m x = Some (x', i, up, lo)).
  Proof.
    intros Hne Hnone HL x x' i up lo L. rewrite HL in L.
    destruct (Z.eqb_spec e x) as [<-|N2].
    - right. left. split; [reflexivity|]. destruct (lookup m e) as [[[[a b] d] f]|] eqn:Le.
      + cbn in L. injection L as <- <- <- <-. eauto.
      + cbn in L. destruct (Z.eqb_spec u e); [congruence|discriminate].
    - destruct (Z.eqb_spec u x) as [<-|N1].
      + left. split; [reflexivity|]. rewrite Hnone in L. congruence.
      + right. right. destruct (lookup m x); [auto|discriminate].
  Qed.

  (** ** one neighbour *)

  Lemma process_step e out us heap m u ui :
    PInv e out us heap m -> covers c e u -> ui = upO c u -> ~ In u us ->
    exists heap' m', process_neighbor (nG c) e (heap, m) (u, ui) = (heap', m') /\
                     PInv e out (us ++ [u]) heap' m'.
  Proof.
    intros HP Hcov -> Hnu.
    assert (Hne : u <> e) by (destruct Hcov as (_ & _ & [_ Hne] & _); congruence).
    destruct (NoDup_mid_notin _ _ _ (pi_nodup _ _ _ _ _ HP)) as [Heh Heo].
    unfold process_neighbor. cbv beta iota zeta.
    assert (L2 : forall q, lookup (update m e (add_upper u)) q =
                   if e =? q then option_map (add_upper u) (lookup m q) else lookup m q)
      by (intros q; apply lookup_update).
    assert (L2u : lookup (update m e (add_upper u)) u = lookup m u).
    { rewrite L2. destruct (Z.eqb_spec e u); [congruence|reflexivity]. }
    rewrite L2u.
    destruct (lookup m u) as [enu|] eqn:Lu.
    - (* already known *)
      eexists _, _. split; [reflexivity|].
      assert (Hu_in : In u out \/ u = e \/ In u (hexts heap)).
      { apply (pi_keys _ _ _ _ _ HP). congruence. }
      set (m' := update (update m e (add_upper u)) u (add_lower e)).
      assert (HL : forall q, lookup m' q =
                 if u =? q then option_map (add_lower e) (lookup m q)
                 else if e =? q then option_map (add_upper u) (lookup m q) else lookup m q).
      { intros q. unfold m'. rewrite lookup_update, L2.
        destruct (Z.eqb_spec u q) as [<-|N1]; [|reflexivity].
        destruct (Z.eqb_spec e u); [congruence|reflexivity]. }
      pose proof (inv_present m m' e u Hne HL) as Hinv.
      constructor.
      + exact (pi_nodup _ _ _ _ _ HP).
      + intros x. rewrite <- (pi_keys _ _ _ _ _ HP). rewrite HL.
        destruct (u =? x); [|destruct (e =? x)]; destruct (lookup m x); cbn; split; congruence.
      + intros x x' i up lo L.
        destruct (Hinv _ _ _ _ _ L) as [(-> & lo0 & L0 & ->)|[(-> & up0 & L0 & ->)|(N1 & N2 & L0)]];
          destruct (pi_entry _ _ _ _ _ HP _ _ _ _ _ L0) as (E1 & E2 & E3 & E4 & E5);
          (split; [exact E1|]); (split; [exact E2|]); (split; [exact E3|]).
        * split.
          -- apply NoDup_snoc; [exact E4|]. rewrite E5. tauto.
          -- intros y. rewrite !in_app_iff, E5. cbn [In]. split.
             ++ intros [[H|[H1 H2]]|[H|[]]]; [left; exact H|right; tauto|right; split; [congruence|tauto]].
             ++ intros [H|[H1 [H2|[H2|[]]]]]; [left; left; exact H|left; right; tauto|right; left; congruence].
        * split; [exact E4|]. intros y. rewrite E5, in_app_iff. cbn [In]. split.
          -- intros [H|[H1 H2]]; [left; exact H|right; tauto].
          -- intros [H|[H1 [H2|[H2|[]]]]]; [left; exact H|right; tauto|congruence].
        * split; [exact E4|]. intros y. rewrite E5, in_app_iff. cbn [In]. split.
          -- intros [H|[H1 H2]]; [left; exact H|right; tauto].
          -- intros [H|[H1 [H2|[H2|[]]]]]; [left; exact H|right; tauto|congruence].
      + intros x x' i up lo L Hin.
        destruct (Hinv _ _ _ _ _ L) as [(-> & lo0 & L0 & ->)|[(-> & up0 & L0 & ->)|(N1 & N2 & L0)]].
        * exact (pi_up_heap _ _ _ _ _ HP _ _ _ _ _ L0 Hin).
        * contradiction.
        * exact (pi_up_heap _ _ _ _ _ HP _ _ _ _ _ L0 Hin).
      + intros x x' i up lo L Hin.
        destruct (Hinv _ _ _ _ _ L) as [(-> & lo0 & L0 & ->)|[(-> & up0 & L0 & ->)|(N1 & N2 & L0)]].
        * exact (pi_up_out _ _ _ _ _ HP _ _ _ _ _ L0 Hin).
        * contradiction.
        * exact (pi_up_out _ _ _ _ _ HP _ _ _ _ _ L0 Hin).
      + intros x' i up lo L.
        destruct (Hinv _ _ _ _ _ L) as [(E & _)|[(_ & up0 & L0 & ->)|(_ & N2 & _)]]; [congruence| |congruence].
        rewrite (pi_up_e _ _ _ _ _ HP _ _ _ _ L0). reflexivity.
      + exact (pi_cov _ _ _ _ _ HP).
      + intros x Hx. apply in_app_iff in Hx. destruct Hx as [Hx|[<-|[]]]; [exact (pi_us _ _ _ _ _ HP x Hx)|exact Hu_in].
      + exact (pi_hkeys _ _ _ _ _ HP).
      + exact (pi_lt _ _ _ _ _ HP).
      + exact (pi_bot _ _ _ _ _ HP).
    - (* new extent *)
      eexists _, _. split; [reflexivity|].
      assert (Hu_out : ~ (In u out \/ u = e \/ In u (hexts heap))).
      { intros H. apply (pi_keys _ _ _ _ _ HP) in H. congruence. }
      set (new := (u, upO c u, @nil Z, [e])).
      set (m' := update m e (add_upper u) ++ [(u, new)]).
      assert (HL : forall q, lookup m' q =
                 match (if e =? q then option_map (add_upper u) (lookup m q) else lookup m q) with
                 | Some en => Some en
                 | None => if u =? q then Some new else None
                 end).
      { intros q. unfold m'. rewrite lookup_snoc, L2. reflexivity. }
      pose proof (inv_absent m m' e u new Hne Lu HL) as Hinv.
      assert (Hcu : closedO c u) by (destruct Hcov as (_ & H & _); exact H).
      assert (Hce : closedO c e) by (destruct Hcov as (H & _); exact H).
      constructor.
      + cbn [hexts map snd app]. constructor; [|exact (pi_nodup _ _ _ _ _ HP)].
        fold (hexts heap). rewrite in_app_iff. cbn [In]. intros [H|[H|H]]; [tauto|congruence|tauto].
      + intros x. cbn [hexts map snd In]. fold (hexts heap). rewrite HL.
        pose proof (pi_keys _ _ _ _ _ HP x) as K.
        destruct (Z.eqb_spec e x) as [<-|N2].
        * destruct (lookup m e); cbn; [split; [tauto|congruence]|].
          destruct (Z.eqb_spec u e); [congruence|]. split; [congruence|]. intros _. apply K. tauto.
        * destruct (lookup m x) eqn:Lx.
          -- split; [intros _|congruence]. assert (K' : In x out \/ x = e \/ In x (hexts heap)) by (apply K; congruence). tauto.
          -- destruct (Z.eqb_spec u x) as [<-|N1]; [split; [tauto|congruence]|].
             split; [congruence|]. intros H. exfalso. assert (None <> @None entry); [apply K; tauto|congruence].
      + intros x x' i up lo L.
        destruct (Hinv _ _ _ _ _ L) as [(-> & E)|[(-> & up0 & L0 & ->)|(N1 & N2 & L0)]].
        * unfold new in E. injection E as -> -> -> ->.
          split; [reflexivity|]. split; [reflexivity|]. split; [exact Hcu|].
          split; [constructor; [intros []|constructor]|].
          intros y. rewrite in_app_iff. cbn [In]. split.
          -- intros [<-|[]]. right. tauto.
          -- intros [[H1 H2]|[H1 _]]; [|left; congruence].
             exfalso. apply Hu_out. exact (pi_cov _ _ _ _ _ HP y u H1 H2).
        * destruct (pi_entry _ _ _ _ _ HP _ _ _ _ _ L0) as (E1 & E2 & E3 & E4 & E5).
          (split; [exact E1|]); (split; [exact E2|]); (split; [exact E3|]).
          split; [exact E4|]. intros y. rewrite E5, in_app_iff. cbn [In]. split.
          -- intros [H|[H1 H2]]; [left; exact H|right; tauto].
          -- intros [H|[H1 [H2|[H2|[]]]]]; [left; exact H|right; tauto|congruence].
        * destruct (pi_entry _ _ _ _ _ HP _ _ _ _ _ L0) as (E1 & E2 & E3 & E4 & E5).
          (split; [exact E1|]); (split; [exact E2|]); (split; [exact E3|]).
          split; [exact E4|]. intros y. rewrite E5, in_app_iff. cbn [In]. split.
          -- intros [H|[H1 H2]]; [left; exact H|right; tauto].
          -- intros [H|[H1 [H2|[H2|[]]]]]; [left; exact H|right; tauto|congruence].
      + intros x x' i up lo L Hin. cbn [hexts map snd In] in Hin. fold (hexts heap) in Hin.
        destruct (Hinv _ _ _ _ _ L) as [(-> & E)|[(-> & up0 & L0 & ->)|(N1 & N2 & L0)]].
        * unfold new in E. congruence.
        * destruct Hin; [congruence|contradiction].
        * destruct Hin as [Hin|Hin]; [congruence|]. exact (pi_up_heap _ _ _ _ _ HP _ _ _ _ _ L0 Hin).
      + intros x x' i up lo L Hin.
        destruct (Hinv _ _ _ _ _ L) as [(-> & E)|[(-> & up0 & L0 & ->)|(N1 & N2 & L0)]].
        * tauto.
        * contradiction.
        * exact (pi_up_out _ _ _ _ _ HP _ _ _ _ _ L0 Hin).
      + intros x' i up lo L.
        destruct (Hinv _ _ _ _ _ L) as [(E & _)|[(_ & up0 & L0 & ->)|(_ & N2 & _)]]; [congruence| |congruence].
        rewrite (pi_up_e _ _ _ _ _ HP _ _ _ _ L0). reflexivity.
      + intros x v Hx Hv. cbn [hexts map snd In]. fold (hexts heap).
        destruct (pi_cov _ _ _ _ _ HP x v Hx Hv) as [H|[H|H]]; tauto.
      + intros x Hx. cbn [hexts map snd In]. fold (hexts heap).
        apply in_app_iff in Hx. destruct Hx as [Hx|[<-|[]]]; [|tauto].
        destruct (pi_us _ _ _ _ _ HP x Hx) as [H|[H|H]]; tauto.
      + intros k x [H|H]; [injection H as <- <-; reflexivity|exact (pi_hkeys _ _ _ _ _ HP k x H)].
      + intros y Hy. cbn [hexts map snd In] in Hy. fold (hexts heap) in Hy.
        destruct Hy as [<-|Hy]; [|exact (pi_lt _ _ _ _ _ HP y Hy)].
        apply klt_psubset; [exact (proj1 Hce)|exact (proj1 Hcu)|]. destruct Hcov as (_ & _ & H & _). exact H.
      + cbn [hexts map snd In]. fold (hexts heap). destruct (pi_bot _ _ _ _ _ HP) as [H|[H|H]]; tauto.
  Qed.

  Lemma process_fold e out : forall post us heap m,
    PInv e out us heap m -> NoDup (us ++ map fst post) ->
    (forall u ui, In (u, ui) post -> covers c e u /\ ui = upO c u) ->
    exists heap' m', fold_left (process_neighbor (nG c) e) post (heap, m) = (heap', m') /\
                     PInv e out (us ++ map fst post) heap' m'.
  Proof.
    induction post as [|[u ui] post IH]; intros us heap m HP Hnd Hall.
    - cbn. rewrite app_nil_r. eauto.
    - cbn [fold_left map fst] in *.
      assert (Hnu : ~ In u us).
      { apply NoDup_remove_2 in Hnd. rewrite in_app_iff in Hnd. tauto. }
      destruct (Hall u ui (or_introl eq_refl)) as [Hcov Hui].
      destruct (process_step e out us heap m u ui HP Hcov Hui Hnu) as (h1 & m1 & -> & HP1).
      replace (us ++ u :: map fst post) with ((us ++ [u]) ++ map fst post) in * by (rewrite <- app_assoc; reflexivity).
      apply IH; [exact HP1|exact Hnd|]. intros v vi Hv. apply Hall. right. exact Hv.
  Qed.

  (** ** one iteration of the loop *)

  Lemma loop_step heap m out k e heap' :
    LInv heap m out -> pop_min heap = Some ((k, e), heap') ->
    exists ns h2 m2, ctx_neighbors dfuel (relation_new c) e = Ok ns /\
      fold_left (process_neighbor (nG c) e) ns (heap', m) = (h2, m2) /\
      LInv h2 m2 (out ++ [e]).
  Proof.
    intros HI Hpop. apply pop_min_spec in Hpop. destruct Hpop as [Hperm Hmin].
    assert (HpermE : Permutation (e :: hexts heap') (hexts heap)).
    { exact (Permutation_map snd Hperm). }
    assert (Hin : forall x, In x (hexts heap) <-> x = e \/ In x (hexts heap')).
    { intros x. split; intros H.
      - apply (Permutation_in _ (Permutation_sym HpermE)) in H. destruct H; [left; congruence|right; assumption].
      - apply (Permutation_in _ HpermE). destruct H; [left; congruence|right; assumption]. }
    assert (Hce : closedO c e) by (apply (LInv_closed _ _ _ e HI); right; apply Hin; tauto).
    assert (Hnd : NoDup (hexts heap' ++ e :: out)).
    { apply (Permutation_NoDup (l := hexts heap ++ out)); [|exact (li_nodup _ _ _ HI)].
      eapply Permutation_trans; [apply Permutation_app_tail; apply Permutation_sym; exact HpermE|].
      cbn [app]. apply Permutation_middle. }
    destruct (NoDup_mid_notin _ _ _ Hnd) as [Heh Heo].
    assert (Hout_lt : forall x, In x out -> klt (nG c) x e).
    { intros x Hx. apply (li_lt _ _ _ HI x e Hx). apply Hin. tauto. }
    assert (HP0 : PInv e out [] heap' m).
    { constructor.
      - exact Hnd.
      - intros x. rewrite (li_keys _ _ _ HI), Hin. tauto.
      - intros x x' i up lo L. destruct (li_entry _ _ _ HI _ _ _ _ _ L) as (E1 & E2 & E3 & E4 & E5).
        repeat (split; [assumption|]). intros y. rewrite E5. cbn [In]. tauto.
      - intros x x' i up lo L Hx. apply (li_up_heap _ _ _ HI _ _ _ _ _ L). apply Hin. tauto.
      - exact (li_up_out _ _ _ HI).
      - intros x' i up lo L. apply (li_up_heap _ _ _ HI _ _ _ _ _ L). apply Hin. tauto.
      - intros x u Hx Hu. pose proof (li_cov _ _ _ HI x u Hx Hu) as H. rewrite Hin in H. tauto.
      - intros u [].
      - intros k0 x Hx. apply (li_hkeys _ _ _ HI). apply (Permutation_in _ Hperm). right. exact Hx.
      - intros y Hy.
        assert (Hcy : closedO c y) by (apply (LInv_closed _ _ _ y HI); right; apply Hin; tauto).
        apply klt_of_not_lt; [exact (proj1 Hce)|exact (proj1 Hcy)|intros ->; contradiction|].
        unfold hexts in Hy. apply in_map_iff in Hy. destruct Hy as [[ky y'] [Ey Hy]]. cbn in Ey. subst y'.
        pose proof (Hmin _ Hy) as Hm. cbn [fst] in Hm.
        rewrite (li_hkeys _ _ _ HI ky y) in Hm by (apply (Permutation_in _ Hperm); right; exact Hy).
        rewrite (li_hkeys _ _ _ HI k e) in Hm by (apply (Permutation_in _ Hperm); left; reflexivity).
        exact Hm.
      - pose proof (li_bot _ _ _ HI) as H. rewrite Hin in H. tauto. }
    destruct (ctx_neighbors_spec dfuel c e Hwf Hce Hfuel) as (ns & Hns & Hnd_ns & Hint & Hcov).
    destruct (process_fold e out ns [] heap' m HP0) as (h2 & m2 & Hfold & HP).
    { exact Hnd_ns. }
    { intros u ui Hu. split; [apply Hcov; apply in_map_iff; exists (u, ui); auto|exact (Hint u ui Hu)]. }
    cbn [app] in HP.
    exists ns, h2, m2. split; [exact Hns|]. split; [exact Hfold|].
    destruct (NoDup_mid_notin _ _ _ (pi_nodup _ _ _ _ _ HP)) as [Heh2 _].
    constructor.
    - apply (Permutation_NoDup (l := hexts h2 ++ e :: out)); [|exact (pi_nodup _ _ _ _ _ HP)].
      apply Permutation_app_head. apply Permutation_cons_append.
    - intros x. rewrite (pi_keys _ _ _ _ _ HP), in_app_iff. cbn [In]. split; [intros [H|[H|H]]; auto|intros [[H|[H|[]]]|H]; auto].
    - intros x x' i up lo L. destruct (pi_entry _ _ _ _ _ HP _ _ _ _ _ L) as (E1 & E2 & E3 & E4 & E5).
      repeat (split; [assumption|]). intros y. rewrite E5, in_app_iff, Hcov. cbn [In]. split.
      + intros [[H1 H2]|[-> H2]]; auto.
      + intros [[H|[<-|[]]] H2]; auto.
    - exact (pi_up_heap _ _ _ _ _ HP).
    - intros x x' i up lo L Hx. apply in_app_iff in Hx. destruct Hx as [Hx|[<-|[]]].
      + exact (pi_up_out _ _ _ _ _ HP _ _ _ _ _ L Hx).
      + rewrite (pi_up_e _ _ _ _ _ HP _ _ _ _ L). split; [exact Hnd_ns|exact Hcov].
    - intros x u Hx Hu. rewrite in_app_iff. cbn [In]. apply in_app_iff in Hx. destruct Hx as [Hx|[<-|[]]].
      + destruct (pi_cov _ _ _ _ _ HP x u Hx Hu) as [H|[H|H]]; auto.
      + apply Hcov in Hu. destruct (pi_us _ _ _ _ _ HP u Hu) as [H|[H|H]]; auto.
    - exact (pi_hkeys _ _ _ _ _ HP).
    - apply StronglySorted_snoc; [exact (li_sorted _ _ _ HI)|exact Hout_lt].
    - intros x y Hx Hy. apply in_app_iff in Hx. destruct Hx as [Hx|[<-|[]]].
      + apply (klt_trans _ _ e); [apply Hout_lt; exact Hx|exact (pi_lt _ _ _ _ _ HP y Hy)].
      + exact (pi_lt _ _ _ _ _ HP y Hy).
    - rewrite in_app_iff. cbn [In]. destruct (pi_bot _ _ _ _ _ HP) as [H|[H|H]]; auto.
  Qed.

  (** ** the loop *)

  Lemma loop_correct : forall fuel heap m out out' m',
    LInv heap m out ->
    lindig_loop fuel dfuel (relation_new c) heap m out = Ok (out', m') -> LInv [] m' out'.
  Proof.
    induction fuel as [|fuel IH]; intros heap m out out' m' HI H; cbn [lindig_loop] in H.
    - destruct (pop_min heap) as [[[k e] heap']|] eqn:P; [discriminate|].
      injection H as <- <-. apply pop_min_none in P. subst. exact HI.
    - destruct (pop_min heap) as [[[k e] heap']|] eqn:P.
      + destruct (loop_step _ _ _ _ _ _ HI P) as (ns & h2 & m2 & Hns & Hfold & HI2).
        rewrite Hns in H. cbn [bind mc relation_new] in H. rewrite Hfold in H.
        exact (IH _ _ _ _ _ HI2 H).
      + injection H as <- <-. apply pop_min_none in P. subst. exact HI.
  Qed.

  Definition bound : nat := Z.to_nat (2 ^ Z.of_nat (nG c)).

  Lemma LInv_length heap m out : LInv heap m out -> (length (hexts heap) + length out <= bound)%nat.
  Proof.
    intros HI. rewrite <- app_length. apply NoDup_bounded_length; [exact (li_nodup _ _ _ HI)|].
    intros x Hx. apply in_range_lt_pow2. apply in_app_iff in Hx.
    apply (LInv_closed heap m out x HI). tauto.
  Qed.

  Lemma loop_terminates : forall fuel heap m out,
    LInv heap m out -> (bound + 1 <= fuel + length out)%nat ->
    exists out' m', lindig_loop fuel dfuel (relation_new c) heap m out = Ok (out', m').
  Proof.
    induction fuel as [|fuel IH]; intros heap m out HI Hf; cbn [lindig_loop].
    - destruct (pop_min heap) as [[[k e] heap']|] eqn:P; [|eauto].
      exfalso. pose proof (LInv_length _ _ _ HI) as Hl.
      destruct heap as [|x heap]; [discriminate|]. cbn [hexts map length] in Hl. lia.
    - destruct (pop_min heap) as [[[k e] heap']|] eqn:P; [|eauto].
      destruct (loop_step _ _ _ _ _ _ HI P) as (ns & h2 & m2 & Hns & Hfold & HI2).
      rewrite Hns. cbn [bind mc relation_new]. rewrite Hfold.
      apply IH; [exact HI2|]. rewrite app_length. cbn [length]. lia.
  Qed.

  (** ** completeness at exit *)

  Lemma exit_complete m out : LInv [] m out -> forall E, closedO c E -> In E out.
  Proof.
    clear Hwf Hfuel. intros HI E HE.
    assert (Hbot : In (clO c 0) out) by (destruct (li_bot _ _ _ HI) as [H|[]]; exact H).
    assert (Hgo : forall k A, In A out -> subset A E -> (card (nG c) E <= card (nG c) A + k)%nat -> In E out).
    { induction k as [|k IH]; intros A HAo Hsub Hk.
      - destruct (Z.eq_dec A E) as [->|Hne]; [exact HAo|exfalso].
        assert (HA : closedO c A) by (apply (LInv_closed _ _ _ A HI); tauto).
        pose proof (card_psubset (nG c) A E (proj1 HA) (proj1 HE) (conj Hsub Hne)). lia.
      - destruct (Z.eq_dec A E) as [->|Hne]; [exact HAo|].
        assert (HA : closedO c A) by (apply (LInv_closed _ _ _ A HI); tauto).
        destruct (cover_inside c A HA E HE Hsub Hne) as (C & HC & HCE).
        assert (HCo : In C out) by (destruct (li_cov _ _ _ HI A C HAo HC) as [H|[]]; exact H).
        apply (IH C HCo HCE).
        destruct HC as (_ & HCc & Hps & _).
        pose proof (card_psubset (nG c) A C (proj1 HA) (proj1 HCc) Hps). lia. }
    apply (Hgo (card (nG c) E) (clO c 0) Hbot); [apply bottom_least; exact HE|lia].
  Qed.
End Loop.

(** * the generator *)

Definition getm (m : mapping) (e : Z) : entry :=
  match lookup m e with Some en => en | None => (0, 0, [], []) end.

Lemma collect_ok m : forall out acc, (forall e, In e out -> lookup m e <> None) ->
  for_fold (fun acc e => match lookup m e with Some en => Ok (acc ++ [en]) | None => Raise KeyError end) out acc
  = Ok (acc ++ map (getm m) out).
Proof.
  induction out as [|e out IH]; intros acc H; cbn [for_fold map].
  - rewrite app_nil_r. reflexivity.
  - unfold getm at 1. destruct (lookup m e) as [en|] eqn:L.
    + cbn [bind]. rewrite IH by (intros x Hx; apply H; right; exact Hx).
      rewrite <- app_assoc. reflexivity.
    + exfalso. apply (H e); [left; reflexivity|exact L].
Qed.

Definition ext_of (en : entry) : Z := let '(e, _, _, _) := en in e.

Lemma init_inv c : LInv c [(shortlex (nG c) (clO c 0), clO c 0)]
                          [(clO c 0, (clO c 0, upO c 0, [], []))] [].
Proof.
  pose proof (bottom_closed c) as Hb.
  assert (HL : forall x x' i up lo,
    lookup [(clO c 0, (clO c 0, upO c 0, @nil Z, @nil Z))] x = Some (x', i, up, lo) ->
    x = clO c 0 /\ x' = clO c 0 /\ i = upO c 0 /\ up = [] /\ lo = []).
  { intros x x' i up lo L. cbn [lookup] in L. destruct (Z.eqb_spec (clO c 0) x) as [<-|]; [|discriminate].
    injection L as <- <- <- <-. auto. }
  constructor; cbn [hexts map snd app].
  - constructor; [intros []|constructor].
  - intros x. cbn [lookup In]. destruct (Z.eqb_spec (clO c 0) x); split; try congruence; try tauto.
    all: try (intros [[]|[H|[]]]; congruence).
  - intros x x' i up lo L. destruct (HL _ _ _ _ _ L) as (-> & -> & -> & -> & ->).
    split; [reflexivity|]. split; [symmetry; apply upO_clO, in_range_0|]. split; [exact Hb|].
    split; [constructor|]. intros y. cbn [In]. tauto.
  - intros x x' i up lo L _. destruct (HL _ _ _ _ _ L) as (-> & -> & -> & -> & ->). reflexivity.
  - intros x x' i up lo L [].
  - intros x u [].
  - intros k e [H|[]]. injection H as <- <-. reflexivity.
  - constructor.
  - intros x y [].
  - right. left. reflexivity.
Qed.

Lemma lindig_lattice_unfold fuel dfuel c :
  wf_ctx c -> (Nat.max (nG c) (nM c) <= dfuel)%nat ->
  lindig_lattice fuel dfuel (relation_new c) [] =
  do '(out, m) <- lindig_loop fuel dfuel (relation_new c) [(shortlex (nG c) (clO c 0), clO c 0)]
                     [(clO c 0, (clO c 0, upO c 0, [], []))] [] ;;
  for_fold (fun acc e => match lookup m e with Some en => Ok (acc ++ [en]) | None => Raise KeyError end) out [].
Proof.
  intros Hwf Hfuel. unfold lindig_lattice. cbn [mc relation_new].
  change (frommembers (nG c) []) with (@Ok Z 0). cbn [bind].
  change (mkM c (cols c)) with (relation_new c).
  rewrite (objects_doubleprime_spec dfuel c 0 Hwf (in_range_0 _) Hfuel). cbn [bind]. reflexivity.
Qed.

Theorem lindig_lattice_correct : forall fuel dfuel c raw,
  wf_ctx c -> (Nat.max (nG c) (nM c) <= dfuel)%nat ->
  lindig_lattice fuel dfuel (relation_new c) [] = Ok raw ->
    let exts := map (fun en : entry => let '(e, _, _, _) := en in e) raw in
    NoDup exts /\
    (forall A, In A exts <-> closedO c A) /\
    (forall e i up lo, In (e, i, up, lo) raw ->
        i = upO c e /\ NoDup up /\ (forall u, In u up <-> covers c e u) /\
        NoDup lo /\ (forall l, In l lo <-> covers c l e)) /\
    StronglySorted (fun a b => key_ltb (shortlex (nG c) a) (shortlex (nG c) b) = true) exts.
Proof.
  intros fuel dfuel c raw Hwf Hfuel H.
  rewrite (lindig_lattice_unfold fuel dfuel c Hwf Hfuel) in H.
  destruct (lindig_loop fuel dfuel (relation_new c) _ _ _) as [[out m]|] eqn:Hloop; [|discriminate].
  cbn [bind] in H.
  pose proof (loop_correct c dfuel Hwf Hfuel _ _ _ _ _ _ (init_inv c) Hloop) as HI.
  assert (Hkeys : forall e, In e out -> lookup m e <> None).
  { intros e He. apply (li_keys _ _ _ _ HI). tauto. }
  rewrite (collect_ok m out [] Hkeys) in H. cbn [app] in H. injection H as <-.
  assert (Hexts : map (fun en : entry => let '(e, _, _, _) := en in e) (map (getm m) out) = out).
  { rewrite map_map. rewrite <- (map_id out) at 2. apply map_ext_in. intros e He.
    unfold getm. specialize (Hkeys e He). destruct (lookup m e) as [[[[x' i] up] lo]|] eqn:L; [|congruence].
    destruct (li_entry _ _ _ _ HI _ _ _ _ _ L) as (E1 & _). exact E1. }
  cbv zeta. rewrite Hexts.
  pose proof (exit_complete c m out HI) as Hcomplete.
  split; [|split; [|split]].
  - pose proof (li_nodup _ _ _ _ HI) as Hnd. cbn in Hnd. exact Hnd.
  - intros A. split; [|apply Hcomplete]. intros HA. apply (LInv_closed c [] m out A HI). tauto.
  - intros e i up lo Hin. apply in_map_iff in Hin. destruct Hin as [x [Hx Hxo]].
    unfold getm in Hx. pose proof (Hkeys x Hxo) as Hk.
    destruct (lookup m x) as [en|] eqn:L; [|congruence]. subst en.
    destruct (li_entry _ _ _ _ HI _ _ _ _ _ L) as (-> & E2 & E3 & E4 & E5).
    destruct (li_up_out _ _ _ _ HI _ _ _ _ _ L Hxo) as [U1 U2].
    split; [exact E2|]. split; [exact U1|]. split; [exact U2|]. split; [exact E4|].
    intros l. rewrite E5. split; [tauto|]. intros Hc. split; [|exact Hc].
    apply Hcomplete. destruct Hc as (Hl & _). exact Hl.
  - exact (li_sorted _ _ _ _ HI).
Qed.

Theorem lindig_lattice_terminates : forall dfuel c, wf_ctx c -> (Nat.max (nG c) (nM c) <= dfuel)%nat ->
  exists fuel0, forall fuel, (fuel0 <= fuel)%nat ->
    exists raw, lindig_lattice fuel dfuel (relation_new c) [] = Ok raw.
Proof.
  intros dfuel c Hwf Hfuel. exists (bound c + 1)%nat. intros fuel Hf.
  rewrite (lindig_lattice_unfold fuel dfuel c Hwf Hfuel).
  destruct (loop_terminates c dfuel Hwf Hfuel fuel _ _ _ (init_inv c)) as (out & m & Hloop).
  { cbn [length]. lia. }
  rewrite Hloop. cbn [bind].
  pose proof (loop_correct c dfuel Hwf Hfuel _ _ _ _ _ _ (init_inv c) Hloop) as HI.
  rewrite (collect_ok m out []).
  - eauto.
  - intros e He. apply (li_keys _ _ _ _ HI). tauto.
Qed.
