(** The library's loaders read the text produced by the independent writers of Spec/FormatSpec.v
    (remaining clause of property C12: "text produced by such a writer is loaded as the same context"),
    for every value of the layout parameters of the writers.

    Main results (all closed under the global context):
    - [load_table_spec_writer]: [load_table (spec_write_table st ...) = Ok ...] for every [table_style]
      whose comments are free of line feeds ([table_comments_ok]) and that satisfies [table_edges_ok]
      (needed: the library loses zero-width empty cells at the ends of a row, see Properties/C12.v);
      [table_edges_ok_wide] is a simple sufficient condition;
    - [load_cxt_spec_writer]: every [cxt_style], no condition;
    - [load_csv_spec_writer_gen] / [load_csv_spec_writer_gen_auto] / [load_csv_spec_writer]: every quoting
      choice, final CRLF or not, any first header field, both symbol sets, any labels;
    - csv automaton: [rfc_record_read], [rfc_record_read_eof] (last record without line end),
      [rfc_write_read]. *)
From Coq Require Import ZArith List Bool Lia ZifyBool.
From Concepts Require Import Base.Res Model.Formats Spec.FormatSpec Proofs.Formats.
Import ListNotations.
Open Scope Z_scope.

(* =========================================================================================== *)
(** PART A - more lemmas on strip *)

Lemma drop_while_app_keep p a b : drop_while p a <> [] -> drop_while p (a ++ b) = drop_while p a ++ b.
Proof.
  induction a as [|c a IH]; [cbn [drop_while]; congruence|].
  cbn [app drop_while]. destruct (p c); [exact IH|reflexivity].
Qed.

Lemma drop_while_nil_all p s : drop_while p s = [] -> forallb p s = true.
Proof.
  induction s as [|c s IH]; [reflexivity|]. cbn [drop_while forallb].
  destruct (p c); [exact IH|discriminate].
Qed.

Lemma drop_while_decomp p s : exists w, forallb p w = true /\ s = w ++ drop_while p s.
Proof.
  induction s as [|c s [w [Hw E]]]; [exists []; auto|].
  cbn [drop_while]. destruct (p c) eqn:Ec.
  - exists (c :: w). cbn [forallb app]. rewrite Ec, Hw. split; [reflexivity|]. f_equal. exact E.
  - exists []. auto.
Qed.

Lemma rev_not_nil {A} (l : list A) : l <> [] -> rev l <> [].
Proof. intros H E. apply H. rewrite <- (rev_involutive l), E. reflexivity. Qed.

Lemma rstrip_by_app_keep p x y : rstrip_by p y <> [] -> rstrip_by p (x ++ y) = x ++ rstrip_by p y.
Proof.
  unfold rstrip_by. rewrite !frev_rev. intros H. rewrite rev_app_distr.
  rewrite drop_while_app_keep.
  - rewrite rev_app_distr, rev_involutive. reflexivity.
  - intros E. apply H. rewrite E. reflexivity.
Qed.

Lemma rstrip_by_cons_keep p c s : p c = false -> rstrip_by p (c :: s) = c :: rstrip_by p s.
Proof.
  intros Hc. unfold rstrip_by. rewrite !frev_rev. cbn [rev].
  assert (G : forall x, drop_while p (x ++ [c]) = drop_while p x ++ [c]).
  { induction x as [|d x IH]; cbn [app drop_while]; [rewrite Hc; reflexivity|].
    destruct (p d); [exact IH|reflexivity]. }
  rewrite G, rev_app_distr. reflexivity.
Qed.

Lemma rstrip_by_decomp p s : exists w, forallb p w = true /\ s = rstrip_by p s ++ w.
Proof.
  unfold rstrip_by. rewrite !frev_rev. destruct (drop_while_decomp p (rev s)) as [w [Hw E]].
  exists (rev w). split; [rewrite forallb_rev; exact Hw|].
  rewrite <- rev_app_distr, <- E, rev_involutive. reflexivity.
Qed.

Lemma strip_by_all_app p a s : forallb p a = true -> strip_by p (a ++ s) = strip_by p s.
Proof. intros H. unfold strip_by, lstrip_by. rewrite drop_while_app_all by exact H. reflexivity. Qed.

Lemma strip_by_app_all p s a : forallb p a = true -> strip_by p (s ++ a) = strip_by p s.
Proof.
  intros H. unfold strip_by, lstrip_by.
  destruct (drop_while p s) as [|c t] eqn:E.
  - apply drop_while_nil_all in E. rewrite drop_while_app_all by exact E.
    rewrite drop_while_all by exact H. reflexivity.
  - rewrite drop_while_app_keep by (rewrite E; discriminate). rewrite E.
    apply rstrip_by_app_all. exact H.
Qed.

Lemma strip_by_first_ok p s : first_ok p s = true -> strip_by p s = rstrip_by p s.
Proof. intros H. unfold strip_by, lstrip_by. rewrite drop_while_first_ok by exact H. reflexivity. Qed.

Lemma strip_rstrip s : strip (rstrip s) = strip s.
Proof.
  destruct (rstrip_by_decomp isspace s) as [w [Hw E]]. fold (rstrip s) in E.
  rewrite E at 2. unfold strip. rewrite strip_by_app_all by exact Hw. reflexivity.
Qed.

Lemma forallb_spaces p n : p 32 = true -> forallb p (spaces n) = true.
Proof. apply forallb_repeat. Qed.

Lemma lacks_spaces c n : c <> 32 -> lacks c (spaces n) = true.
Proof. intros H. apply lacks_repeat. lia. Qed.

Lemma lacks_pad c l r s : c <> 32 -> lacks c (pad_sp l r s) = lacks c s.
Proof. intros H. unfold pad_sp. rewrite !lacks_app, !lacks_spaces by exact H. rewrite andb_true_r. reflexivity. Qed.

Lemma strip_pad l r s : first_ok isspace s = true -> last_ok isspace s = true -> strip (pad_sp l r s) = s.
Proof.
  intros Hf Hl. unfold strip, pad_sp. apply strip_by_pad; try assumption; apply forallb_spaces; reflexivity.
Qed.

Lemma rstrip_pad l r s : s <> [] -> last_ok isspace s = true -> rstrip (pad_sp l r s) = spaces l ++ s.
Proof.
  intros Hne Hl. unfold rstrip, pad_sp. rewrite app_assoc.
  rewrite rstrip_by_app_all by (apply forallb_spaces; reflexivity).
  apply rstrip_by_id. rewrite last_ok_app by exact Hne. exact Hl.
Qed.

Lemma join_snoc sep (init : list str) z : init <> [] -> join sep (init ++ [z]) = join sep init ++ sep ++ z.
Proof.
  induction init as [|x init IH]; [congruence|]. intros _.
  destruct init as [|y init].
  - cbn [app]. rewrite join_cons, !join_single. reflexivity.
  - change ((x :: y :: init) ++ [z]) with (x :: y :: (init ++ [z])).
    rewrite !join_cons. change (y :: init ++ [z]) with ((y :: init) ++ [z]).
    rewrite IH by discriminate. rewrite <- !app_assoc. reflexivity.
Qed.

Lemma join_last_ok_snoc p sep (init : list str) z : z <> [] -> last_ok p (join sep (init ++ [z])) = last_ok p z.
Proof.
  intros Hz. destruct init as [|x init].
  - cbn [app]. rewrite join_single. reflexivity.
  - rewrite join_snoc by discriminate. rewrite app_assoc. apply last_ok_app. exact Hz.
Qed.

Lemma lacks_first_ok c s : lacks c s = true -> first_ok (char_in [c]) s = true.
Proof.
  destruct s as [|x s]; [reflexivity|]. rewrite lacks_cons. cbn [first_ok char_in existsb]. lia.
Qed.

Lemma lacks_rev c s : lacks c (rev s) = lacks c s.
Proof. apply forallb_rev. Qed.

Lemma lacks_last_ok c s : lacks c s = true -> last_ok (char_in [c]) s = true.
Proof. intros H. unfold last_ok. apply lacks_first_ok. rewrite lacks_rev. exact H. Qed.

(* =========================================================================================== *)
(** PART B - the table writer *)

(* ------------------------------------------------------------------------------------------- *)
(** * the lines seen by the loader *)

Lemma partition_fst_app c a b :
  fst (fst (partition c (a ++ b)))
  = if lacks c a then a ++ fst (fst (partition c b)) else fst (fst (partition c a)).
Proof.
  induction a as [|x a IH]; [reflexivity|].
  cbn [app partition]. rewrite lacks_cons. destruct (x =? c) eqn:E; [reflexivity|].
  cbn [negb andb]. destruct (partition c (a ++ b)) as [[u v] w]. destruct (partition c a) as [[u' v'] w'].
  cbn [fst] in *. rewrite IH. destruct (lacks c a); reflexivity.
Qed.

Lemma clean_nl l : table_clean_line (l ++ [10]) = table_clean_line l.
Proof.
  unfold table_clean_line. rewrite partition_fst_app. destruct (lacks 35 l) eqn:E; [|reflexivity].
  rewrite (partition_lacks 35 l E). cbn [partition fst]. change (10 =? 35) with false. cbn [fst].
  unfold strip. apply strip_by_app_all. reflexivity.
Qed.

Lemma clean_commented body n c :
  lacks 35 body = true -> table_clean_line (body ++ spaces n ++ comment_text c) = strip body.
Proof.
  intros H. unfold table_clean_line. destruct c as [t|]; cbn [comment_text].
  - rewrite app_assoc. rewrite partition_app by (rewrite lacks_app, H, lacks_spaces by lia; reflexivity).
    cbn [fst]. unfold strip. apply strip_by_app_all. apply forallb_spaces. reflexivity.
  - rewrite app_nil_r. rewrite partition_lacks by (rewrite lacks_app, H, lacks_spaces by lia; reflexivity).
    cbn [fst]. unfold strip. apply strip_by_app_all. apply forallb_spaces. reflexivity.
Qed.

Notation nonempty := (fun l : str => negb (is_nil l)).

Lemma clean_lines ls :
  forallb (lacks 10) ls = true ->
  filter nonempty (map table_clean_line (lines_keepends (join [10] ls)))
  = filter nonempty (map table_clean_line ls).
Proof.
  induction ls as [|l ls IH]; [reflexivity|].
  cbn [forallb]. intros H. apply andb_true_iff in H. destruct H as [H1 H2].
  destruct ls as [|l' ls].
  - rewrite join_single. destruct l as [|c l]; [reflexivity|].
    rewrite lines_keepends_last by (exact H1 || discriminate). reflexivity.
  - rewrite join_cons. cbn [app]. rewrite lines_keepends_app by exact H1.
    cbn [map filter]. rewrite clean_nl, IH by exact H2. reflexivity.
Qed.

Lemma filler_clean f : table_clean_line (filler_line f) = [].
Proof.
  unfold filler_line. change (spaces (fst f) ++ comment_text (snd f)) with ([] ++ spaces (fst f) ++ comment_text (snd f)).
  rewrite clean_commented by reflexivity. reflexivity.
Qed.

Lemma fillers_clean fs : filter nonempty (map table_clean_line (map filler_line fs)) = [].
Proof.
  induction fs as [|f fs IH]; [reflexivity|]. cbn [map filter]. rewrite filler_clean. exact IH.
Qed.

(* ------------------------------------------------------------------------------------------- *)
(** * the cells part of a line *)

Lemma bars_app a b : bars (a ++ b) = bars a ++ bars b.
Proof. unfold bars. apply flat_map_app. Qed.

Lemma table_text_cells_bars lp rp j cells : table_text_cells lp rp j cells = bars (pad_lines lp rp j cells).
Proof.
  revert j. induction cells as [|c cs IH]; intros j; [reflexivity|].
  cbn [table_text_cells pad_lines]. rewrite IH. reflexivity.
Qed.

(** [strip('|')] on well delimited cells *)
Lemma flags_core (ps : list str) e :
  forallb (lacks 124) ps = true -> hd [] ps <> [] -> last ps [] <> [] -> forallb (char_in [124]) e = true ->
  strip_chars [124] (bars ps ++ e) = join [124] ps.
Proof.
  intros H124 Hhd Hlast He.
  destruct ps as [|c cs]; [cbn [hd] in Hhd; congruence|]. cbn [hd] in Hhd.
  rewrite bars_join. change ((124 :: join [124] (c :: cs)) ++ e) with ([124] ++ join [124] (c :: cs) ++ e).
  unfold strip_chars. apply strip_by_pad; [reflexivity|exact He| |].
  - rewrite join_first_ok by exact Hhd. apply lacks_first_ok.
    cbn [forallb] in H124. apply andb_true_iff in H124. tauto.
  - destruct (@exists_snoc _ (c :: cs)) as [init [z E]]; [discriminate|].
    rewrite E in *. rewrite last_last in Hlast. rewrite join_last_ok_snoc by exact Hlast.
    apply lacks_last_ok. rewrite forallb_app in H124. apply andb_true_iff in H124. destruct H124 as [_ H].
    cbn [forallb] in H. rewrite andb_true_r in H. exact H.
Qed.

Lemma flags_read (ps : list str) (bar : bool) :
  forallb (lacks 124) ps = true -> hd [] ps <> [] ->
  (if bar then last ps [] <> [] else rstrip (last ps []) <> []) ->
  map strip (split_on 124 (strip_chars [124] (rstrip (bars ps ++ if bar then [124] else []))))
  = map strip ps.
Proof.
  intros H124 Hhd Hlast. destruct bar.
  - unfold rstrip. rewrite rstrip_by_id by (rewrite last_ok_snoc; reflexivity).
    rewrite flags_core by (assumption || reflexivity).
    destruct ps as [|c cs]; [cbn [hd] in Hhd; congruence|]. rewrite split_on_join by exact H124. reflexivity.
  - rewrite app_nil_r.
    destruct (@exists_snoc _ ps) as [init [z E]]; [intros E; rewrite E in Hhd; cbn [hd] in Hhd; congruence|].
    subst ps. rewrite last_last in Hlast.
    rewrite bars_app. cbn [bars flat_map]. rewrite app_nil_r.
    change (bars init ++ 124 :: z) with (bars init ++ [124] ++ z). rewrite app_assoc.
    unfold rstrip at 1. rewrite rstrip_by_app_keep by exact Hlast. fold (rstrip z).
    replace ((bars init ++ [124]) ++ rstrip z) with (bars (init ++ [rstrip z]))
      by (rewrite bars_app; cbn [bars flat_map]; rewrite app_nil_r, <- app_assoc; reflexivity).
    rewrite <- (app_nil_r (bars (init ++ [rstrip z]))).
    destruct (rstrip_by_decomp isspace z) as [w [Hw Ez]]. fold (rstrip z) in Ez.
    assert (Hz124 : lacks 124 (rstrip z) = true).
    { rewrite forallb_app in H124. apply andb_true_iff in H124. destruct H124 as [_ H].
      cbn [forallb] in H. rewrite andb_true_r in H. rewrite Ez, lacks_app in H. apply andb_true_iff in H. tauto. }
    assert (H124' : forallb (lacks 124) (init ++ [rstrip z]) = true).
    { rewrite forallb_app in H124 |- *. apply andb_true_iff in H124. destruct H124 as [H _].
      rewrite H. cbn [forallb]. rewrite Hz124. reflexivity. }
    rewrite flags_core.
    + destruct (init ++ [rstrip z]) as [|c cs] eqn:E; [destruct init; discriminate|].
      rewrite split_on_join by exact H124'. rewrite <- E. rewrite !map_app. cbn [map]. rewrite strip_rstrip. reflexivity.
    + exact H124'.
    + destruct init as [|x init]; [exact Hlast|exact Hhd].
    + rewrite last_last. exact Hlast.
    + reflexivity.
Qed.

(** a single blank cell: [''.split('|')] is [['']] *)
Lemma flags_read_single_blank (P : str) (bar : bool) :
  forallb isspace P = true -> lacks 124 P = true ->
  map strip (split_on 124 (strip_chars [124] (rstrip (bars [P] ++ if bar then [124] else []))))
  = map strip [P].
Proof.
  intros Hs H124. cbn [bars flat_map]. rewrite app_nil_r. destruct bar.
  - unfold rstrip. rewrite rstrip_by_id by (rewrite last_ok_snoc; reflexivity).
    destruct P as [|c P].
    + reflexivity.
    + change ((124 :: c :: P) ++ [124]) with ([124] ++ (c :: P) ++ [124]).
      unfold strip_chars. rewrite strip_by_pad; [|reflexivity|reflexivity|apply lacks_first_ok; exact H124|apply lacks_last_ok; exact H124].
      rewrite split_on_lacks by exact H124. reflexivity.
  - rewrite app_nil_r. unfold rstrip. rewrite rstrip_by_cons_keep by reflexivity.
    rewrite rstrip_by_all by exact Hs. cbn [map]. unfold strip at 2. rewrite strip_by_all by exact Hs. reflexivity.
Qed.

(* ------------------------------------------------------------------------------------------- *)
(** * facts on labels and cells *)

Definition label_good (s : str) : Prop :=
  s <> [] /\ first_ok isspace s = true /\ last_ok isspace s = true
  /\ lacks 124 s = true /\ lacks 35 s = true /\ lacks 10 s = true.

Lemma table_ok_good s : table_ok s = true -> label_good s.
Proof.
  intros H. destruct (table_ok_spec _ H) as [Hc [A B]]. destruct (cxt_ok_spec _ Hc) as [C [D [E [F _]]]].
  repeat split; assumption.
Qed.

Lemma lacks_mark c b : c <> 88 -> lacks c (mark_X b) = true.
Proof. intros H. destruct b; [|reflexivity]. cbn [mark_X]. rewrite lacks_cons. cbn [lacks forallb]. lia. Qed.

Lemma forallb_lacks_pad_lines c lp rp j cells :
  c <> 32 -> forallb (lacks c) cells = true -> forallb (lacks c) (pad_lines lp rp j cells) = true.
Proof.
  intros Hc. revert j. induction cells as [|x cells IH]; intros j H; [reflexivity|].
  cbn [forallb] in H. apply andb_true_iff in H. destruct H as [H1 H2].
  cbn [pad_lines forallb]. rewrite lacks_pad, H1, IH by assumption. reflexivity.
Qed.

Lemma forallb_lacks_marks c r : c <> 88 -> forallb (lacks c) (map mark_X r) = true.
Proof.
  intros H. induction r as [|b r IH]; [reflexivity|]. cbn [map forallb]. rewrite lacks_mark, IH by exact H. reflexivity.
Qed.

Lemma map_strip_pad_lines lp rp j cells :
  Forall (fun s => first_ok isspace s = true /\ last_ok isspace s = true) cells ->
  map strip (pad_lines lp rp j cells) = cells.
Proof.
  intros H. revert j. induction H as [|c cs [Hf Hl] _ IH]; intros j; [reflexivity|].
  cbn [pad_lines map]. rewrite strip_pad, IH by assumption. reflexivity.
Qed.

Lemma marks_edges r : Forall (fun s => first_ok isspace s = true /\ last_ok isspace s = true) (map mark_X r).
Proof. induction r as [|b r IH]; constructor; [destruct b; split; reflexivity|exact IH]. Qed.

Lemma marks_nonblank r : map (fun x => negb (is_nil x)) (map mark_X r) = r.
Proof. induction r as [|b r IH]; [reflexivity|]. cbn [map]. rewrite IH. destruct b; reflexivity. Qed.

Lemma last_pad_lines lp rp j (c : str) cells d :
  last (pad_lines lp rp (S j) (c :: cells)) d
  = pad_sp (lp (j + length (c :: cells))%nat) (rp (j + length (c :: cells))%nat) (last (c :: cells) []).
Proof.
  revert j c. induction cells as [|c' cells IH]; intros j c.
  - cbn [pad_lines last length]. rewrite Nat.add_1_r. reflexivity.
  - change (pad_lines lp rp (S j) (c :: c' :: cells))
      with (pad_sp (lp (S j)) (rp (S j)) c :: pad_lines lp rp (S (S j)) (c' :: cells)).
    change (last (c :: c' :: cells) []) with (last (c' :: cells) []).
    replace (j + length (c :: c' :: cells))%nat with (S j + length (c' :: cells))%nat by (cbn [length]; lia).
    rewrite <- IH. cbn [pad_lines last]. reflexivity.
Qed.

Lemma last_marks b r : last (map mark_X (b :: r)) [] = mark_X (last (b :: r) true).
Proof.
  revert b. induction r as [|b' r IH]; intros b; [reflexivity|].
  change (last (map mark_X (b :: b' :: r)) []) with (last (map mark_X (b' :: r)) []).
  rewrite IH. reflexivity.
Qed.

Lemma pad_nonempty l r s : s <> [] -> pad_sp l r s <> [].
Proof. intros H E. unfold pad_sp in E. apply app_eq_nil in E. destruct E as [_ E]. apply app_eq_nil in E. tauto. Qed.

Lemma spaces_nonempty l r : (1 <= l + r)%nat -> pad_sp l r [] <> [].
Proof. unfold pad_sp, spaces. destruct l; [destruct r; [lia|discriminate]|discriminate]. Qed.

Lemma rstrip_pad_nonempty l r s : s <> [] -> last_ok isspace s = true -> rstrip (pad_sp l r s) <> [].
Proof.
  intros Hne Hl. rewrite rstrip_pad by assumption. intros E. apply app_eq_nil in E. tauto.
Qed.

(* ------------------------------------------------------------------------------------------- *)
(** * reading one written line back *)

(** the cells part [Y = '|' ...] after the name *)
Lemma body_strip a b name Y' :
  first_ok isspace name = true ->
  strip (pad_sp a b name ++ 124 :: Y')
  = match name with [] => [] | _ => name ++ spaces b end ++ 124 :: rstrip Y'.
Proof.
  intros Hf. unfold pad_sp. rewrite <- !app_assoc. unfold strip.
  rewrite strip_by_all_app by (apply forallb_spaces; reflexivity).
  assert (Hr : rstrip_by isspace (124 :: Y') = 124 :: rstrip Y') by (apply rstrip_by_cons_keep; reflexivity).
  destruct name as [|c name].
  - cbn [app]. rewrite strip_by_all_app by (apply forallb_spaces; reflexivity).
    rewrite strip_by_first_ok by reflexivity. exact Hr.
  - rewrite strip_by_first_ok by exact Hf. rewrite app_assoc.
    rewrite rstrip_by_app_keep by (rewrite Hr; discriminate). rewrite Hr. reflexivity.
Qed.

Definition line_body (st : table_style) (i : nat) (name : str) (cells : list str) : str :=
  pad_sp (ts_lpad st i 0) (ts_rpad st i 0) name
  ++ bars (pad_lines (ts_lpad st i) (ts_rpad st i) 1 cells) ++ (if ts_bar st i then [124] else []).

Lemma table_text_line_body st i name cells :
  table_text_line st i name cells
  = line_body st i name cells ++ spaces (ts_trail st i) ++ comment_text (ts_comment st i).
Proof. unfold table_text_line, line_body. rewrite table_text_cells_bars, <- !app_assoc. reflexivity. Qed.

Lemma lacks_line_body c st i name cells :
  c <> 32 -> c <> 124 -> lacks c name = true -> forallb (lacks c) cells = true ->
  lacks c (line_body st i name cells) = true.
Proof.
  intros H1 H2 Hn Hc. unfold line_body. rewrite !lacks_app, lacks_pad, Hn by exact H1.
  rewrite lacks_bars by (exact H2 || apply forallb_lacks_pad_lines; assumption).
  destruct (ts_bar st i); [|reflexivity]. rewrite lacks_cons. cbn [lacks forallb]. lia.
Qed.

(** the header line *)
Lemma text_header_read st p ps :
  Forall label_good (p :: ps) ->
  let h := table_clean_line (table_text_line st 0 [] (p :: ps)) in
  h <> [] /\ map strip (split_on 124 (strip_chars [124] h)) = p :: ps.
Proof.
  intros Hgood h.
  set (cells := pad_lines (ts_lpad st 0) (ts_rpad st 0) 1 (p :: ps)).
  assert (H124 : forallb (lacks 124) cells = true).
  { apply forallb_lacks_pad_lines; [lia|]. apply forallb_Forall. eapply Forall_impl; [|exact Hgood].
    unfold label_good. cbv beta. tauto. }
  set (Y := bars cells ++ if ts_bar st 0 then [124] else []).
  assert (HY : exists Y', Y = 124 :: Y').
  { unfold Y, cells. cbn [pad_lines bars flat_map]. rewrite <- app_assoc. eexists. reflexivity. }
  destruct HY as [Y' HY].
  assert (HrY : rstrip Y = 124 :: rstrip Y').
  { rewrite HY. apply rstrip_by_cons_keep. reflexivity. }
  assert (Hh : h = rstrip Y).
  { unfold h. rewrite table_text_line_body. rewrite clean_commented.
    - unfold line_body. fold cells. fold Y. rewrite HrY, HY. rewrite body_strip by reflexivity. reflexivity.
    - apply lacks_line_body; try lia; [reflexivity|]. apply forallb_Forall. eapply Forall_impl; [|exact Hgood].
      unfold label_good. cbv beta. tauto. }
  split.
  - rewrite Hh, HrY. discriminate.
  - rewrite Hh. unfold Y. rewrite flags_read.
    + unfold cells. apply map_strip_pad_lines. eapply Forall_impl; [|exact Hgood]. unfold label_good. cbv beta. tauto.
    + exact H124.
    + unfold cells. cbn [pad_lines hd]. apply pad_nonempty. inversion Hgood as [|? ? [A _] _]. exact A.
    + unfold cells. rewrite last_pad_lines.
      assert (Hl : label_good (last (p :: ps) [])).
      { rewrite Forall_forall in Hgood. apply Hgood. destruct (@exists_snoc _ (p :: ps)) as [i [z E]]; [discriminate|].
        rewrite E, last_last. apply in_or_app. right. left. reflexivity. }
      destruct Hl as [A [_ [B _]]].
      destruct (ts_bar st 0); [apply pad_nonempty; exact A|apply rstrip_pad_nonempty; assumption].
Qed.

(** the edge condition of one row *)
Definition row_edges_ok (st : table_style) (i : nat) (r : list bool) : Prop :=
  (2 <= length r)%nat ->
  (hd true r = false -> (1 <= ts_lpad st i 1 + ts_rpad st i 1)%nat)
  /\ (last r true = false ->
      ts_bar st i = true /\ (1 <= ts_lpad st i (length r) + ts_rpad st i (length r))%nat).

Lemma row_edges_cases st i r :
  r <> [] -> row_edges_ok st i r ->
  r = [false]
  \/ ((hd true r = false -> (1 <= ts_lpad st i 1 + ts_rpad st i 1)%nat)
      /\ (last r true = false ->
          ts_bar st i = true /\ (1 <= ts_lpad st i (length r) + ts_rpad st i (length r))%nat)).
Proof.
  intros Hne H. destruct r as [|b [|b' r']]; [congruence| |].
  - destruct b; [right; split; discriminate|left; reflexivity].
  - right. apply H. cbn [length]. lia.
Qed.

(** an object line *)
Lemma text_row_read st i o r :
  label_good o -> r <> [] -> row_edges_ok st i r ->
  let l := table_clean_line (table_text_line st i o (map mark_X r)) in
  l <> [] /\ table_row l = (o, r).
Proof.
  intros [Hone [Hof [Hol [Ho124 [Ho35 Ho10]]]]] Hr Hedge l.
  pose proof (row_edges_cases st i r Hr Hedge) as Hcases. clear Hedge.
  destruct r as [|b r]; [congruence|].
  set (cells := pad_lines (ts_lpad st i) (ts_rpad st i) 1 (map mark_X (b :: r))).
  assert (H124 : forallb (lacks 124) cells = true).
  { apply forallb_lacks_pad_lines; [lia|]. apply forallb_lacks_marks. lia. }
  set (Y := bars cells ++ if ts_bar st i then [124] else []).
  assert (HY : exists Y', Y = 124 :: Y').
  { unfold Y, cells. cbn [map pad_lines bars flat_map]. rewrite <- app_assoc. eexists. reflexivity. }
  destruct HY as [Y' HY].
  assert (Hl : l = (o ++ spaces (ts_rpad st i 0)) ++ 124 :: rstrip Y').
  { unfold l. rewrite table_text_line_body. rewrite clean_commented.
    - unfold line_body. fold cells. fold Y. rewrite HY. rewrite body_strip by exact Hof.
      destruct o; [congruence|]. reflexivity.
    - apply lacks_line_body; [lia|lia|exact Ho35|]. apply forallb_lacks_marks. lia. }
  split.
  { rewrite Hl. destruct o; [congruence|discriminate]. }
  rewrite Hl. unfold table_row.
  rewrite partition_app by (rewrite lacks_app, Ho124, lacks_spaces by lia; reflexivity).
  f_equal.
  - unfold strip. rewrite strip_by_app_all by (apply forallb_spaces; reflexivity).
    apply strip_by_id; assumption.
  - assert (E : strip_chars [124] (rstrip Y') = strip_chars [124] (rstrip Y)).
    { rewrite HY. unfold rstrip at 2. rewrite rstrip_by_cons_keep by reflexivity.
      unfold strip_chars. symmetry. apply (strip_by_all_app (char_in [124]) [124]). reflexivity. }
    rewrite E.
    rewrite <- (map_map strip (fun x => negb (is_nil x))).
    assert (Hfr : map strip (split_on 124 (strip_chars [124] (rstrip Y))) = map strip cells).
    { unfold Y. destruct Hcases as [Er|[Hedge1 Hedge2]].
      - injection Er as Eb Er'. subst b r. unfold cells. cbn [map pad_lines mark_X].
        apply flags_read_single_blank.
        + unfold pad_sp. cbn [app]. rewrite forallb_app, !forallb_spaces by reflexivity. reflexivity.
        + rewrite lacks_pad by lia. reflexivity.
      - apply flags_read.
        + exact H124.
        + unfold cells. cbn [map pad_lines hd]. destruct b.
          * apply pad_nonempty. discriminate.
          * apply spaces_nonempty. apply Hedge1. reflexivity.
        + unfold cells. cbn [map]. rewrite last_pad_lines. fold (map mark_X (b :: r)).
          change (mark_X b :: map mark_X r) with (map mark_X (b :: r)). rewrite last_marks.
          rewrite map_length.
          destruct (last (b :: r) true) eqn:Elast.
          * destruct (ts_bar st i); [apply pad_nonempty; discriminate|apply rstrip_pad_nonempty; [discriminate|reflexivity]].
          * destruct (Hedge2 eq_refl) as [Hbar Hw]. rewrite Hbar. apply spaces_nonempty.
            replace (0 + length (b :: r))%nat with (length (b :: r)) by lia. exact Hw. }
    rewrite Hfr. unfold cells. rewrite map_strip_pad_lines by apply marks_edges. apply marks_nonblank.
Qed.

(* ------------------------------------------------------------------------------------------- *)
(** * all lines *)

Lemma text_rows_read st rows : forall i,
  (forall k o r, nth_error rows k = Some (o, r) -> label_good o /\ r <> [] /\ row_edges_ok st (i + k) r) ->
  map table_row (filter nonempty (map table_clean_line (table_text_rows st i rows))) = rows.
Proof.
  induction rows as [|[o r] rows IH]; intros i H; cbn [table_text_rows]; rewrite map_app, filter_app, fillers_clean;
    cbn [app]; [reflexivity|].
  cbn [map filter fst snd].
  destruct (H 0%nat o r eq_refl) as [Ho [Hr He]]. rewrite Nat.add_0_r in He.
  destruct (text_row_read st i o r Ho Hr He) as [A B]. cbn zeta in A, B.
  destruct (table_clean_line (table_text_line st i o (map mark_X r))) as [|c l] eqn:E; [congruence|].
  cbn [is_nil negb map]. rewrite B. f_equal. apply IH.
  intros k o' r' Hk. replace (S i + k)%nat with (i + S k)%nat by lia. apply H. exact Hk.
Qed.

Lemma comment_lacks10 c :
  (forall t, c = Some t -> no_newline t = true) -> lacks 10 (comment_text c) = true.
Proof.
  intros H. destruct c as [t|]; [|reflexivity]. cbn [comment_text]. rewrite lacks_cons.
  change (lacks 10 t) with (no_newline t). rewrite (H t eq_refl). reflexivity.
Qed.

Lemma text_line_lacks10 st i name cells :
  table_comments_ok st -> lacks 10 name = true -> forallb (lacks 10) cells = true ->
  lacks 10 (table_text_line st i name cells) = true.
Proof.
  intros [Hc _] Hn Hcs. rewrite table_text_line_body, !lacks_app.
  rewrite lacks_line_body by (try lia; assumption). rewrite lacks_spaces by lia.
  rewrite comment_lacks10 by (intros t; apply Hc). reflexivity.
Qed.

Lemma fillers_lacks10 st i : table_comments_ok st -> forallb (lacks 10) (map filler_line (ts_fill st i)) = true.
Proof.
  intros [_ Hf]. apply forallb_Forall. apply Forall_forall. intros l Hin. apply in_map_iff in Hin.
  destruct Hin as [[n c] [E Hin]]. subst l. unfold filler_line. cbn [fst snd].
  rewrite lacks_app, lacks_spaces by lia. apply comment_lacks10.
  intros t Et. subst c. eapply Hf. exact Hin.
Qed.

Lemma text_rows_lacks10 st rows : forall i,
  table_comments_ok st -> Forall (fun ob : str * list bool => lacks 10 (fst ob) = true) rows ->
  forallb (lacks 10) (table_text_rows st i rows) = true.
Proof.
  induction rows as [|ob rows IH]; intros i Hc Ho; cbn [table_text_rows]; rewrite forallb_app, fillers_lacks10 by exact Hc;
    [reflexivity|].
  inversion Ho as [|? ? H1 H2]; subst. cbn [forallb andb].
  rewrite text_line_lacks10, IH; try assumption; [reflexivity|]. apply forallb_lacks_marks. lia.
Qed.

Lemma nth_error_combine {A B} (l : list A) (l' : list B) k a b :
  nth_error (combine l l') k = Some (a, b) -> nth_error l k = Some a /\ nth_error l' k = Some b.
Proof.
  revert l' k. induction l as [|x l IH]; intros [|y l'] [|k] H; try discriminate.
  - cbn in H. injection H as <- <-. auto.
  - cbn [combine nth_error] in *. apply IH. exact H.
Qed.

Lemma no_linebreak_no_newline t : forallb (fun c => negb (linebreak c)) t = true -> no_newline t = true.
Proof. apply forallb_impl. intros c. unfold linebreak. lia. Qed.

(** a simple sufficient layout: every line has the final '|' and every cell is at least one space wide *)
Lemma table_edges_ok_wide st bools :
  (forall i, ts_bar st i = true) -> (forall i j, (1 <= ts_lpad st i j + ts_rpad st i j)%nat) ->
  table_edges_ok st bools.
Proof. intros Hb Hw i r _ _. split; intros _; [apply Hw|split; [apply Hb|apply Hw]]. Qed.

(** the library's table loader reads every text the table writer of the specification can produce *)
Theorem load_table_spec_writer st objs props bools :
  well_formed objs props bools ->
  Forall (fun s => table_ok s = true) objs -> Forall (fun s => table_ok s = true) props ->
  table_comments_ok st -> table_edges_ok st bools ->
  load_table (spec_write_table st objs props bools) = Ok (objs, props, bools).
Proof.
  intros [Hobjs [Hprops [Hlen Hrows]]] Hoo Hpo Hcom Hedge.
  assert (Hog : Forall label_good objs) by (eapply Forall_impl; [|exact Hoo]; apply table_ok_good).
  assert (Hpg : Forall label_good props) by (eapply Forall_impl; [|exact Hpo]; apply table_ok_good).
  set (rows := combine objs bools).
  assert (Hrne : rows <> []).
  { unfold rows. destruct objs; [congruence|]. destruct bools; discriminate. }
  unfold load_table, spec_write_table. fold rows.
  rewrite clean_lines.
  2:{ rewrite forallb_app, fillers_lacks10 by exact Hcom. cbn [forallb andb].
      rewrite text_line_lacks10, text_rows_lacks10; try assumption; try reflexivity.
      - apply Forall_forall. intros [o r] Hin. cbn [fst]. apply in_combine_l in Hin.
        rewrite Forall_forall in Hog. destruct (Hog o Hin) as [_ [_ [_ [_ [_ H]]]]]. exact H.
      - apply forallb_Forall. eapply Forall_impl; [|exact Hpg]. unfold label_good. cbv beta. tauto. }
  rewrite map_app, filter_app, fillers_clean. cbn [app map filter].
  destruct props as [|p ps]; [congruence|].
  destruct (text_header_read st p ps Hpg) as [A B]. cbn zeta in A, B.
  destruct (table_clean_line (table_text_line st 0 [] (p :: ps))) as [|c h] eqn:E; [congruence|].
  cbn [is_nil negb]. rewrite B.
  rewrite text_rows_read.
  - destruct rows as [|x xs] eqn:Er; [congruence|]. rewrite <- Er. unfold rows.
    rewrite map_fst_combine, map_snd_combine by (symmetry; exact Hlen || exact Hlen). reflexivity.
  - intros k o r Hk. apply nth_error_combine in Hk. destruct Hk as [Ho Hr].
    split; [|split].
    + rewrite Forall_forall in Hog. apply Hog. eapply nth_error_In. exact Ho.
    + rewrite Forall_forall in Hrows. specialize (Hrows r (nth_error_In _ _ Hr)).
      destruct r; [discriminate|discriminate].
    + exact (Hedge k r Hr).
Qed.

(* =========================================================================================== *)
(** PART C - the cxt writer *)

(* ------------------------------------------------------------------------------------------- *)
(** * split() with arbitrary white space *)

Lemma split_ws_go_spaces w rest :
  forallb isspace w = true -> w <> [] -> split_ws_go (w ++ rest) = ([], split_ws rest).
Proof.
  induction w as [|c w IH]; [congruence|]. intros H _.
  cbn [forallb] in H. apply andb_true_iff in H. destruct H as [H1 H2].
  cbn [app split_ws_go]. destruct w as [|d w].
  - cbn [app]. unfold split_ws. destruct (split_ws_go rest) as [x xs]. rewrite H1. reflexivity.
  - rewrite IH by (exact H2 || discriminate). rewrite H1. reflexivity.
Qed.

Lemma split_ws_spaces w rest : forallb isspace w = true -> split_ws (w ++ rest) = split_ws rest.
Proof.
  intros H. destruct w as [|c w]; [reflexivity|].
  unfold split_ws at 1. rewrite split_ws_go_spaces by (exact H || discriminate). reflexivity.
Qed.

Lemma split_ws_go_allspace w : forallb isspace w = true -> split_ws_go w = ([], []).
Proof.
  intros H. destruct w as [|c w]; [reflexivity|].
  rewrite <- (app_nil_r (c :: w)). rewrite split_ws_go_spaces by (exact H || discriminate). reflexivity.
Qed.

Lemma split_ws_two_padded w1 a w2 b w3 :
  a <> [] -> b <> [] ->
  forallb (fun c => negb (isspace c)) a = true -> forallb (fun c => negb (isspace c)) b = true ->
  forallb isspace w1 = true -> forallb isspace w2 = true -> w2 <> [] -> forallb isspace w3 = true ->
  split_ws (w1 ++ a ++ w2 ++ b ++ w3) = [a; b].
Proof.
  intros Ha Hb Hsa Hsb H1 H2 Hne H3.
  rewrite split_ws_spaces by exact H1. unfold split_ws at 1.
  rewrite split_ws_go_word by exact Hsa. rewrite split_ws_go_spaces by assumption. cbn [fst snd].
  rewrite app_nil_r. unfold split_ws. rewrite split_ws_go_word by exact Hsb.
  rewrite split_ws_go_allspace by exact H3. cbn [fst snd]. rewrite app_nil_r.
  destruct a; [congruence|]. destruct b; [congruence|]. reflexivity.
Qed.

(* ------------------------------------------------------------------------------------------- *)
(** * the padded body *)

Lemma first_ok_not10 m : first_ok isspace m = true -> first_ok (fun c => c =? 10) m = true.
Proof. apply first_ok_weaken. intros c H. apply Z.eqb_eq in H. subst c. reflexivity. Qed.

Lemma padded_body_decomp lp rp : forall body j,
  body <> [] -> Forall line_good body ->
  exists a m b, join [10] (pad_lines lp rp j body) = spaces a ++ m ++ spaces b
    /\ m <> [] /\ first_ok isspace m = true /\ last_ok isspace m = true /\ has_double 10 m = false
    /\ (forall k, map strip (split_on 10 (spaces k ++ m)) = body).
Proof.
  induction body as [|l body IH]; intros j Hne Hg; [congruence|].
  inversion Hg as [|? ? [L1 [L2 [L3 [L4 L5]]]] Hg']; subst.
  destruct body as [|l' body].
  - exists (lp j), l, (rp j). cbn [pad_lines]. rewrite join_single.
    repeat split; try assumption; [apply has_double_lacks_all; exact L4|].
    intros k. rewrite split_on_lacks by (rewrite lacks_app, lacks_spaces, L4 by lia; reflexivity).
    cbn [map]. f_equal. rewrite <- (app_nil_r l) at 1. unfold strip.
    apply strip_by_pad; try assumption; [apply forallb_spaces|]; reflexivity.
  - destruct (IH (S j) ltac:(discriminate) Hg') as [a' [m' [b' [E [M1 [M2 [M3 [M4 M5]]]]]]]].
    exists (lp j), (l ++ spaces (rp j) ++ 10 :: spaces a' ++ m'), b'.
    change (pad_lines lp rp j (l :: l' :: body)) with (pad_sp (lp j) (rp j) l :: pad_lines lp rp (S j) (l' :: body)).
    destruct (pad_lines lp rp (S j) (l' :: body)) as [|y ys] eqn:Ey; [discriminate|].
    rewrite join_cons, E. split; [|split; [|split; [|split; [|split]]]].
    + unfold pad_sp. rewrite <- !app_assoc. cbn [app]. rewrite <- !app_assoc. reflexivity.
    + destruct l; [congruence|discriminate].
    + rewrite first_ok_app by exact L1. exact L2.
    + replace (l ++ spaces (rp j) ++ 10 :: spaces a' ++ m') with ((l ++ spaces (rp j) ++ 10 :: spaces a') ++ m')
        by (rewrite <- !app_assoc; cbn [app]; reflexivity).
      rewrite last_ok_app by exact M1. exact M3.
    + rewrite has_double_lacks by exact L4. rewrite has_double_lacks by (apply lacks_spaces; lia).
      rewrite has_double_sep.
      * rewrite has_double_lacks by (apply lacks_spaces; lia). exact M4.
      * destruct a' as [|a']; [cbn [spaces repeat app]; apply first_ok_not10; exact M2|reflexivity].
    + intros k.
      replace (spaces k ++ l ++ spaces (rp j) ++ 10 :: spaces a' ++ m')
        with (pad_sp k (rp j) l ++ 10 :: (spaces a' ++ m')) by (unfold pad_sp; rewrite <- !app_assoc; reflexivity).
      rewrite split_on_app by (rewrite lacks_pad by lia; exact L4).
      cbn [map]. rewrite strip_pad, M5 by assumption. reflexivity.
Qed.

(* ------------------------------------------------------------------------------------------- *)
(** * the loader on the written text *)

Lemma trailer_space (tr : list nat) : forallb isspace (flat_map (fun n => 10 :: spaces n) tr) = true.
Proof.
  induction tr as [|n tr IH]; [reflexivity|]. cbn [flat_map]. rewrite forallb_app, IH.
  cbn [forallb]. rewrite forallb_spaces by reflexivity. reflexivity.
Qed.

Theorem load_cxt_spec_writer st objs props bools :
  well_formed objs props bools ->
  Forall (fun s => cxt_ok s = true) objs -> Forall (fun s => cxt_ok s = true) props ->
  load_cxt (spec_write_cxt st objs props bools) = Ok (objs, props, bools).
Proof.
  intros Hwf Hoo Hpo.
  pose proof (cxt_body_good _ _ _ Hwf Hoo Hpo) as Hg.
  destruct Hwf as [Hobjs [Hprops [Hlen Hrows]]].
  change (map (map cxt_symbol) bools) with (map (map cxt_mark) bools) in Hg.
  set (rows := map (map cxt_mark) bools) in *.
  set (body := objs ++ props ++ rows) in *.
  assert (Hbne : body <> []) by (unfold body; destruct objs; [congruence|discriminate]).
  set (lp := cx_lpad st). set (rp := cx_rpad st).
  destruct (padded_body_decomp lp rp body 3 Hbne Hg) as [a [m [b [EJ [M1 [M2 [M3 [M4 M5]]]]]]]].
  set (ny := nat_to_str (length objs)). set (nx := nat_to_str (length props)).
  destruct (nat_to_str_spec (length objs)) as [Y1 [Y2 Y3]]. fold ny in Y1, Y2, Y3.
  destruct (nat_to_str_spec (length props)) as [X1 [X2 X3]]. fold nx in X1, X2, X3.
  assert (Hny10 : lacks 10 ny = true) by (apply digits_lack; [reflexivity|exact Y2]).
  assert (Hnx10 : lacks 10 nx = true) by (apply digits_lack; [reflexivity|exact X2]).
  set (YX := pad_sp (lp 1%nat) (rp 1%nat) ny ++ 10 :: pad_sp (lp 2%nat) (rp 2%nat) nx).
  set (T := flat_map (fun n => 10 :: spaces n) (cx_trailer st)).
  set (M := ([66] ++ spaces (rp 0%nat)) ++ 10 :: 10 :: YX ++ 10 :: 10 :: (spaces a ++ m)).
  assert (Htext : spec_write_cxt st objs props bools = spaces (lp 0%nat) ++ M ++ (spaces b ++ T)).
  { unfold spec_write_cxt. fold lp rp ny nx rows body T.
    cbn [pad_lines app].
    destruct (pad_lines lp rp 3 body) as [|y ys] eqn:Ey; [destruct body; [congruence|discriminate]|].
    rewrite !join_cons, EJ. unfold M, YX, pad_sp. repeat (rewrite <- !app_assoc; cbn [app]). reflexivity. }
  unfold load_cxt. rewrite Htext.
  assert (Hstrip : strip (spaces (lp 0%nat) ++ M ++ spaces b ++ T) = M).
  { unfold strip. apply strip_by_pad.
    - apply forallb_spaces. reflexivity.
    - rewrite forallb_app, forallb_spaces by reflexivity. apply trailer_space.
    - reflexivity.
    - unfold M.
      replace (([66] ++ spaces (rp 0%nat)) ++ 10 :: 10 :: YX ++ 10 :: 10 :: spaces a ++ m)
        with ((([66] ++ spaces (rp 0%nat)) ++ 10 :: 10 :: YX ++ 10 :: 10 :: spaces a) ++ m)
        by (rewrite <- !app_assoc; cbn [app]; rewrite <- !app_assoc; reflexivity).
      rewrite last_ok_app by exact M1. exact M3. }
  rewrite Hstrip. clear Hstrip Htext.
  assert (Hsplit : split_on2 10 10 M = [[66] ++ spaces (rp 0%nat); YX; spaces a ++ m]).
  { unfold M. rewrite split_on2_app.
    2:{ rewrite has_double_lacks; [reflexivity|]. rewrite lacks_app, lacks_spaces by lia. reflexivity. }
    rewrite split_on2_app.
    - rewrite split_on2_none; [reflexivity|]. rewrite has_double_lacks by (apply lacks_spaces; lia). exact M4.
    - unfold YX, pad_sp. repeat (rewrite <- !app_assoc; cbn [app]).
      rewrite has_double_lacks by (apply lacks_spaces; lia). rewrite has_double_lacks by exact Hny10.
      rewrite has_double_lacks by (apply lacks_spaces; lia).
      rewrite has_double_sep.
      + rewrite has_double_lacks by (apply lacks_spaces; lia). rewrite has_double_lacks by exact Hnx10.
        rewrite has_double_lacks by (apply lacks_spaces; lia). reflexivity.
      + destruct (lp 2%nat) as [|n]; [|reflexivity]. cbn [spaces repeat app].
        destruct nx as [|c nx']; [congruence|]. rewrite lacks_cons in Hnx10. cbn [app first_ok]. lia. }
  rewrite Hsplit. clear Hsplit.
  assert (Hns : forall ds, forallb is_digit ds = true -> forallb (fun c => negb (isspace c)) ds = true).
  { intros ds. apply forallb_impl. intros c. unfold is_digit, isspace. lia. }
  assert (Hws : split_ws YX = [ny; nx]).
  { unfold YX, pad_sp.
    replace ((spaces (lp 1%nat) ++ ny ++ spaces (rp 1%nat)) ++ 10 :: spaces (lp 2%nat) ++ nx ++ spaces (rp 2%nat))
      with (spaces (lp 1%nat) ++ ny ++ (spaces (rp 1%nat) ++ 10 :: spaces (lp 2%nat)) ++ nx ++ spaces (rp 2%nat))
      by (rewrite <- !app_assoc; cbn [app]; reflexivity).
    apply split_ws_two_padded; auto.
    - apply forallb_spaces. reflexivity.
    - rewrite forallb_app, forallb_spaces by reflexivity. cbn [forallb]. rewrite forallb_spaces by reflexivity. reflexivity.
    - destruct (spaces (rp 1%nat)); discriminate.
    - apply forallb_spaces. reflexivity. }
  rewrite Hws. clear Hws.
  unfold ny, nx. rewrite !py_int_nat_to_str. cbn [bind].
  assert (Hsb : strip (spaces a ++ m) = m).
  { rewrite <- (app_nil_r m) at 1. unfold strip. apply strip_by_pad; try assumption; [apply forallb_spaces|]; reflexivity. }
  rewrite Hsb. specialize (M5 0%nat). cbn [spaces repeat app] in M5. rewrite M5.
  unfold body. destruct (py_slice_3 objs props rows) as [S1 [S2 S3]].
  rewrite S1, S2, S3. unfold rows. change (map (map cxt_mark) bools) with (map (map cxt_symbol) bools).
  rewrite cxt_rows_read. reflexivity.
Qed.

(* =========================================================================================== *)
(** PART D - the csv writer *)

Lemma rfc_read_field q f fs rest :
  rest <> [] ->
  exists s1 acc,
    csv_chars excel false (START_FIELD, [], fs) (rfc_field q f ++ rest) = csv_chars excel false (s1, acc, fs) rest
    /\ after_field s1 /\ rev acc = f.
Proof.
  intros Hr. destruct q.
  - exists QUOTE_IN_QUOTED_FIELD, (rev f ++ []). split; [|split].
    + unfold rfc_field. cbn [orb]. change (rfc_quoted f) with (34 :: csv_escape f ++ [34]).
      cbn [app]. rewrite <- app_assoc. cbn [app].
      rewrite (csv_step_mid excel false _ (IN_QUOTED_FIELD, [], fs) 34); [|reflexivity|].
      * apply excel_quoted_body. exact Hr.
      * apply line_end_false_mid; [lia|]. destruct (csv_escape f); discriminate.
    + right. right. reflexivity.
    + rewrite app_nil_r. apply rev_involutive.
  - change (rfc_field false f) with (csv_quote_field f). apply excel_read_field. exact Hr.
Qed.

Definition rfc_qfield (x : bool * str) : str := rfc_field (fst x) (snd x).

Lemma rfc_row_fields fs qf qfl rest :
  csv_chars excel false (START_FIELD, [], fs) (join [44] (map rfc_qfield (qf :: qfl)) ++ 13 :: 10 :: rest)
  = ((rev fs ++ map snd (qf :: qfl)) :: fst (csv_chars excel false pstate0 rest),
     snd (csv_chars excel false pstate0 rest)).
Proof.
  revert fs qf. induction qfl as [|g qfl IH]; intros fs [q f].
  - cbn [map]. rewrite join_single. unfold rfc_qfield. cbn [fst snd].
    destruct (rfc_read_field q f fs (13 :: 10 :: rest)) as [s1 [acc [E [Hs Hacc]]]]; [discriminate|].
    rewrite E, excel_after_crlf by exact Hs. rewrite frev_save, Hacc. reflexivity.
  - cbn [map]. cbn [map] in IH. rewrite join_cons, <- !app_assoc. unfold rfc_qfield at 1. cbn [fst snd].
    destruct (rfc_read_field q f fs ([44] ++ join [44] (rfc_qfield g :: map rfc_qfield qfl) ++ 13 :: 10 :: rest))
      as [s1 [acc [E [Hs Hacc]]]]; [discriminate|].
    rewrite E. cbn [app]. rewrite excel_after_comma; [|exact Hs|].
    2:{ destruct (join [44] (rfc_qfield g :: map rfc_qfield qfl)); discriminate. }
    rewrite IH. rewrite frev_rev. cbn [rev]. rewrite Hacc, <- app_assoc. reflexivity.
Qed.

Lemma rfc_field_first q f :
  match rfc_field q f with
  | [] => f = [] /\ q = false
  | c :: _ => c <> 10 /\ c <> 13
  end.
Proof.
  destruct q.
  - unfold rfc_field, rfc_quoted. cbn [orb]. lia.
  - change (rfc_field false f) with (csv_quote_field f). pose proof (quote_field_first f) as H.
    destruct (csv_quote_field f); auto.
Qed.

(** the fields of a record with their quoting choices *)
Definition rfc_choices (q : nat -> bool) (fields : list str) : list (bool * str) :=
  map (fun jf : nat * str => (q (fst jf), snd jf)) (combine (seq 0 (length fields)) fields).

Lemma rfc_record_choices q fields :
  rfc_record_text q fields = join [44] (map rfc_qfield (rfc_choices q fields)).
Proof. unfold rfc_record_text, rfc_choices. rewrite map_map. reflexivity. Qed.

Lemma rfc_choices_snd q fields : map snd (rfc_choices q fields) = fields.
Proof.
  unfold rfc_choices. rewrite map_map. cbn [snd].
  change (map (fun x : nat * str => snd x) (combine (seq 0 (length fields)) fields))
    with (map snd (combine (seq 0 (length fields)) fields)).
  apply map_snd_combine. apply seq_length.
Qed.

Lemma rfc_choices_cons q f fl : exists qfl, rfc_choices q (f :: fl) = (q 0%nat, f) :: qfl.
Proof. unfold rfc_choices. cbn [length seq combine map fst snd]. eexists. reflexivity. Qed.

(** a record is readable when it is not made of one empty unquoted field only (an empty line is no
    record) *)
Definition rfc_record_ok (q : nat -> bool) (fields : list str) : Prop :=
  fields <> [] /\ (q 0%nat = true \/ fields <> [[]]).

Lemma rfc_record_first q f fl rest :
  rfc_record_ok q (f :: fl) -> rest <> [] ->
  exists c t, rfc_record_text q (f :: fl) ++ rest = c :: t /\ c <> 10 /\ c <> 13 /\ (c = 44 -> t <> []).
Proof.
  intros [_ Hq] Hrest. rewrite rfc_record_choices.
  pose proof (rfc_choices_snd q (f :: fl)) as Hsnd.
  destruct (rfc_choices_cons q f fl) as [qfl Hc]. rewrite Hc in *.
  cbn [map join]. unfold rfc_qfield at 1. cbn [fst snd]. pose proof (rfc_field_first (q 0%nat) f) as Hf.
  destruct (rfc_field (q 0%nat) f) as [|c t].
  - destruct Hf as [Hf1 Hf2]. subst f. destruct Hq as [Hq|Hq]; [congruence|].
    destruct qfl as [|g qfl].
    + cbn [map snd] in Hsnd. injection Hsnd as Hfl. subst fl. exfalso. apply Hq. reflexivity.
    + cbn [map flat_map app]. eexists. eexists. split; [reflexivity|]. repeat split; try lia.
      intros _. destruct (rfc_qfield g); [destruct (flat_map _ _); [exact Hrest|discriminate]|discriminate].
  - cbn [app]. eexists. eexists. split; [reflexivity|]. destruct Hf as [A B]. repeat split; try assumption.
    intros _. destruct t; [|discriminate]. cbn [app].
    destruct (flat_map _ _); [exact Hrest|discriminate].
Qed.

(** the excel reader reads one record written by the RFC writer, whatever the quoting choices *)
Lemma rfc_record_read q fields rest :
  rfc_record_ok q fields ->
  csv_chars excel false pstate0 (rfc_record_text q fields ++ [13; 10] ++ rest)
  = (fields :: fst (csv_chars excel false pstate0 rest), snd (csv_chars excel false pstate0 rest)).
Proof.
  intros Hok. destruct fields as [|f fl]; [destruct Hok; congruence|].
  destruct (rfc_record_first q f fl ([13; 10] ++ rest) Hok ltac:(discriminate)) as [c [t [Et [Hc1 [Hc2 _]]]]].
  rewrite Et, excel_start_record by assumption. rewrite <- Et.
  rewrite rfc_record_choices.
  pose proof (rfc_choices_snd q (f :: fl)) as Hsnd.
  destruct (rfc_choices_cons q f fl) as [qfl Hc]. rewrite Hc in *.
  cbn [app]. rewrite rfc_row_fields. cbn [rev app]. f_equal. f_equal. exact Hsnd.
Qed.

(* ------------------------------------------------------------------------------------------- *)
(** * the last record without line end *)

Lemma excel_record_done s acc fs :
  after_field s ->
  (let st2 := step_eol (s, acc, fs) in
   if cstate_eqb (fst (fst st2)) START_RECORD
   then let '(rs, e) := csv_chars excel false pstate0 [] in (frev (snd st2) :: rs, e)
   else csv_chars excel false st2 [])
  = ([rev fs ++ [rev acc]], None).
Proof.
  intros Hs. destruct Hs as [Hs|[Hs|Hs]]; subst s; cbn [step_eol fst snd cstate_eqb csv_chars csv_eof pstate0 is_nil negb orb];
    unfold save_field; rewrite frev_save; reflexivity.
Qed.

(** the closing quote is the last character of the input *)
Lemma excel_quoted_body_eof f acc fs :
  csv_chars excel false (IN_QUOTED_FIELD, acc, fs) (csv_escape f ++ [34])
  = ([rev fs ++ [rev (rev f ++ acc)]], None).
Proof.
  revert acc. induction f as [|c f IH]; intros acc.
  - cbn [csv_escape flat_map app rev]. rewrite csv_chars_cons.
    change (step_char excel (IN_QUOTED_FIELD, acc, fs) 34) with (@Ok pstate (QUOTE_IN_QUOTED_FIELD, acc, fs)).
    change (line_end false 34 []) with true. cbv iota.
    apply excel_record_done. right. right. reflexivity.
  - unfold csv_escape. cbn [flat_map]. fold (csv_escape f).
    assert (Hne : csv_escape f ++ [34] <> []) by (destruct (csv_escape f); discriminate).
    destruct (c =? 34) eqn:E.
    + assert (c = 34) by lia. subst c. cbn [app].
      rewrite (csv_step_mid excel false _ (QUOTE_IN_QUOTED_FIELD, acc, fs) 34); [|reflexivity|reflexivity].
      rewrite (csv_step_mid excel false _ (IN_QUOTED_FIELD, 34 :: acc, fs) 34); [|reflexivity|].
      * rewrite IH. cbn [rev]. rewrite <- app_assoc. reflexivity.
      * apply line_end_false_mid; [lia|exact Hne].
    + cbn [app]. rewrite csv_chars_cons, excel_step_quoted_other by lia.
      destruct (line_end false c (csv_escape f ++ [34])).
      * cbn [step_eol fst snd cstate_eqb]. rewrite IH. cbn [rev]. rewrite <- app_assoc. reflexivity.
      * rewrite IH. cbn [rev]. rewrite <- app_assoc. reflexivity.
Qed.

(** a plain field up to the end of the input *)
Lemma excel_plain_eof s acc fs c f :
  forallb (plain excel) (c :: f) = true -> (s = START_RECORD \/ s = START_FIELD \/ s = IN_FIELD) ->
  (s = IN_FIELD \/ acc = []) ->
  csv_chars excel false (s, acc, fs) (c :: f) = ([rev fs ++ [rev (rev (c :: f) ++ acc)]], None).
Proof.
  revert s acc c. induction f as [|d f IH]; intros s acc c Hp Hs Hacc.
  - cbn [forallb] in Hp. rewrite andb_true_r in Hp.
    assert (Hstep : step_char excel (s, acc, fs) c = Ok (IN_FIELD, c :: acc, fs)).
    { destruct Hs as [Hs|[Hs|Hs]]; subst s.
      - apply step_plain_start; auto.
      - apply step_plain_start; auto.
      - apply step_plain_in_field. exact Hp. }
    rewrite csv_chars_cons, Hstep.
    assert (Hle : line_end false c [] = true) by (unfold line_end; cbn [is_nil]; lia).
    rewrite Hle. rewrite excel_record_done by (right; left; reflexivity). reflexivity.
  - cbn [forallb] in Hp. apply andb_true_iff in Hp. destruct Hp as [Hc Hp].
    assert (Hstep : step_char excel (s, acc, fs) c = Ok (IN_FIELD, c :: acc, fs)).
    { destruct Hs as [Hs|[Hs|Hs]]; subst s.
      - apply step_plain_start; auto.
      - apply step_plain_start; auto.
      - apply step_plain_in_field. exact Hc. }
    rewrite (csv_step_mid excel false _ _ c _ Hstep).
    + rewrite IH; [|exact Hp|right; right; reflexivity|left; reflexivity].
      cbn [rev]. rewrite <- !app_assoc. reflexivity.
    + destruct (plain_not_nl _ _ Hc). apply line_end_false_mid; [assumption|discriminate].
Qed.

(** one non-empty field text up to the end of the input *)
Lemma rfc_field_eof q f fs :
  rfc_field q f <> [] ->
  csv_chars excel false (START_FIELD, [], fs) (rfc_field q f) = ([rev fs ++ [f]], None).
Proof.
  intros Hne.
  assert (Hquoted : csv_chars excel false (START_FIELD, [], fs) (rfc_quoted f) = ([rev fs ++ [f]], None)).
  { change (rfc_quoted f) with (34 :: csv_escape f ++ [34]).
    rewrite (csv_step_mid excel false _ (IN_QUOTED_FIELD, [], fs) 34); [|reflexivity|].
    - rewrite excel_quoted_body_eof. rewrite app_nil_r, rev_involutive. reflexivity.
    - apply line_end_false_mid; [lia|]. destruct (csv_escape f); discriminate. }
  unfold rfc_field in *. destruct (q || rfc_needs_quote f) eqn:E; [exact Hquoted|].
  apply orb_false_iff in E. destruct E as [_ E].
  change (rfc_needs_quote f) with (existsb csv_special f) in E. apply not_special_plain in E.
  destruct f as [|c f]; [congruence|].
  rewrite excel_plain_eof; [|exact E|right; left; reflexivity|right; reflexivity].
  rewrite app_nil_r, rev_involutive. reflexivity.
Qed.

Lemma join_nil_inv sep (x : str) xs : join sep (x :: xs) = [] -> sep <> [] -> x = [] /\ xs = [].
Proof.
  cbn [join]. intros E Hs. apply app_eq_nil in E. destruct E as [E1 E2]. split; [exact E1|].
  destruct xs as [|y ys]; [reflexivity|]. cbn [flat_map] in E2. apply app_eq_nil in E2. destruct E2 as [E2 _].
  apply app_eq_nil in E2. tauto.
Qed.

Lemma excel_comma_eof s1 acc fs :
  after_field s1 ->
  csv_chars excel false (s1, acc, fs) [44] = ([rev fs ++ [rev acc; []]], None).
Proof.
  intros Hs. rewrite csv_chars_cons.
  assert (Hstep : step_char excel (s1, acc, fs) 44 = Ok (START_FIELD, [], frev acc :: fs)).
  { destruct Hs as [Hs|[Hs|Hs]]; subst s1; reflexivity. }
  rewrite Hstep. change (line_end false 44 []) with true. cbv iota.
  rewrite excel_record_done by (left; reflexivity). rewrite frev_rev. cbn [rev]. rewrite <- app_assoc. reflexivity.
Qed.

Lemma rfc_row_fields_eof fs qf qfl :
  (rfc_qfield qf <> [] \/ qfl <> []) ->
  csv_chars excel false (START_FIELD, [], fs) (join [44] (map rfc_qfield (qf :: qfl)))
  = ([rev fs ++ map snd (qf :: qfl)], None).
Proof.
  revert fs qf. induction qfl as [|g qfl IH]; intros fs [q f] Hne.
  - destruct Hne as [Hne|Hne]; [|congruence]. cbn [map]. rewrite join_single.
    unfold rfc_qfield in *. cbn [fst snd] in *. apply rfc_field_eof. exact Hne.
  - cbn [map]. cbn [map] in IH. rewrite join_cons. unfold rfc_qfield at 1. cbn [fst snd].
    destruct (rfc_read_field q f fs ([44] ++ join [44] (rfc_qfield g :: map rfc_qfield qfl)))
      as [s1 [acc [E [Hs Hacc]]]]; [discriminate|].
    rewrite E. cbn [app].
    destruct (join [44] (rfc_qfield g :: map rfc_qfield qfl)) as [|c t] eqn:Ej.
    + apply join_nil_inv in Ej; [|discriminate]. destruct Ej as [Eg Eq].
      apply map_eq_nil in Eq. subst qfl.
      rewrite excel_comma_eof by exact Hs. rewrite Hacc. cbn [map].
      destruct g as [qg fg]. unfold rfc_qfield in Eg. cbn [fst snd] in Eg |- *.
      pose proof (rfc_field_first qg fg) as Hg. rewrite Eg in Hg. destruct Hg as [Hg _]. subst fg. reflexivity.
    + rewrite excel_after_comma; [|exact Hs|discriminate]. rewrite <- Ej.
      rewrite IH.
      * rewrite frev_rev. cbn [rev]. rewrite Hacc, <- app_assoc. reflexivity.
      * destruct (rfc_qfield g) eqn:Eg; [|left; discriminate]. right.
        destruct qfl; [|discriminate]. cbn [map] in Ej. rewrite join_single in Ej. congruence.
Qed.

Lemma rfc_record_read_eof q fields :
  rfc_record_ok q fields ->
  csv_chars excel false pstate0 (rfc_record_text q fields) = ([fields], None).
Proof.
  intros Hok. destruct fields as [|f fl]; [destruct Hok; congruence|].
  (* the first character, through the text followed by a dummy rest *)
  destruct (rfc_record_first q f fl [0] Hok ltac:(discriminate)) as [c [t [Et [Hc1 [Hc2 Hc3]]]]].
  pose proof (rfc_choices_snd q (f :: fl)) as Hsnd.
  rewrite rfc_record_choices in *.
  destruct (rfc_choices_cons q f fl) as [qfl Hc]. rewrite Hc in *.
  destruct (join [44] (map rfc_qfield ((q 0%nat, f) :: qfl))) as [|c' t'] eqn:Ej.
  - (* empty text: a single empty unquoted field *)
    exfalso. apply join_nil_inv in Ej; [|discriminate]. destruct Ej as [E1 E2].
    apply map_eq_nil in E2. subst qfl. cbn [map snd] in Hsnd. injection Hsnd as Hfl. subst fl.
    unfold rfc_qfield in E1. cbn [fst snd] in E1. pose proof (rfc_field_first (q 0%nat) f) as Hf.
    rewrite E1 in Hf. destruct Hf as [Hf1 Hf2]. subst f.
    destruct Hok as [_ [Hq|Hq]]; [congruence|]. apply Hq. reflexivity.
  - cbn [app] in Et. injection Et as Ec Et'. subst c'.
    rewrite excel_start_record by assumption. rewrite <- Ej.
    rewrite rfc_row_fields_eof.
    + cbn [rev app]. f_equal. f_equal. exact Hsnd.
    + destruct (rfc_qfield (q 0%nat, f)) eqn:Ef; [|left; discriminate]. right.
      destruct qfl; [|discriminate]. cbn [map] in Ej. rewrite join_single in Ej. congruence.
Qed.

(* ------------------------------------------------------------------------------------------- *)
(** * all records *)

Lemma rfc_write_read q final recs : forall i,
  (forall k r, nth_error recs k = Some r -> rfc_record_ok (q (i + k)%nat) r) ->
  csv_chars excel false pstate0 (rfc_write q final i recs) = (recs, None).
Proof.
  induction recs as [|r recs IH]; intros i H; [reflexivity|].
  pose proof (H 0%nat r eq_refl) as Hr. rewrite Nat.add_0_r in Hr.
  cbn [rfc_write]. destruct recs as [|r' recs].
  - destruct final.
    + rewrite <- (app_nil_r [13; 10]). rewrite rfc_record_read by exact Hr. reflexivity.
    + rewrite app_nil_r. apply rfc_record_read_eof. exact Hr.
  - rewrite rfc_record_read by exact Hr. rewrite IH; [reflexivity|].
    intros k r0 Hk. replace (S i + k)%nat with (i + S k)%nat by lia. apply H. exact Hk.
Qed.

Lemma csv_mark_symbol as_int b : csv_mark as_int b = csv_symbol as_int b.
Proof. destruct as_int, b; reflexivity. Qed.

Lemma spec_csv_records as_int (rows : list (str * list bool)) :
  map (fun ob => fst ob :: map (csv_mark as_int) (snd ob)) rows = map (csv_record as_int) rows.
Proof.
  apply map_ext. intros ob. unfold csv_record. rewrite (map_ext _ _ (csv_mark_symbol as_int)). reflexivity.
Qed.

(** the records the library's reader finds in the text of the RFC writer *)
Lemma csv_read_spec_writer q final as_int header0 objs props bools :
  props <> [] -> Forall (fun r : list bool => r <> []) bools ->
  csv_read excel false (spec_write_csv_gen q final as_int header0 objs props bools)
  = ((header0 :: props) :: map (csv_record as_int) (combine objs bools), None).
Proof.
  intros Hp Hb. unfold csv_read, spec_write_csv_gen. rewrite rfc_write_read.
  - rewrite spec_csv_records. reflexivity.
  - intros k r Hk. split.
    + destruct k as [|k]; cbn [nth_error] in Hk; [injection Hk as <-; discriminate|].
      apply nth_error_In in Hk. apply in_map_iff in Hk. destruct Hk as [ob [E _]]. subst r. discriminate.
    + right. destruct k as [|k]; cbn [nth_error] in Hk.
      * injection Hk as <-. destruct props; [congruence|discriminate].
      * apply nth_error_In in Hk. apply in_map_iff in Hk. destruct Hk as [[o r'] [E Hin]]. subst r.
        cbn [fst snd]. apply in_combine_r in Hin. rewrite Forall_forall in Hb. specialize (Hb r' Hin).
        destruct r'; [congruence|discriminate].
Qed.

Lemma well_formed_rows_nonempty objs props bools :
  well_formed objs props bools -> props <> [] /\ Forall (fun r : list bool => r <> []) bools.
Proof.
  intros [_ [Hp [_ Hr]]]. split; [exact Hp|]. eapply Forall_impl; [|exact Hr]. cbv beta.
  intros r E. destruct r; [destruct props; [congruence|discriminate]|discriminate].
Qed.

(** the symbol set given: any labels, any first header field, any quoting choices, final CRLF or not *)
Theorem load_csv_spec_writer_gen q final as_int header0 objs props bools :
  props <> [] -> Forall (fun r : list bool => r <> []) bools -> length bools = length objs ->
  load_csv (Some as_int) (spec_write_csv_gen q final as_int header0 objs props bools) = Ok (objs, props, bools).
Proof.
  intros Hp Hb Hlen. unfold load_csv. rewrite csv_read_spec_writer by assumption. cbn [bind].
  rewrite csv_rows_records. rewrite map_fst_combine, map_snd_combine by (symmetry; exact Hlen || exact Hlen).
  reflexivity.
Qed.

(** the symbol set sniffed from the first data row *)
Theorem load_csv_spec_writer_gen_auto q final as_int header0 objs props bools :
  well_formed objs props bools ->
  load_csv None (spec_write_csv_gen q final as_int header0 objs props bools) = Ok (objs, props, bools).
Proof.
  intros Hwf. destruct (well_formed_rows_nonempty _ _ _ Hwf) as [Hp Hb].
  destruct Hwf as [Hobjs [Hprops [Hlen Hrows]]]. unfold load_csv. rewrite csv_read_spec_writer by assumption.
  destruct objs as [|o objs]; [congruence|]. destruct bools as [|r bools]; [discriminate|].
  cbn [combine map]. unfold csv_record at 1. cbn [fst snd].
  assert (Hdet : (if is_ok (map_res (csv_value false) (map (csv_symbol as_int) r)) then Ok false
                  else if is_ok (map_res (csv_value true) (map (csv_symbol as_int) r)) then Ok true
                  else Raise ValueError) = @Ok bool as_int).
  { destruct as_int.
    - rewrite (csv_values_symbols true). inversion Hrows as [|? ? Hr _]; subst.
      destruct r as [|b r]; [destruct props; [congruence|discriminate]|].
      cbn [map map_res]. destruct b; reflexivity.
    - rewrite (csv_values_symbols false). reflexivity. }
  rewrite Hdet. cbn [bind].
  pose proof (csv_rows_records as_int (combine (o :: objs) (r :: bools))) as Hrr.
  rewrite map_fst_combine, map_snd_combine in Hrr by (symmetry; exact Hlen || exact Hlen).
  cbn [combine] in Hrr.
  change (map (csv_record as_int) ((o, r) :: combine objs bools))
    with (csv_record as_int (o, r) :: map (csv_record as_int) (combine objs bools)) in Hrr.
  rewrite Hrr. reflexivity.
Qed.

Theorem load_csv_spec_writer quote_all as_int header0 objs props bools :
  well_formed objs props bools ->
  load_csv (Some as_int) (spec_write_csv quote_all as_int header0 objs props bools) = Ok (objs, props, bools)
  /\ load_csv None (spec_write_csv quote_all as_int header0 objs props bools) = Ok (objs, props, bools).
Proof.
  intros Hwf. unfold spec_write_csv. split.
  - destruct (well_formed_rows_nonempty _ _ _ Hwf) as [Hp Hb]. apply load_csv_spec_writer_gen; try assumption.
    destruct Hwf as [_ [_ [H _]]]. exact H.
  - apply load_csv_spec_writer_gen_auto. exact Hwf.
Qed.
