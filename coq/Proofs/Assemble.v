(** Glue lemmas for the final property files (Properties/C02 ... C20): small consequences of
    [lattice_ok] that recombine the results of Proofs/LatticeQueries.v, LatticeLabels.v,
    IterUnion.v, Keys.v into the exact shape of a property clause, plus a boolean
    well-formedness check for the concrete witnesses. *)
From Coq Require Import ZArith List Bool Lia ZifyBool Sorted Permutation Arith.
From Concepts Require Import Base.Res Base.PyInt Base.BitSet Spec.FCA Spec.Context Spec.LatticeSpec
  Model.Matrices Model.ContextApi Model.Members Model.Lattice Model.LatticeApi
  Proofs.Matrices Proofs.ContextApi Proofs.Closure Proofs.LatticeBasics Proofs.LatticeFirst
  Proofs.Keys Proofs.SortBy Proofs.Powerset Proofs.Neighbors Proofs.Lindig Proofs.BuildLattice
  Proofs.LatticeQueries Proofs.LatticeLabels Proofs.IterUnion.
Import ListNotations.
Open Scope Z_scope.

(** * witnesses: a computable well-formedness check *)

Definition wf_ctxb (c : ctx) : bool :=
  Nat.eqb (length (rows c)) (nG c) &&
  forallb (fun r => (0 <=? r) && (r <? 2 ^ Z.of_nat (nM c))) (rows c).

Lemma wf_ctxb_sound c : wf_ctxb c = true -> wf_ctx c.
Proof.
  unfold wf_ctxb, wf_ctx. intros H. apply andb_true_iff in H. destruct H as [Hl Hr].
  split; [apply Nat.eqb_eq; exact Hl|].
  apply Forall_forall. intros r Hin. rewrite forallb_forall in Hr. specialize (Hr r Hin).
  apply andb_true_iff in Hr. destruct Hr as [H0 H1].
  apply in_range_of_bound. split; [apply Z.leb_le; exact H0|apply Z.ltb_lt; exact H1].
Qed.

(** [exists L, build ... = Ok L /\ observation L = value] from one evaluation *)
Lemma witness_intro {A B} (r : res A) (f : A -> B) (v : B) :
  (do x <- r ;; Ok (f x)) = Ok v -> exists x, r = Ok x /\ f x = v.
Proof.
  intros H. apply bind_ok in H. destruct H as (a & Ha & Hf). exists a. split; [exact Ha|].
  inversion Hf. reflexivity.
Qed.

Lemma le_by_leb a b : Nat.leb a b = true -> (a <= b)%nat.
Proof. apply Nat.leb_le. Qed.

(** * C02: lattice[i], unknown labels *)

Lemma nth_concept_iff L i x : nth_concept L i = Ok x <-> concept_at L i x.
Proof.
  unfold nth_concept, concept_at. destruct (nth_error (l_concepts L) i) as [y|].
  - split; intros H; inversion H; reflexivity.
  - split; intros H; discriminate H.
Qed.

Lemma nth_concept_out_of_range L i : (length (l_concepts L) <= i)%nat -> nth_concept L i = Raise IndexError.
Proof.
  intros H. unfold nth_concept. apply nth_error_None in H. rewrite H. reflexivity.
Qed.

Definition object_items (n : nat) (items : list (nat + nat)) : Prop :=
  Forall (fun it => match it with inl g => (g < n)%nat | inr _ => False end) items.
Definition property_items (n : nat) (items : list (nat + nat)) : Prop :=
  Forall (fun it => match it with inr m => (m < n)%nat | inl _ => False end) items.

Lemma forallb_Forall_iff {A} (f : A -> bool) (P : A -> Prop) l :
  (forall x, f x = true <-> P x) -> (forallb f l = true <-> Forall P l).
Proof.
  intros H. rewrite forallb_forall, Forall_forall. split; intros Hx x Hin; apply H, Hx, Hin.
Qed.

Lemma getitem_raw_unknown fuel k items :
  ~ object_items (nG (mc k)) items -> ~ property_items (nM (mc k)) items ->
  getitem_raw fuel k items = Raise KeyError.
Proof.
  intros Ho Hp. unfold getitem_raw.
  destruct (forallb (fun it : nat + nat => match it with inl g => (g <? nG (mc k))%nat | inr _ => false end) items) eqn:E1.
  - exfalso. apply Ho. unfold object_items.
    eapply forallb_Forall_iff; [|exact E1].
    intros [g|m]; [apply Nat.ltb_lt|split; [discriminate|contradiction]].
  - destruct (forallb (fun it : nat + nat => match it with inr m => (m <? nM (mc k))%nat | inl _ => false end) items) eqn:E2.
    + exfalso. apply Hp. unfold property_items.
      eapply forallb_Forall_iff; [|exact E2].
      intros [g|m]; [split; [discriminate|contradiction]|apply Nat.ltb_lt].
    + reflexivity.
Qed.

Lemma lattice_getitem_unknown c L d items : lattice_ok c L ->
  items <> [] -> ~ object_items (nG c) items -> ~ property_items (nM c) items ->
  lattice_getitem d L items = Raise KeyError.
Proof.
  intros OK Hne Ho Hp. unfold lattice_getitem. destruct items as [|it items']; [contradiction Hne; reflexivity|].
  rewrite getitem_raw_unknown; [reflexivity| |]; rewrite (ok_ctx c L OK); cbn [mc relation_new]; assumption.
Qed.

(** * C03: exactly the concepts, once each *)

Section Members.
  Variables (c : ctx) (L : lattice).
  Hypothesis OK : lattice_ok c L.

  Lemma members_extents_NoDup : NoDup (map c_extent (l_concepts L)).
  Proof. rewrite <- (ok_exts c L OK). exact (ok_nodup c L OK). Qed.

  Lemma members_exactly_concepts A B :
    (exists i x, concept_at L i x /\ c_extent x = A /\ c_intent x = B) <-> is_concept c A B.
  Proof.
    split.
    - intros (i & x & Hx & HA & HB). subst A B. exact (concept_is_concept c L OK i x Hx).
    - intros HC. destruct (closed_has_concept c L OK A (Concepts.Spec.Context.concept_closed c A B HC)) as (i & x & Hx & HA).
      exists i, x. split; [exact Hx|]. split; [exact HA|].
      rewrite (ok_intent c L OK i x Hx), HA. destruct HC as (_ & _ & HC & _). exact HC.
  Qed.

  Lemma members_count :
    length (l_concepts L) = length (l_exts L) /\ l_exts L = map c_extent (l_concepts L) /\
    NoDup (l_exts L) /\ (forall A, In A (l_exts L) <-> closedO c A).
  Proof.
    split; [rewrite (ok_exts c L OK), map_length; reflexivity|].
    split; [exact (ok_exts c L OK)|]. split; [exact (ok_nodup c L OK)|exact (ok_complete c L OK)].
  Qed.

  Lemma members_extent_closed_iff A :
    (exists i x, concept_at L i x /\ c_extent x = A) <-> closedO c A.
  Proof.
    split.
    - intros (i & x & Hx & HA). subst A. exact (LatticeLabels.concept_closed c L OK i x Hx).
    - apply (closed_has_concept c L OK).
  Qed.

  Lemma NoDup_all_equal {X} (a : X) l : NoDup l -> (forall x, In x l -> x = a) -> (length l <= 1)%nat.
  Proof.
    intros Hnd Hall. destruct l as [|x [|y r]]; cbn; try lia.
    exfalso. inversion Hnd as [|? ? Hnotin _]; subst. apply Hnotin. left.
    rewrite (Hall x), (Hall y); [reflexivity|right; left; reflexivity|left; reflexivity].
  Qed.

  Lemma all_crosses_single d : (Nat.max (nG c) (nM c) <= d)%nat ->
    (forall g m, (g < nG c)%nat -> (m < nM c)%nat -> inc c g m = true) ->
    length (l_concepts L) = 1%nat.
  Proof.
    intros Hd Hall. pose proof (size_pos c L d OK Hd) as Hpos.
    destruct members_count as (Hlen & _ & Hnd & Hcl).
    assert (length (l_exts L) <= 1)%nat as Hle.
    { apply (NoDup_all_equal (ones (nG c))); [exact Hnd|].
      intros x Hin. apply (all_crosses_one_concept c Hall). apply Hcl. exact Hin. }
    lia.
  Qed.

  (** * C06: order of iteration, dindex, atoms *)

  Lemma position_lt_iff i x j y : concept_at L i x -> concept_at L j y ->
    ((i < j)%nat <-> key_lt (shortlex (nG c) (c_extent x)) (shortlex (nG c) (c_extent y))).
  Proof.
    intros Hx Hy. split; [apply (iteration_sorted_positions c L OK); assumption|].
    intros Hlt. destruct (Nat.lt_trichotomy i j) as [H|[H|H]]; [exact H| |].
    - subst j. assert (x = y) by (eapply LatticeLabels.concept_at_fun; eassumption). subst y.
      unfold key_lt in Hlt. rewrite key_ltb_irrefl in Hlt. discriminate.
    - pose proof (iteration_sorted_positions c L OK j y i x Hy Hx H) as Hgt.
      unfold key_lt in *. rewrite (key_ltb_asym _ _ Hgt) in Hlt. discriminate.
  Qed.

  Lemma position_order_meaning i x j y : concept_at L i x -> concept_at L j y ->
    ((i < j)%nat <->
     (count (c_extent x) < count (c_extent y))%nat \/
     (count (c_extent x) = count (c_extent y) /\ lexlt (c_extent x) (c_extent y))).
  Proof.
    intros Hx Hy. rewrite (position_lt_iff i x j y Hx Hy). unfold key_lt.
    apply shortlex_meaning; eapply LatticeLabels.concept_in_range; eassumption.
  Qed.

  Lemma dindex_order_meaning i x j y : concept_at L i x -> concept_at L j y ->
    ((c_dindex x < c_dindex y)%nat <->
     (count (c_extent y) < count (c_extent x))%nat \/
     (count (c_extent x) = count (c_extent y) /\ lexlt (c_extent x) (c_extent y))).
  Proof.
    intros Hx Hy. rewrite (ok_dindex c L OK i x j y Hx Hy). unfold key_lt.
    apply longlex_meaning; eapply LatticeLabels.concept_in_range; eassumption.
  Qed.

  Lemma dindex_injective i x j y : concept_at L i x -> concept_at L j y ->
    c_dindex x = c_dindex y -> i = j.
  Proof.
    intros Hx Hy He. apply (dindex_inj c L OK).
    - exact (LatticeQueries.concept_at_lt L i x Hx).
    - exact (LatticeQueries.concept_at_lt L j y Hy).
    - unfold dindex_at. rewrite (get_concept_at L i x Hx), (get_concept_at L j y Hy). exact He.
  Qed.

  Lemma atoms_are_covers_of_infimum x0 a : concept_at L 0 x0 ->
    (In a (c_upper x0) <-> exists y, concept_at L a y /\ covers c (clO c 0) (c_extent y)).
  Proof.
    intros H0. rewrite (ok_upper c L OK 0 x0 a H0).
    rewrite (LatticeLabels.infimum_first c L OK x0 H0). reflexivity.
  Qed.

  Lemma upper_valid i x j : concept_at L i x -> In j (c_upper x) -> exists y, concept_at L j y.
  Proof. intros Hx Hin. apply (ok_upper c L OK i x j Hx) in Hin. destruct Hin as (y & Hy & _). exists y; exact Hy. Qed.
  Lemma lower_valid i x j : concept_at L i x -> In j (c_lower x) -> exists y, concept_at L j y.
  Proof. intros Hx Hin. apply (ok_lower c L OK i x j Hx) in Hin. destruct Hin as (y & Hy & _). exists y; exact Hy. Qed.

  (** neighbour tuples: shortlex order of the members = increasing index,
      longlex order of the members = increasing dindex *)
  Lemma upper_sorted_by_index i x : concept_at L i x -> StronglySorted lt (c_upper x).
  Proof.
    intros Hx. eapply SortBy.StronglySorted_impl; [|exact (ok_upper_sorted c L OK i x Hx)].
    intros a b Ha Hb Hlt. cbv beta in Hlt.
    destruct (upper_valid i x a Hx Ha) as (ya & Hya). destruct (upper_valid i x b Hx Hb) as (yb & Hyb).
    rewrite (concept_at_nth_extent c L OK a ya Hya), (concept_at_nth_extent c L OK b yb Hyb) in Hlt.
    apply (position_lt_iff a ya b yb Hya Hyb). exact Hlt.
  Qed.

  Lemma lower_sorted_by_dindex i x : concept_at L i x ->
    StronglySorted (fun a b => (c_dindex (get_concept L a) < c_dindex (get_concept L b))%nat) (c_lower x).
  Proof.
    intros Hx. eapply SortBy.StronglySorted_impl; [|exact (ok_lower_sorted c L OK i x Hx)].
    intros a b Ha Hb Hlt. cbv beta in Hlt.
    destruct (lower_valid i x a Hx Ha) as (ya & Hya). destruct (lower_valid i x b Hx Hb) as (yb & Hyb).
    rewrite (concept_at_nth_extent c L OK a ya Hya), (concept_at_nth_extent c L OK b yb Hyb) in Hlt.
    rewrite (get_concept_at L a ya Hya), (get_concept_at L b yb Hyb).
    apply (ok_dindex c L OK a ya b yb Hya Hyb). exact Hlt.
  Qed.

  (** * C07: the binary join / meet: extent and bound properties of the same result *)

  Lemma concept_join_lub_ext d : wf_ctx c -> (Nat.max (nG c) (nM c) <= d)%nat -> forall i j,
    exists k, concept_join d L i j = Ok k /\ (k < length (l_concepts L))%nat
      /\ nth_extent (l_exts L) k = clO c (Z.lor (nth_extent (l_exts L) i) (nth_extent (l_exts L) j))
      /\ subset (nth_extent (l_exts L) i) (nth_extent (l_exts L) k)
      /\ subset (nth_extent (l_exts L) j) (nth_extent (l_exts L) k)
      /\ forall u, (u < length (l_concepts L))%nat ->
           subset (nth_extent (l_exts L) i) (nth_extent (l_exts L) u) ->
           subset (nth_extent (l_exts L) j) (nth_extent (l_exts L) u) ->
           subset (nth_extent (l_exts L) k) (nth_extent (l_exts L) u).
  Proof.
    intros Hwf Hd i j.
    destruct (concept_join_lub c L d OK Hwf Hd i j) as (k & Hk & Hlt & H1 & H2 & H3).
    destruct (concept_join_ok c L d OK Hwf Hd i j) as (k' & Hk' & _ & He).
    rewrite Hk in Hk'. inversion Hk'; subst k'.
    exists k. repeat split; assumption.
  Qed.

  Lemma concept_meet_glb_ext d : wf_ctx c -> (Nat.max (nG c) (nM c) <= d)%nat -> forall i j,
    (i < length (l_concepts L))%nat -> (j < length (l_concepts L))%nat ->
    exists k, concept_meet d L i j = Ok k /\ (k < length (l_concepts L))%nat
      /\ nth_extent (l_exts L) k = Z.land (nth_extent (l_exts L) i) (nth_extent (l_exts L) j)
      /\ subset (nth_extent (l_exts L) k) (nth_extent (l_exts L) i)
      /\ subset (nth_extent (l_exts L) k) (nth_extent (l_exts L) j)
      /\ forall l, subset (nth_extent (l_exts L) l) (nth_extent (l_exts L) i) ->
           subset (nth_extent (l_exts L) l) (nth_extent (l_exts L) j) ->
           subset (nth_extent (l_exts L) l) (nth_extent (l_exts L) k).
  Proof.
    intros Hwf Hd i j Hi Hj.
    destruct (concept_meet_glb c L d OK Hwf Hd i j Hi Hj) as (k & Hk & Hlt & H1 & H2 & H3).
    destruct (concept_meet_ok c L d OK Hwf Hd i j Hi Hj) as (k' & Hk' & _ & He).
    rewrite Hk in Hk'. inversion Hk'; subst k'.
    exists k. repeat split; assumption.
  Qed.

  (** * C09: the upset as a set, sorted *)

  Lemma upset_meaning fuel i x : concept_at L i x -> (1 + edges_up L <= fuel)%nat ->
    exists out, upset fuel L i = Ok out /\ StronglySorted lt out /\ NoDup out /\
      forall j, In j out <->
        (j < length (l_concepts L))%nat /\ subset (c_extent x) (nth_extent (l_exts L) j).
  Proof.
    intros Hx Hf. eexists. split; [exact (upset_spec c L OK fuel i x Hx Hf)|].
    split; [apply filter_seq_sorted|].
    split; [apply NoDup_filter, seq_NoDup|].
    intros j. rewrite filter_In, in_seq.
    assert (0 <= c_extent x) as Hnn by (destruct (LatticeLabels.concept_in_range c L OK i x Hx) as [H _]; exact H).
    rewrite (subsetb_spec _ _ Hnn). split; intros [H1 H2]; (split; [lia|exact H2]).
  Qed.

  (** * C18: each generating set once, as a list of names *)

  Lemma attributes_NoDup d i x l : (Nat.max (nG c) (nM c) <= d)%nat -> concept_at L i x ->
    attributes d L i = Ok l -> NoDup l.
  Proof.
    intros Hd Hx Hl. rewrite (attributes_generators c L OK d Hd i x Hx) in Hl. inversion Hl; subst l.
    apply SortBy.NoDup_map_inj_in; [|exact (proj2 (generators_sorted c L OK i x Hx))].
    intros a b Ha Hb He.
    destruct (generators_sound c L OK i x a Hx Ha) as (Ra & _).
    destruct (generators_sound c L OK i x b Hx Hb) as (Rb & _).
    exact (indexes_inj (nM c) a b Ra Rb He).
  Qed.

  (** * C20: one node per concept, named by its position *)

  Lemma map_index_seq {X} (f : X -> nat) (l : list X) : forall s,
    (forall i x, nth_error l i = Some x -> f x = (s + i)%nat) -> map f l = seq s (length l).
  Proof.
    induction l as [|a l IH]; intros s H; [reflexivity|].
    cbn [map length seq]. f_equal.
    - rewrite (H O a eq_refl). lia.
    - apply IH. intros i x Hi. rewrite (H (S i) x Hi). lia.
  Qed.

  Lemma dot_nodes_seq :
    filter is_node (dot_body L) = map DNode (seq 0 (length (l_concepts L))).
  Proof.
    rewrite dot_nodes. rewrite <- (map_index_seq c_index (l_concepts L) 0).
    - rewrite map_map. reflexivity.
    - intros i x Hi. exact (ok_index c L OK i x Hi).
  Qed.
End Members.
