(** The line-by-line models of the [bitsets] package (Model/Bitsets.v) compute the
    mathematical definitions the main model uses. *)
From Coq Require Import ZArith List Bool Lia ZifyBool Arith Ascii Sorted Permutation.
From Concepts Require Import Base.Res Base.PyInt Base.BitSet Spec.FCA Spec.Context
  Model.Matrices Model.ContextApi Model.Members Model.Lattice Model.LatticeApi Model.Bitsets
  Proofs.Matrices Proofs.ContextApi Proofs.Neighbors Proofs.Keys Proofs.Powerset Proofs.Persist.
Import ListNotations.
Open Scope Z_scope.

(** * 0. generic facts *)

Lemma mem_ext_all a b : (forall i, mem a i = mem b i) -> a = b.
Proof.
  intros H. apply Z.bits_inj'. intros n Hn.
  specialize (H (Z.to_nat n)). unfold mem in H. rewrite Z2Nat.id in H by lia. exact H.
Qed.

Lemma of_pred_ext n p q : (forall i, (i < n)%nat -> p i = q i) -> of_pred n p = of_pred n q.
Proof.
  intros H. apply (bitset_ext n); try apply in_range_of_pred.
  intros i Hi. rewrite !mem_of_pred, (H i Hi). reflexivity.
Qed.

Lemma in_range_0_eq s : in_range 0 s -> s = 0.
Proof. intros [H0 Hr]. apply zero_iff_empty; [exact H0|]. intros i. apply Hr. lia. Qed.

Lemma truthy_land_1 n : truthy (Z.land n 1) = mem n 0.
Proof. change 1 with (bit 0). apply truthy_land_bit. Qed.

Lemma py_atoms_bit n : py_atoms n = map bit (seq 0 n).
Proof. reflexivity. Qed.

Lemma py_supremum_ones n : py_supremum n = ones n.
Proof. reflexivity. Qed.

Lemma py_sum_fold l : forall a, fold_left Z.add l a = a + fold_left Z.add l 0.
Proof.
  induction l as [|x l IH]; intros a; cbn [fold_left]; [lia|].
  rewrite (IH (a + x)), (IH (0 + x)). lia.
Qed.

Lemma py_sum_map_bit l : py_sum (map bit l) = sum_list l.
Proof.
  unfold py_sum. induction l as [|x l IH]; cbn [map fold_left sum_list]; [reflexivity|].
  rewrite py_sum_fold, IH. lia.
Qed.

Lemma of_list_same_elements l l' : (forall x, In x l <-> In x l') -> of_list l = of_list l'.
Proof.
  intros H. apply bitset_ext_nonneg; try apply of_list_nonneg.
  intros i. destruct (mem (of_list l) i) eqn:E1, (mem (of_list l') i) eqn:E2; try reflexivity.
  - apply mem_of_list_In, H, mem_of_list_In in E1. congruence.
  - apply mem_of_list_In, H, mem_of_list_In in E2. congruence.
Qed.

Lemma of_list_filter_seq n p : of_list (filter p (seq 0 n)) = of_pred n p.
Proof.
  apply (bitset_ext n); [apply in_range_of_list|apply in_range_of_pred|].
  - apply Forall_forall. intros i Hi. apply filter_In in Hi. destruct Hi as [Hi _]. apply in_seq in Hi. lia.
  - intros i Hi. rewrite mem_of_pred.
    destruct (Nat.ltb_spec i n) as [_|]; [|lia]. cbn [andb].
    destruct (p i) eqn:Hp.
    + apply mem_of_list_In, filter_In. split; [apply in_seq; lia|exact Hp].
    + destruct (mem (of_list (filter p (seq 0 n))) i) eqn:E; [|reflexivity].
      apply mem_of_list_In, filter_In in E. destruct E; congruence.
Qed.

(** * 1. frommembers *)

Lemma find_map_pair (f : nat -> Z) k l :
  find (fun kv : nat * Z => Nat.eqb (fst kv) k) (map (fun i => (i, f i)) l) =
  if existsb (Nat.eqb k) l then Some (k, f k) else None.
Proof.
  induction l as [|x l IH]; cbn [map find existsb fst]; [reflexivity|].
  rewrite (Nat.eqb_sym k x). destruct (Nat.eqb_spec x k) as [->|Hne]; cbn [orb]; [reflexivity|exact IH].
Qed.

Lemma combine_seq_map {B} (f : nat -> B) l : combine l (map f l) = map (fun i => (i, f i)) l.
Proof. induction l as [|x l IH]; cbn [map combine]; [reflexivity|]. rewrite IH. reflexivity. Qed.

(** [cls._map[m]] is the atom of [m], or KeyError *)
Lemma py_map_getitem n m :
  dict_getitem (py_map n) m = if (m <? n)%nat then Ok (bit m) else Raise KeyError.
Proof.
  unfold dict_getitem, py_map, py_dict. rewrite py_atoms_bit, combine_seq_map, <- map_rev, find_map_pair.
  destruct (Nat.ltb_spec m n) as [Hlt|Hge].
  - assert (E : existsb (Nat.eqb m) (rev (seq 0 n)) = true).
    { apply existsb_exists. exists m. split; [|apply Nat.eqb_refl]. rewrite <- in_rev.
      apply in_seq. lia. }
    rewrite E. reflexivity.
  - destruct (existsb (Nat.eqb m) (rev (seq 0 n))) eqn:E; [|reflexivity].
    apply existsb_exists in E. destruct E as [x [Hx Hxm]]. apply Nat.eqb_eq in Hxm. subst x.
    rewrite <- in_rev in Hx. apply in_seq in Hx. lia.
Qed.

Lemma py_frommembers_fold_ok n s : Forall (fun i => (i < n)%nat) s -> forall acc,
  for_fold (fun acc m => do a <- dict_getitem (py_map n) m ;; Ok (acc + a)) s acc = Ok (acc + sum_list s).
Proof.
  induction 1 as [|x s Hx Hs IH]; intros acc; cbn [for_fold sum_list]; [f_equal; lia|].
  rewrite py_map_getitem. destruct (Nat.ltb_spec x n) as [_|]; [|lia]. cbn [bind].
  rewrite IH. f_equal. lia.
Qed.

Lemma py_frommembers_fold_raise n s : ~ Forall (fun i => (i < n)%nat) s -> forall acc,
  for_fold (fun acc m => do a <- dict_getitem (py_map n) m ;; Ok (acc + a)) s acc = Raise KeyError.
Proof.
  induction s as [|x s IH]; intros Hn acc; [exfalso; apply Hn; constructor|].
  cbn [for_fold]. rewrite py_map_getitem. destruct (Nat.ltb_spec x n) as [Hlt|Hge]; cbn [bind]; [|reflexivity].
  apply IH. intros HF. apply Hn. constructor; assumption.
Qed.

(** the sum of the atoms of the distinct members, in any iteration order of the set, is the
    bitwise or of the atoms of the members *)
Theorem py_frommembers_spec n members s :
  is_set_of s members -> Forall (fun i => (i < n)%nat) members ->
  py_frommembers n s = Ok (of_list members).
Proof.
  intros [Hnd Hsame] HF. unfold py_frommembers.
  rewrite py_frommembers_fold_ok.
  - rewrite Z.add_0_l, (sum_list_of_list s Hnd). f_equal. apply of_list_same_elements, Hsame.
  - apply Forall_forall. intros x Hx. rewrite Forall_forall in HF. apply HF, Hsame, Hx.
Qed.

(** the plain sum, without the dictionary (the formulation of the task) *)
Corollary py_frommembers_sum members s :
  is_set_of s members -> fold_left Z.add (map bit s) 0 = of_list members.
Proof.
  intros [Hnd Hsame]. fold (py_sum (map bit s)). rewrite py_sum_map_bit, (sum_list_of_list s Hnd).
  apply of_list_same_elements, Hsame.
Qed.

Theorem py_frommembers_unknown n members s :
  is_set_of s members -> ~ Forall (fun i => (i < n)%nat) members ->
  py_frommembers n s = Raise KeyError.
Proof.
  intros [Hnd Hsame] HF. unfold py_frommembers. apply py_frommembers_fold_raise.
  intros H. apply HF. apply Forall_forall. intros x Hx. rewrite Forall_forall in H. apply H, Hsame, Hx.
Qed.

(** agreement with the model function, in both cases *)
Theorem py_frommembers_model n members s :
  is_set_of s members -> py_frommembers n s = frommembers n members.
Proof.
  intros Hs. destruct (Forall_dec (fun i => (i < n)%nat) (fun i => lt_dec i n) members) as [HF|HF].
  - rewrite (frommembers_ok _ _ HF). apply py_frommembers_spec; assumption.
  - rewrite (frommembers_unknown _ _ HF). apply py_frommembers_unknown with (members := members); assumption.
Qed.

(** every list has a set order: the hypothesis [is_set_of] is satisfiable *)
Lemma is_set_of_nodup members : is_set_of (nodup Nat.eq_dec members) members.
Proof. split; [apply NoDup_nodup|]. intros x. apply nodup_In. Qed.

(** * 2. frombools / bools *)

Lemma it_compress_atoms n : forall a bools,
  it_compress (map bit (seq a n)) bools =
  map bit (filter (fun i => nth (i - a) bools false) (seq a n)).
Proof.
  induction n as [|n IH]; intros a bools; [reflexivity|].
  cbn [seq map]. destruct bools as [|b bools].
  - cbn [it_compress]. symmetry.
    rewrite (filter_nil _ (a :: seq (S a) n)); [reflexivity|].
    intros x _. destruct (x - a)%nat; reflexivity.
  - cbn [it_compress filter]. rewrite Nat.sub_diag.
    assert (E : filter (fun i => nth (i - a) (b :: bools) false) (seq (S a) n) =
                filter (fun i => nth (i - S a) bools false) (seq (S a) n)).
    { apply filter_ext_in. intros i Hi. apply in_seq in Hi.
      replace (i - a)%nat with (S (i - S a)) by lia. reflexivity. }
    rewrite E, IH. destruct b; reflexivity.
Qed.

Theorem py_frombools_spec n bools :
  py_frombools n bools = of_pred n (fun i => nth i bools false).
Proof.
  unfold py_frombools. rewrite py_atoms_bit, it_compress_atoms, py_sum_map_bit.
  rewrite sum_list_of_list by (apply NoDup_filter, seq_NoDup).
  rewrite <- of_list_filter_seq. f_equal. apply filter_ext. intros i. rewrite Nat.sub_0_r. reflexivity.
Qed.

Lemma in_range_py_frombools n bools : in_range n (py_frombools n bools).
Proof. rewrite py_frombools_spec. apply in_range_of_pred. Qed.

Lemma mem_py_frombools n bools i : mem (py_frombools n bools) i = ((i <? n)%nat && nth i bools false).
Proof. rewrite py_frombools_spec. apply mem_of_pred. Qed.

Theorem py_bools_spec n v : py_bools n v = map (mem v) (seq 0 n).
Proof.
  unfold py_bools. rewrite py_atoms_bit, map_map. apply map_ext. intros i.
  rewrite negb_involutive. apply truthy_land_bit.
Qed.

Theorem py_bools_bools_of n v : py_bools n v = ContextApi.bools_of n v.
Proof.
  rewrite py_bools_spec. unfold ContextApi.bools_of. apply map_ext. intros i.
  symmetry. apply truthy_land_bit.
Qed.

Lemma py_bools_length n v : length (py_bools n v) = n.
Proof. rewrite py_bools_spec, map_length, seq_length. reflexivity. Qed.

Lemma nth_py_bools n v i : nth i (py_bools n v) false = ((i <? n)%nat && mem v i).
Proof.
  rewrite py_bools_spec. destruct (Nat.ltb_spec i n) as [Hlt|Hge]; cbn [andb].
  - apply nth_map_seq. exact Hlt.
  - apply nth_overflow. rewrite map_length, seq_length. exact Hge.
Qed.

(** round trip *)
Theorem py_frombools_bools n v : in_range n v -> py_frombools n (py_bools n v) = v.
Proof.
  intros Hv. apply (bitset_ext n); [apply in_range_py_frombools|exact Hv|].
  intros i Hi. rewrite mem_py_frombools, nth_py_bools.
  destruct (Nat.ltb_spec i n); [reflexivity|lia].
Qed.

(** * 3. Relation.__new__: the column vectors *)

Lemma heads_tails_S {A} (d : A) k ls : Forall (fun l => length l = S k) ls ->
  heads_tails ls = Some (map (fun l => nth 0 l d) ls, map (@tl A) ls).
Proof.
  induction 1 as [|l ls Hl Hls IH]; [reflexivity|].
  destruct l as [|h t]; [discriminate|]. cbn [heads_tails map nth tl]. rewrite IH. reflexivity.
Qed.

(** [zip( *ls)] of lists of the same length [k] is the transposition *)
Lemma zip_star_rounds_transpose {A} (d : A) k : forall ls, Forall (fun l => length l = k) ls ->
  zip_star_rounds k ls = map (fun m => map (fun l => nth m l d) ls) (seq 0 k).
Proof.
  induction k as [|k IH]; intros ls Hls; [reflexivity|].
  cbn [zip_star_rounds]. rewrite (heads_tails_S d k ls Hls).
  cbn [seq map]. f_equal. rewrite IH.
  - rewrite <- seq_shift, map_map. apply map_ext. intros m. rewrite map_map. apply map_ext.
    intros l. destruct l; [destruct m; reflexivity|reflexivity].
  - apply Forall_forall. intros t Ht. apply in_map_iff in Ht. destruct Ht as [l [<- Hl]].
    rewrite Forall_forall in Hls. specialize (Hls l Hl). destruct l; [discriminate|]. cbn in *. lia.
Qed.

Theorem py_zip_star_transpose {A} (d : A) k ls : ls <> [] -> Forall (fun l => length l = k) ls ->
  py_zip_star ls = map (fun m => map (fun l => nth m l d) ls) (seq 0 k).
Proof.
  intros Hne Hls. destruct ls as [|l0 ls']; [congruence|]. unfold py_zip_star.
  assert (E : length l0 = k) by (inversion Hls; assumption). rewrite E.
  apply zip_star_rounds_transpose. exact Hls.
Qed.

(** no row: [zip()] yields nothing *)
Lemma py_zip_star_nil {A} : py_zip_star (@nil (list A)) = [].
Proof. reflexivity. Qed.

Lemma nth_rows_map {B} (f : Z -> B) (d : B) l g : (g < length l)%nat -> nth g (map f l) d = f (nth g l 0).
Proof. intros H. rewrite (nth_indep _ d (f 0)) by (rewrite map_length; exact H). apply map_nth. Qed.

Theorem py_relation_cols_spec c : wf_ctx c -> (1 <= nG c)%nat ->
  py_relation_cols (nM c) (nG c) (rows c) = cols c.
Proof.
  intros [Hlen Hrows] HG. unfold py_relation_cols, py_series_frombools, py_series_bools.
  rewrite (py_zip_star_transpose false (nM c)).
  - unfold cols. rewrite map_map. apply map_ext_in. intros m Hm. apply in_seq in Hm.
    rewrite py_frombools_spec. unfold col. apply of_pred_ext. intros g Hg.
    rewrite map_map. rewrite (nth_indep _ false (nth m (py_bools (nM c) 0) false))
      by (rewrite map_length; lia).
    rewrite (map_nth (fun v => nth m (py_bools (nM c) v) false)).
    rewrite nth_py_bools. destruct (Nat.ltb_spec m (nM c)); [|lia]. reflexivity.
  - destruct (rows c); [cbn in Hlen; lia|discriminate].
  - apply Forall_forall. intros l Hl. apply in_map_iff in Hl. destruct Hl as [v [<- _]]. apply py_bools_length.
Qed.

(** with no object, [zip] yields no column at all (the mathematical [cols] has [nM] empty
    columns); [Context.__init__] rejects empty objects and [bitsets.bitset] itself raises
    ValueError('less than one bitset member') for an empty domain, so the case does not arise *)
Theorem py_relation_cols_noobject nX : py_relation_cols nX 0 [] = [].
Proof. reflexivity. Qed.

(** the whole constructor, from the boolean table: [nG] rows of length [nM] *)
Theorem py_relation_new_spec nG0 nM0 xbools :
  length xbools = nG0 -> (1 <= nG0)%nat -> Forall (fun b => length b = nM0) xbools ->
  let c := mkCtx nG0 nM0 (map (fun b => of_pred nM0 (fun i => nth i b false)) xbools) in
  wf_ctx c /\ py_relation_new nM0 nG0 xbools = (rows c, cols c).
Proof.
  intros Hlen HG Hb c.
  assert (Hwf : wf_ctx c).
  { split; [cbn; rewrite map_length; exact Hlen|]. cbn. apply Forall_forall. intros v Hv.
    apply in_map_iff in Hv. destruct Hv as [b [<- _]]. apply in_range_of_pred. }
  split; [exact Hwf|]. unfold py_relation_new.
  assert (E : py_series_frombools nM0 xbools = rows c).
  { unfold py_series_frombools. cbn [rows c]. apply map_ext. intros b. apply py_frombools_spec. }
  rewrite E. f_equal. exact (py_relation_cols_spec c Hwf HG).
Qed.

(** starting from the row vectors of a context: [frombools(bools(row)) = row] *)
Theorem py_relation_new_rows c : wf_ctx c -> (1 <= nG c)%nat ->
  py_relation_new (nM c) (nG c) (map (ContextApi.bools_of (nM c)) (rows c)) = (rows c, cols c).
Proof.
  intros Hwf HG. unfold py_relation_new.
  assert (E : py_series_frombools (nM c) (map (ContextApi.bools_of (nM c)) (rows c)) = rows c).
  { unfold py_series_frombools. rewrite map_map. rewrite <- (map_id (rows c)) at 2.
    apply map_ext_in. intros v Hv. rewrite <- py_bools_bools_of. apply py_frombools_bools.
    destruct Hwf as [_ HF]. rewrite Forall_forall in HF. apply HF, Hv. }
  rewrite E. f_equal. apply py_relation_cols_spec; assumption.
Qed.

(** * 4. integers.reinverted *)

(** the value of the loop variable [r] when [p] positions remain *)
Definition rr_of (p : nat) : Z := match p with O => 0 | S p' => bit p' end.

Lemma shiftr_bit_S p : Z.shiftr (bit (S p)) 1 = bit p.
Proof.
  unfold bit. rewrite Z.shiftr_shiftl_l by lia. f_equal. lia.
Qed.

Lemma shiftr_rr_of p : Z.shiftr (rr_of (S p)) 1 = rr_of p.
Proof. destruct p as [|p]; [reflexivity|]. apply shiftr_bit_S. Qed.

Lemma shiftl_bit_1 p : Z.shiftl (bit p) 1 = bit (S p).
Proof. unfold bit. rewrite Z.shiftl_shiftl by lia. f_equal. lia. Qed.

Lemma in_range_shiftr1 p n : in_range (S p) n -> in_range p (Z.shiftr n 1).
Proof.
  intros [H0 Hr]. split; [apply Z.shiftr_nonneg; exact H0|].
  intros i Hi. change 1 with (Z.of_nat 1). rewrite mem_shiftr. apply Hr. lia.
Qed.

Lemma mem_shiftr1 n i : mem (Z.shiftr n 1) i = mem n (S i).
Proof. change 1 with (Z.of_nat 1). rewrite mem_shiftr. f_equal. lia. Qed.

Definition reinv_cond (st : Z * Z * Z) : bool := let '(n, r, result) := st in truthy n.
Definition reinv_body (st : Z * Z * Z) : res (Z * Z * Z) :=
  let '(n, r, result) := st in
  let result := if negb (truthy (Z.land n 1)) then Z.lor result r else result in
  Ok (Z.shiftr n 1, Z.shiftr r 1, result).
Definition reinv_post (st : Z * Z * Z) : res Z :=
  let '(_, r, result) := st in
  Ok (if truthy r then Z.lor result (Z.shiftl r 1 - 1) else result).

Lemma reinverted_0 p : reinverted p 0 = ones p.
Proof.
  apply (bitset_ext p); [apply in_range_of_pred|apply in_range_ones|].
  intros i Hi. unfold reinverted. rewrite mem_of_pred, mem_ones, mem_0. rewrite andb_true_r. reflexivity.
Qed.

Lemma reinverted_step p n result :
  Z.lor (if negb (truthy (Z.land n 1)) then Z.lor result (bit p) else result)
        (reinverted p (Z.shiftr n 1)) =
  Z.lor result (reinverted (S p) n).
Proof.
  apply mem_ext_all. intros i. rewrite truthy_land_1.
  assert (E : mem (reinverted p (Z.shiftr n 1)) i = ((i <? p)%nat && negb (mem n (S p - 1 - i)))).
  { unfold reinverted. rewrite mem_of_pred, mem_shiftr1.
    destruct (Nat.ltb_spec i p) as [Hlt|]; [|reflexivity]. cbn [andb].
    replace (S (p - 1 - i)) with (S p - 1 - i)%nat by lia. reflexivity. }
  assert (E2 : mem (reinverted (S p) n) i = ((i <? S p)%nat && negb (mem n (S p - 1 - i)))).
  { unfold reinverted. rewrite mem_of_pred. reflexivity. }
  rewrite !mem_lor, E, E2. clear E E2.
  destruct (Nat.lt_trichotomy i p) as [Hlt|[->|Hgt]].
  - destruct (Nat.ltb_spec i p); [|lia]. destruct (Nat.ltb_spec i (S p)); [|lia].
    destruct (mem n 0); cbn [negb]; rewrite ?mem_lor, ?mem_bit;
      destruct (Nat.eqb_spec p i); try lia;
      destruct (mem result i), (mem n (S p - 1 - i)); reflexivity.
  - destruct (Nat.ltb_spec p p); [lia|]. destruct (Nat.ltb_spec p (S p)); [|lia].
    replace (S p - 1 - p)%nat with O by lia.
    destruct (mem n 0); cbn [negb]; rewrite ?mem_lor, ?mem_bit, ?Nat.eqb_refl;
      destruct (mem result p); reflexivity.
  - destruct (Nat.ltb_spec i p); [lia|]. destruct (Nat.ltb_spec i (S p)); [lia|].
    destruct (mem n 0); cbn [negb]; rewrite ?mem_lor, ?mem_bit;
      destruct (Nat.eqb_spec p i); try lia;
      destruct (mem result i); reflexivity.
Qed.

Lemma reinverted_loop p : forall fuel n result, in_range p n -> (p <= fuel)%nat ->
  bind (while_fuel fuel reinv_cond reinv_body (n, rr_of p, result)) reinv_post =
  Ok (Z.lor result (reinverted p n)).
Proof.
  induction p as [|p IH]; intros fuel n result Hn Hfuel.
  - apply in_range_0_eq in Hn. subst n.
    destruct fuel; cbn [while_fuel reinv_cond]; change (truthy 0) with false; cbn [bind reinv_post rr_of];
      change (truthy 0) with false; cbv iota; unfold reinverted, of_pred; cbn [of_pred_from];
      rewrite Z.lor_0_r; reflexivity.
  - destruct (Z.eq_dec n 0) as [->|Hne].
    + assert (T : truthy (bit p) = true).
      { apply truthy_true_iff. unfold bit. rewrite Z.shiftl_1_l.
        assert (0 < 2 ^ Z.of_nat p) by (apply Z.pow_pos_nonneg; lia). lia. }
      destruct fuel; cbn [while_fuel reinv_cond]; change (truthy 0) with false; cbn [bind reinv_post rr_of];
        rewrite T, shiftl_bit_1, reinverted_0; reflexivity.
    + destruct fuel as [|fuel]; [lia|].
      assert (T : truthy n = true) by (apply truthy_true_iff; exact Hne).
      cbn [while_fuel reinv_cond]. rewrite T. cbn [reinv_body bind].
      rewrite shiftr_rr_of. rewrite IH by (try apply in_range_shiftr1; try exact Hn; lia).
      f_equal. cbn [rr_of]. apply reinverted_step.
Qed.

Lemma py_reinverted_unfold fuel n r :
  py_reinverted fuel n r =
  do r1 <- py_lshift 1 (r - 1) ;; bind (while_fuel fuel reinv_cond reinv_body (n, r1, 0)) reinv_post.
Proof. reflexivity. Qed.

Theorem py_reinverted_spec fuel r n :
  (1 <= r)%nat -> in_range r n -> (r <= fuel)%nat ->
  py_reinverted fuel n (Z.of_nat r) = Ok (reinverted r n).
Proof.
  intros Hr Hn Hfuel. rewrite py_reinverted_unfold. unfold py_lshift.
  destruct (Z.ltb_spec (Z.of_nat r - 1) 0) as [|_]; [lia|]. cbn [bind].
  destruct r as [|p]; [lia|].
  replace (Z.of_nat (S p) - 1) with (Z.of_nat p) by lia.
  change (Z.shiftl 1 (Z.of_nat p)) with (rr_of (S p)).
  rewrite reinverted_loop by assumption. rewrite Z.lor_0_l. reflexivity.
Qed.

(** [r = 0] (an empty domain) or a negative [r]: [1 << (r - 1)] raises ValueError, whereas
    the mathematical [reinverted 0 n] is [0]; [bitsets.bitset] refuses an empty domain
    (ValueError 'less than one bitset member'), so every bitset class has [_len >= 1] *)
Theorem py_reinverted_r0 fuel n r : r <= 0 -> py_reinverted fuel n r = Raise ValueError.
Proof.
  intros Hr. rewrite py_reinverted_unfold. unfold py_lshift.
  destruct (Z.ltb_spec (r - 1) 0) as [_|]; [reflexivity|lia].
Qed.

Lemma reinverted_0_r n : reinverted 0 n = 0.
Proof. reflexivity. Qed.

(** * 5. count and indexes *)

Lemma str_count_app c s t : str_count c (s ++ t) = (str_count c s + str_count c t)%nat.
Proof. unfold str_count. rewrite filter_app, app_length. reflexivity. Qed.

Lemma str_count_rev c s : str_count c (rev s) = str_count c s.
Proof.
  induction s as [|x s IH]; [reflexivity|].
  cbn [rev]. rewrite str_count_app, IH. unfold str_count. cbn [filter].
  destruct (Ascii.eqb c x); cbn [length]; lia.
Qed.

Lemma str_count_1_pos p : str_count "1"%char (pos_bin_lsb p) = pos_count p.
Proof.
  induction p as [q IH|q IH|]; cbn [pos_bin_lsb pos_count]; try reflexivity.
  - change (str_count "1" ("1"%char :: pos_bin_lsb q)) with (S (str_count "1" (pos_bin_lsb q))).
    rewrite IH. reflexivity.
  - change (str_count "1" ("0"%char :: pos_bin_lsb q)) with (str_count "1" (pos_bin_lsb q)).
    exact IH.
Qed.

(** [bin(self).count('1')] is the population count *)
Theorem py_count_spec s : 0 <= s -> py_count s = count s.
Proof.
  intros Hs. destruct s as [|p|p]; [reflexivity| |lia].
  unfold py_count, py_bin.
  change (str_count "1" ("0"%char :: "b"%char :: rev (pos_bin_lsb p)))
    with (str_count "1" (rev (pos_bin_lsb p))).
  rewrite str_count_rev. apply str_count_1_pos.
Qed.

(** [self.count()] = [bin(self)[2:].count('1')] *)
Theorem py_count_value_true_spec s : 0 <= s -> py_count_value s true = count s.
Proof.
  intros Hs. destruct s as [|p|p]; [reflexivity| |lia].
  unfold py_count_value, py_bin, slice_from2. cbn [skipn].
  rewrite str_count_rev. apply str_count_1_pos.
Qed.

(** integers.indexes_optimized *)
Lemma indexes_optimized_pos p : forall k,
  map fst (filter (fun ib : nat * ascii => Ascii.eqb (snd ib) "1"%char)
                  (combine (seq k (length (pos_bin_lsb p))) (pos_bin_lsb p))) = idx_pos p k.
Proof.
  induction p as [q IH|q IH|]; intros k; cbn [pos_bin_lsb length seq combine filter snd idx_pos].
  - change (Ascii.eqb "1" "1") with true. cbn [map fst]. rewrite IH. reflexivity.
  - change (Ascii.eqb "0" "1") with false. apply IH.
  - reflexivity.
Qed.

Theorem py_indexes_optimized_spec s : 0 <= s -> py_indexes_optimized s = indexes s.
Proof.
  intros Hs. destruct s as [|p|p]; [reflexivity| |lia].
  unfold py_indexes_optimized, py_enumerate, slice_rev_to1, py_bin. cbn [skipn].
  rewrite rev_involutive. apply indexes_optimized_pos.
Qed.

(** integers.indexes (the while loop) *)
Definition idx_cond (st : nat * Z * list nat) : bool := let '(i, n, out) := st in truthy n.
Definition idx_body (st : nat * Z * list nat) : res (nat * Z * list nat) :=
  let '(i, n, out) := st in
  let out := if truthy (Z.land n 1) then out ++ [i] else out in
  Ok (S i, Z.shiftr n 1, out).

Lemma py_indexes_unfold fuel n :
  py_indexes fuel n =
  do st <- while_fuel fuel idx_cond idx_body (O, n, []) ;; let '(_, _, out) := st in Ok out.
Proof. reflexivity. Qed.

Lemma idx_loop_pos p : forall fuel i out, (Pos.size_nat p <= fuel)%nat ->
  while_fuel fuel idx_cond idx_body (i, Z.pos p, out) =
  Ok ((i + Pos.size_nat p)%nat, 0, out ++ idx_pos p i).
Proof.
  induction p as [q IH|q IH|]; intros fuel i out Hfuel; cbn [Pos.size_nat] in Hfuel;
    (destruct fuel as [|fuel]; [lia|]); cbn [while_fuel idx_cond];
    rewrite truthy_pos by lia; cbn [idx_body bind Pos.size_nat idx_pos].
  - change (Z.land (Z.pos q~1) 1) with 1. change (Z.shiftr (Z.pos q~1) 1) with (Z.pos q).
    change (truthy 1) with true. cbv iota.
    rewrite IH by lia. rewrite <- app_assoc. cbn [app]. do 2 f_equal. f_equal. lia.
  - change (Z.land (Z.pos q~0) 1) with 0. change (Z.shiftr (Z.pos q~0) 1) with (Z.pos q).
    change (truthy 0) with false. cbv iota.
    rewrite IH by lia. do 2 f_equal. f_equal. lia.
  - change (Z.land 1 1) with 1. change (Z.shiftr 1 1) with 0. change (truthy 1) with true. cbv iota.
    destruct fuel; cbn [while_fuel idx_cond]; change (truthy 0) with false; cbv iota;
      do 2 f_equal; f_equal; lia.
Qed.

Theorem py_indexes_spec fuel s : 0 <= s -> (bits_size s <= fuel)%nat -> py_indexes fuel s = Ok (indexes s).
Proof.
  intros Hs Hfuel. rewrite py_indexes_unfold. destruct s as [|p|p]; [| |lia].
  - destruct fuel; reflexivity.
  - cbn [bits_size] in Hfuel. rewrite idx_loop_pos by exact Hfuel. reflexivity.
Qed.

Corollary py_indexes_in_range fuel n s : in_range n s -> (n <= fuel)%nat -> py_indexes fuel s = Ok (indexes s).
Proof.
  intros Hs Hfuel. apply py_indexes_spec; [apply Hs|].
  destruct s as [|p|p]; cbn [bits_size]; try lia.
  pose proof (size_nat_le_of_in_range n p Hs). lia.
Qed.

(** * 6. atomic / inatomic, reduce_or / reduce_and *)

Theorem py_atomic_spec n b : py_atomic n b = atomic n b.
Proof. unfold py_atomic, atomic. rewrite py_atoms_bit, filter_map_comm. reflexivity. Qed.

Theorem py_inatomic_spec n b :
  py_inatomic n b = map bit (filter (fun i => negb (mem b i)) (seq 0 n)).
Proof.
  unfold py_inatomic, it_filterfalse. rewrite py_atoms_bit, filter_map_comm. f_equal.
  apply filter_ext. intros i. rewrite truthy_land_bit. reflexivity.
Qed.

(** [inatomic(b)] lists the atoms of the complement *)
Corollary py_inatomic_atomic_lnot n b : py_inatomic n b = atomic n (Z.lnot b).
Proof. rewrite py_inatomic_spec, atomic_lnot. reflexivity. Qed.

Theorem py_atomic_members n b : py_atomic n b = map bit (members n b).
Proof.
  rewrite py_atomic_spec. unfold atomic, members. f_equal. apply filter_ext. intros i. apply truthy_land_bit.
Qed.

(** [self.atoms()] of a bitset in range: the atoms of its indexes, as the powerset model uses *)
Theorem py_atomic_atoms_of n s : in_range n s -> py_atomic n s = atoms_of s.
Proof. intros Hs. rewrite py_atomic_members. unfold atoms_of. rewrite (indexes_members n s Hs). reflexivity. Qed.

Theorem py_reduce_or_spec bitsets : py_reduce_or bitsets = fold_left Z.lor bitsets 0.
Proof. reflexivity. Qed.

Theorem py_reduce_and_spec n bitsets : py_reduce_and n bitsets = fold_left Z.land bitsets (ones n).
Proof. reflexivity. Qed.

(** the form the lattice model uses: folding over concept indexes *)
Lemma fold_left_map {A B C} (f : A -> B -> A) (g : C -> B) l : forall a,
  fold_left f (map g l) a = fold_left (fun acc x => f acc (g x)) l a.
Proof. induction l as [|x l IH]; intros a; cbn [map fold_left]; [reflexivity|apply IH]. Qed.

Corollary py_reduce_or_map {C} (ext : C -> Z) cs :
  py_reduce_or (map ext cs) = fold_left (fun acc i => Z.lor acc (ext i)) cs 0.
Proof. unfold py_reduce_or. apply fold_left_map. Qed.

Corollary py_reduce_and_map {C} n (ext : C -> Z) cs :
  py_reduce_and n (map ext cs) = fold_left (fun acc i => Z.land acc (ext i)) cs (ones n).
Proof. unfold py_reduce_and. apply fold_left_map. Qed.

(** * 7. combos.shortlex *)

(** the queue entries the code appends: those with a non-empty rest *)
Definition nonempty_rest (e : Z * list Z) : bool := match snd e with [] => false | _ :: _ => true end.
Definition nef (l : list (Z * list Z)) : list (Z * list Z) := filter nonempty_rest l.

Lemma sl_inner_spec current : forall other queue out,
  sl_inner current other queue out =
  (queue ++ nef (expand current other), out ++ map fst (expand current other)).
Proof.
  induction other as [|f r IH]; intros queue out; cbn [sl_inner expand nef filter map fst].
  - rewrite !app_nil_r. reflexivity.
  - rewrite IH. unfold nef. cbn [filter nonempty_rest snd]. destruct r as [|g r'].
    + cbn [expand filter map app]. rewrite !app_nil_r. reflexivity.
    + rewrite <- !app_assoc. reflexivity.
Qed.

Lemma nef_app l1 l2 : nef (l1 ++ l2) = nef l1 ++ nef l2.
Proof. apply filter_app. Qed.

Lemma step_cons e l : step (e :: l) = expand (fst e) (snd e) ++ step l.
Proof. reflexivity. Qed.

(** processing one whole level of the queue *)
Lemma sl_outer_level lvl : forall q' out f,
  sl_outer (length lvl + f) (lvl ++ q') out =
  sl_outer f (q' ++ nef (step lvl)) (out ++ map fst (step lvl)).
Proof.
  induction lvl as [|[cur other] lvl IH]; intros q' out f.
  - cbn [length app step flat_map nef filter map Nat.add]. unfold step. cbn [flat_map nef filter map].
    rewrite !app_nil_r. reflexivity.
  - cbn [length app Nat.add sl_outer]. rewrite sl_inner_spec.
    rewrite <- app_assoc. rewrite IH. rewrite step_cons. cbn [fst snd].
    rewrite nef_app, map_app, <- !app_assoc. reflexivity.
Qed.

Lemma sl_outer_level0 lvl out f :
  sl_outer (length lvl + f) lvl out = sl_outer f (nef (step lvl)) (out ++ map fst (step lvl)).
Proof. pose proof (sl_outer_level lvl [] out f) as H. rewrite app_nil_r in H. exact H. Qed.

Lemma step_nef l : step (nef l) = step l.
Proof.
  induction l as [|[cur other] l IH]; [reflexivity|].
  destruct other as [|f r].
  - change (nef ((cur, []) :: l)) with (nef l). rewrite IH. reflexivity.
  - change (nef ((cur, f :: r) :: l)) with ((cur, f :: r) :: nef l). rewrite !step_cons, IH. reflexivity.
Qed.

Lemma levels_nef N l : levels N (nef l) = levels N l.
Proof.
  destruct N as [|N]; [reflexivity|].
  change (map fst (step (nef l)) ++ levels N (step (nef l)) = map fst (step l) ++ levels N (step l)).
  rewrite step_nef. reflexivity.
Qed.

(** the number of [popleft]s needed for [N] more levels *)
Fixpoint sl_need (N : nat) (lvl : list (Z * list Z)) : nat :=
  match N with
  | O => length lvl
  | S N' => (length lvl + sl_need N' (nef (step lvl)))%nat
  end.

Definition rest_le (N : nat) (lvl : list (Z * list Z)) : Prop := Forall (fun e => (length (snd e) <= N)%nat) lvl.

Lemma expand_rest_le cur : forall other N, (length other <= S N)%nat -> rest_le N (expand cur other).
Proof.
  induction other as [|f r IH]; intros N H; cbn [expand]; [constructor|].
  cbn [length] in H. constructor; [cbn [snd]; lia|]. apply IH. lia.
Qed.

Lemma step_rest_le N lvl : rest_le (S N) lvl -> rest_le N (step lvl).
Proof.
  induction 1 as [|e l He Hl IH]; [constructor|].
  rewrite step_cons. apply Forall_app. split; [apply expand_rest_le; exact He|exact IH].
Qed.

Lemma nef_rest_le N l : rest_le N l -> rest_le N (nef l).
Proof.
  intros H. apply Forall_forall. intros e He. apply filter_In in He. destruct He as [He _].
  unfold rest_le in H. rewrite Forall_forall in H. apply H, He.
Qed.

Lemma step_rest_0 lvl : rest_le 0 lvl -> step lvl = [].
Proof.
  induction 1 as [|e l He Hl IH]; [reflexivity|].
  rewrite step_cons, IH. destruct e as [cur other]. cbn [snd fst] in *.
  destruct other; [reflexivity|cbn [length] in He; lia].
Qed.

Lemma sl_outer_levels N : forall lvl out fuel, rest_le N lvl -> (sl_need N lvl <= fuel)%nat ->
  sl_outer fuel lvl out = Ok (out ++ levels N lvl).
Proof.
  induction N as [|N IH]; intros lvl out fuel Hle Hfuel; cbn [sl_need] in Hfuel.
  - replace fuel with (length lvl + (fuel - length lvl))%nat by lia.
    rewrite sl_outer_level0. rewrite (step_rest_0 _ Hle).
    cbn [nef filter app map levels]. rewrite app_nil_r.
    destruct (fuel - length lvl)%nat; reflexivity.
  - replace fuel with (length lvl + (fuel - length lvl))%nat by lia.
    rewrite sl_outer_level0.
    rewrite IH.
    + rewrite levels_nef. cbn [levels]. fold (step lvl). rewrite <- app_assoc. reflexivity.
    + apply nef_rest_le, step_rest_le, Hle.
    + lia.
Qed.

(** an explicit bound on the fuel: [2 ^ length other] *)
Fixpoint sl_weight (l : list (Z * list Z)) : nat :=
  match l with [] => O | e :: r => (2 ^ length (snd e) + sl_weight r)%nat end.

Lemma sl_weight_app l1 l2 : sl_weight (l1 ++ l2) = (sl_weight l1 + sl_weight l2)%nat.
Proof. induction l1 as [|e l1 IH]; cbn [app sl_weight]; [reflexivity|]. rewrite IH. lia. Qed.

Lemma sl_weight_expand cur : forall other, (sl_weight (expand cur other) + 1 = 2 ^ length other)%nat.
Proof.
  induction other as [|f r IH]; [reflexivity|].
  cbn [expand sl_weight snd length]. rewrite Nat.pow_succ_r'. lia.
Qed.

Lemma sl_weight_nef l : (sl_weight (nef l) <= sl_weight l)%nat.
Proof.
  induction l as [|e l IH]; [cbn; lia|].
  unfold nef. cbn [filter]. fold (nef l). destruct (nonempty_rest e); cbn [sl_weight]; lia.
Qed.

Lemma sl_weight_step l : (sl_weight (step l) + length l <= sl_weight l)%nat.
Proof.
  induction l as [|e l IH]; [cbn; lia|].
  rewrite step_cons, sl_weight_app. cbn [length sl_weight].
  pose proof (sl_weight_expand (fst e) (snd e)). lia.
Qed.

Lemma sl_weight_length l : (length l <= sl_weight l)%nat.
Proof.
  induction l as [|e l IH]; [cbn; lia|]. cbn [length sl_weight].
  assert (1 <= 2 ^ length (snd e))%nat by (apply Nat.neq_0_lt_0, Nat.pow_nonzero; lia). lia.
Qed.

Lemma sl_need_weight N : forall lvl, (sl_need N lvl <= sl_weight lvl)%nat.
Proof.
  induction N as [|N IH]; intros lvl; cbn [sl_need]; [apply sl_weight_length|].
  pose proof (IH (nef (step lvl))). pose proof (sl_weight_nef (step lvl)). pose proof (sl_weight_step lvl). lia.
Qed.

(** the generator yields [start], then the unions level by level *)
Theorem py_shortlex_combos_levels fuel start other :
  (2 ^ length other <= fuel)%nat ->
  py_shortlex_combos fuel start other false = Ok (start :: levels (length other) [(start, other)]).
Proof.
  intros Hfuel. unfold py_shortlex_combos.
  rewrite (sl_outer_levels (length other)).
  - reflexivity.
  - constructor; [cbn [snd]; lia|constructor].
  - pose proof (sl_need_weight (length other) [(start, other)]) as H. cbn [sl_weight snd] in H. lia.
Qed.

Theorem py_shortlex_combos_excludestart fuel start other :
  (2 ^ length other <= fuel)%nat ->
  py_shortlex_combos fuel start other true = Ok (levels (length other) [(start, other)]).
Proof.
  intros Hfuel. unfold py_shortlex_combos.
  rewrite (sl_outer_levels (length other)).
  - reflexivity.
  - constructor; [cbn [snd]; lia|constructor].
  - pose proof (sl_need_weight (length other) [(start, other)]) as H. cbn [sl_weight snd] in H. lia.
Qed.

Lemma atoms_of_length s : length (atoms_of s) = count s.
Proof. unfold atoms_of. rewrite map_length. symmetry. apply count_indexes. Qed.

Theorem py_shortlex_combos_spec fuel s :
  (2 ^ count s <= fuel)%nat ->
  py_shortlex_combos fuel 0 (atoms_of s) false = Ok (powerset_shortlex s).
Proof.
  intros Hfuel. rewrite py_shortlex_combos_levels by (rewrite atoms_of_length; exact Hfuel).
  rewrite atoms_of_length. reflexivity.
Qed.

(** [self.powerset()] *)
Theorem py_powerset_spec fuel n s : in_range n s ->
  (2 ^ count s <= fuel)%nat -> py_powerset fuel n s = Ok (powerset_shortlex s).
Proof.
  intros Hs Hfuel. unfold py_powerset, py_infimum. rewrite (py_atomic_atoms_of n s Hs).
  apply py_shortlex_combos_spec, Hfuel.
Qed.

Corollary py_powerset_fuel_n fuel n s : in_range n s ->
  (2 ^ n <= fuel)%nat -> py_powerset fuel n s = Ok (powerset_shortlex s).
Proof.
  intros Hs Hfuel. apply py_powerset_spec; [exact Hs|].
  pose proof (count_le_range n s Hs).
  assert (2 ^ count s <= 2 ^ n)%nat by (apply Nat.pow_le_mono_r; lia). lia.
Qed.

(** the sort keys *)
Theorem py_shortlex_key_spec fuel n s : (1 <= n)%nat -> in_range n s -> (n <= fuel)%nat ->
  py_shortlex_key fuel n s = Ok (shortlex n s).
Proof.
  intros Hn Hs Hfuel. unfold py_shortlex_key, shortlex.
  rewrite py_reinverted_spec by assumption. cbn [bind]. rewrite py_count_spec by apply Hs. reflexivity.
Qed.

Theorem py_longlex_key_spec fuel n s : (1 <= n)%nat -> in_range n s -> (n <= fuel)%nat ->
  py_longlex_key fuel n s = Ok (longlex n s).
Proof.
  intros Hn Hs Hfuel. unfold py_longlex_key, longlex.
  rewrite py_reinverted_spec by assumption. cbn [bind]. rewrite py_count_spec by apply Hs. reflexivity.
Qed.

(** * Summary

    Model/Bitsets.v follows the Python code of bitsets 0.8.4 (and Relation.__new__) line by
    line; the theorems below identify each function with the mathematical definition used by
    the main model.  All are closed under the global context.

    1. frommembers   [py_frommembers_spec]   (any set order [s] of [members], all < n:
                                              [py_frommembers n s = Ok (of_list members)]),
                     [py_frommembers_sum]    ([fold_left Z.add (map bit s) 0 = of_list members]),
                     [py_frommembers_unknown] (KeyError), [py_frommembers_model] (= [frommembers]).
    2. frombools     [py_frombools_spec]     (= [of_pred n (fun i => nth i bools false)]),
       bools         [py_bools_spec]         (= [map (mem v) (seq 0 n)]), [py_bools_bools_of]
                     (= [ContextApi.bools_of]), [py_frombools_bools] (round trip).
    3. Relation      [py_zip_star_transpose], [py_relation_cols_spec] (wf_ctx, nG >= 1:
                     [py_relation_cols (nM c) (nG c) (rows c) = cols c]),
                     [py_relation_new_spec] / [py_relation_new_rows] (the whole constructor),
                     [py_relation_cols_noobject] (nG = 0: no column at all; excluded upstream).
    4. reinverted    [py_reinverted_spec]    (1 <= r, in_range r n, r <= fuel:
                     [py_reinverted fuel n r = Ok (reinverted r n)]),
                     [py_reinverted_r0]      (r <= 0: ValueError; excluded upstream).
    5. count         [py_count_spec] ([bin(self).count('1')]), [py_count_value_true_spec]
                     ([self.count()]), both = [count] for 0 <= s;
       indexes       [py_indexes_spec] / [py_indexes_in_range] (the while loop, = [Ok (indexes s)]),
                     [py_indexes_optimized_spec] (= [indexes s]).
    6. atomic        [py_atomic_spec] (= [atomic n b]), [py_inatomic_spec],
                     [py_inatomic_atomic_lnot], [py_atomic_members], [py_atomic_atoms_of];
       reduce        [py_reduce_or_spec], [py_reduce_and_spec], [py_reduce_or_map], [py_reduce_and_map].
    7. shortlex      [py_shortlex_combos_levels] (any start / other, fuel >= 2 ^ length other:
                     [Ok (start :: levels (length other) [(start, other)])]),
                     [py_shortlex_combos_excludestart],
                     [py_shortlex_combos_spec] (start 0, other = [atoms_of s]: [Ok (powerset_shortlex s)]),
                     [py_powerset_spec] / [py_powerset_fuel_n] ([self.powerset()]).
       sort keys     [py_shortlex_key_spec], [py_longlex_key_spec]. *)
