(** Easy facts about the lattice record and the lookup functions; spec-level lub/glb. *)
From Coq Require Import ZArith List Bool Lia ZifyBool.
From Concepts Require Import Base.Res Base.PyInt Base.BitSet Spec.FCA Spec.Context
  Model.Matrices Model.ContextApi Model.Members Model.Lattice Model.LatticeApi
  Proofs.Matrices Proofs.ContextApi Proofs.Closure.
Import ListNotations.
Open Scope Z_scope.

Lemma index_of_spec exts e : forall start i,
  index_of exts e start = Some i -> (start <= i)%nat /\ nth_error exts (i - start) = Some e.
Proof.
  induction exts as [|x r IH]; intros start i H; cbn in H; [discriminate|].
  destruct (Z.eqb_spec x e) as [->|Hne].
  - injection H as <-. split; [lia|]. rewrite Nat.sub_diag. reflexivity.
  - apply IH in H. destruct H as [Hle Hn]. split; [lia|].
    replace (i - start)%nat with (S (i - S start)) by lia. exact Hn.
Qed.

Lemma index_of_first exts e : forall start i,
  index_of exts e start = Some i -> forall j, (j < i - start)%nat -> nth j exts 0 <> e.
Proof.
  induction exts as [|x r IH]; intros start i H j Hj; cbn in H; [discriminate|].
  destruct (Z.eqb_spec x e) as [->|Hne].
  - injection H as <-. lia.
  - destruct j as [|j]; [exact Hne|]. cbn [nth]. apply (IH (S start) i H). 
    pose proof (index_of_spec _ _ _ _ H). lia.
Qed.

Lemma index_of_none exts e : forall start, index_of exts e start = None -> ~ In e exts.
Proof.
  induction exts as [|x r IH]; intros start H; cbn in H; [intros []|].
  destruct (Z.eqb_spec x e) as [->|Hne]; [discriminate|].
  intros [Hx|Hin]; [congruence|]. exact (IH _ H Hin).
Qed.

Lemma mapping_get_ok exts e i : mapping_get exts e = Ok i ->
  (i < length exts)%nat /\ nth_extent exts i = e.
Proof.
  unfold mapping_get. destruct (index_of exts e 0) as [j|] eqn:E; [|discriminate].
  intros H. injection H as <-. apply index_of_spec in E. destruct E as [_ E]. rewrite Nat.sub_0_r in E.
  split; [apply nth_error_Some; congruence|]. unfold nth_extent. apply nth_error_nth. exact E.
Qed.

Lemma mapping_get_in exts e : In e exts -> exists i, mapping_get exts e = Ok i.
Proof.
  intros Hin. unfold mapping_get. destruct (index_of exts e 0) as [j|] eqn:E; [eauto|].
  exfalso. exact (index_of_none _ _ _ E Hin).
Qed.

Lemma mapping_get_raises exts e : ~ In e exts -> mapping_get exts e = Raise KeyError.
Proof.
  intros Hn. unfold mapping_get. destruct (index_of exts e 0) as [j|] eqn:E; [|reflexivity].
  exfalso. apply Hn. apply index_of_spec in E. destruct E as [_ E]. eapply nth_error_In. exact E.
Qed.

(** ** lub / glb on closed extents *)
Section LubGlb.
  Variable c : ctx.

  Lemma lor_in_range a b : in_range (nG c) a -> in_range (nG c) b -> in_range (nG c) (Z.lor a b).
  Proof. apply in_range_lor. Qed.

  (** the join extent: closure of the union; it is the least closed extent above both *)
  Theorem join_is_upper_bound a b : in_range (nG c) a -> in_range (nG c) b ->
    subset a (clO c (Z.lor a b)) /\ subset b (clO c (Z.lor a b)).
  Proof.
    intros Ha Hb. pose proof (clO_extensive c (Z.lor a b) (in_range_lor _ _ _ Ha Hb)) as H.
    split; intros i Hi; apply H; rewrite mem_lor, Hi; auto using orb_true_r.
  Qed.

  Theorem join_is_least a b u : in_range (nG c) a -> in_range (nG c) b -> closedO c u ->
    subset a u -> subset b u -> subset (clO c (Z.lor a b)) u.
  Proof.
    intros Ha Hb [Hu Hcl] H1 H2. rewrite <- Hcl. apply clO_monotone.
    intros i Hi. rewrite mem_lor in Hi. apply orb_true_iff in Hi. destruct Hi; auto.
  Qed.

  Theorem join_closed a b : in_range (nG c) a -> in_range (nG c) b -> closedO c (clO c (Z.lor a b)).
  Proof.
    intros Ha Hb. split; [apply in_range_up|]. apply clO_idempotent. apply in_range_lor; assumption.
  Qed.

  (** the meet extent: the intersection, which is closed, hence fixed by double() *)
  Theorem meet_closed a b : closedO c a -> closedO c b -> clO c (Z.land a b) = Z.land a b.
  Proof. intros Ha Hb. exact (proj2 (closed_land c a b Ha Hb)). Qed.

  Theorem meet_is_lower_bound a b : subset (Z.land a b) a /\ subset (Z.land a b) b.
  Proof. split; intros i Hi; rewrite mem_land in Hi; apply andb_prop in Hi; tauto. Qed.

  Theorem meet_is_greatest a b l : subset l a -> subset l b -> subset l (Z.land a b).
  Proof. intros H1 H2 i Hi. rewrite mem_land, (H1 i Hi), (H2 i Hi). reflexivity. Qed.

  (** n-ary forms: folds of lor / land *)
  Lemma fold_lor_in_range l : Forall (in_range (nG c)) l -> forall acc, in_range (nG c) acc ->
    in_range (nG c) (fold_left Z.lor l acc).
  Proof.
    induction l as [|x l IH]; intros Hl acc Ha; cbn; [exact Ha|].
    inversion Hl; subst. apply IH; [assumption|apply in_range_lor; assumption].
  Qed.

  Lemma mem_fold_lor l : forall acc i,
    mem (fold_left Z.lor l acc) i = mem acc i || existsb (fun x => mem x i) l.
  Proof.
    induction l as [|x l IH]; intros acc i; cbn; [rewrite orb_false_r; reflexivity|].
    rewrite IH, mem_lor, orb_assoc. reflexivity.
  Qed.

  Lemma mem_fold_land l : forall acc i,
    mem (fold_left Z.land l acc) i = mem acc i && forallb (fun x => mem x i) l.
  Proof.
    induction l as [|x l IH]; intros acc i; cbn; [rewrite andb_true_r; reflexivity|].
    rewrite IH, mem_land, andb_assoc. reflexivity.
  Qed.

  Lemma fold_land_closed l : Forall (closedO c) l -> forall acc, closedO c acc ->
    closedO c (fold_left Z.land l acc).
  Proof.
    induction l as [|x l IH]; intros Hl acc Ha; cbn; [exact Ha|].
    inversion Hl; subst. apply IH; [assumption|apply closed_land; assumption].
  Qed.
End LubGlb.

(** x <= y  iff  x \/ y = y  iff  x /\ y = x, on closed extents *)
Theorem order_join_meet c a b : closedO c a -> closedO c b ->
  (subset a b <-> clO c (Z.lor a b) = b) /\ (subset a b <-> Z.land a b = a).
Proof.
  intros [Ha Ca] [Hb Cb]. split; split.
  - intros H. assert (E : Z.lor a b = b).
    { apply (bitset_ext (nG c)); [apply in_range_lor; assumption|assumption|].
      intros i _. rewrite mem_lor. destruct (mem a i) eqn:E; [rewrite (H i E)|]; reflexivity. }
    rewrite E. exact Cb.
  - intros H i Hi. rewrite <- H. apply clO_extensive; [apply in_range_lor; assumption|].
    rewrite mem_lor, Hi. reflexivity.
  - intros H. apply (bitset_ext (nG c)); [apply in_range_land; assumption|assumption|].
    intros i _. rewrite mem_land. destruct (mem a i) eqn:E; [rewrite (H i E)|]; reflexivity.
  - intros H i Hi. rewrite <- H, mem_land in Hi. apply andb_prop in Hi. tauto.
Qed.

(** bottom and top *)
Theorem bottom_least c E : closedO c E -> subset (clO c 0) E.
Proof.
  intros [HE Hc]. rewrite <- Hc. apply clO_monotone. intros i Hi. rewrite mem_0 in Hi. discriminate.
Qed.

Theorem bottom_closed c : closedO c (clO c 0).
Proof. split; [apply in_range_up|]. apply clO_idempotent. apply in_range_0. Qed.

Theorem top_greatest c E : closedO c E -> subset E (ones (nG c)).
Proof.
  intros [HE _] i Hi. rewrite mem_ones. apply Nat.ltb_lt. exact (mem_lt_of_in_range _ _ _ HE Hi).
Qed.

Theorem all_crosses_one_concept c :
  (forall g m, (g < nG c)%nat -> (m < nM c)%nat -> inc c g m = true) ->
  forall E, closedO c E -> E = ones (nG c).
Proof.
  intros Hall E HE. apply (subset_antisym (nG c)); [exact (proj1 HE)|apply in_range_ones|apply top_greatest; exact HE|].
  destruct HE as [HE Hc]. rewrite <- Hc. intros g Hg. rewrite mem_ones in Hg. apply Nat.ltb_lt in Hg.
  apply mem_up. split; [exact Hg|]. intros m Hm _. unfold flipR. apply Hall; assumption.
Qed.
