(** The heap-merge traversal [iterunion] (generic theorem), and its instances
    upset / downset / upset_union / downset_union under [lattice_ok]. *)
From Coq Require Import ZArith List Bool Lia ZifyBool Sorted Permutation Arith.
From Concepts Require Import Base.Res Base.PyInt Base.BitSet Spec.FCA Spec.Context
  Model.Matrices Model.ContextApi Model.Members Model.Lattice Model.LatticeApi Spec.LatticeSpec
  Proofs.Members Proofs.LatticeBasics Proofs.LatticeFirst.
Import ListNotations.
Open Scope Z_scope.

(** * Part 1: generic correctness of [iterunion] *)

(** reflexive-transitive closure of [next] from some seed *)
Inductive reach (next : nat -> list nat) (seeds : list nat) : nat -> Prop :=
| reach_seed c : In c seeds -> reach next seeds c
| reach_step c d : reach next seeds c -> In d (next c) -> reach next seeds d.

(** [zmin_aux] pops a minimum-key entry; the rest is a permutation of the others *)
Lemma zmin_aux_spec : forall rest best acc m o,
  zmin_aux best acc rest = (m, o) ->
  (forall y, In y acc -> fst best <= fst y) ->
  Permutation (m :: o) (best :: acc ++ rest) /\ (forall y, In y (m :: o) -> fst m <= fst y).
Proof.
  induction rest as [|x rest IH]; intros best acc m o H Hacc; cbn [zmin_aux] in H.
  - injection H as <- <-. rewrite app_nil_r. split; [reflexivity|].
    intros y [<-|Hy]; [lia|auto].
  - destruct (fst x <? fst best) eqn:E.
    + apply IH in H.
      * destruct H as [HP Hmin]. split; [|exact Hmin].
        rewrite HP. cbn [app]. rewrite perm_swap. apply perm_skip. apply Permutation_middle.
      * intros y [<-|Hy]; [lia|]. specialize (Hacc y Hy). lia.
    + apply IH in H.
      * destruct H as [HP Hmin]. split; [|exact Hmin].
        rewrite HP. apply perm_skip. cbn [app]. apply Permutation_middle.
      * intros y [<-|Hy]; [lia|auto].
Qed.

Lemma zmin_spec x rest m o :
  zmin_aux x [] rest = (m, o) ->
  Permutation (m :: o) (x :: rest) /\ (forall y, In y (m :: o) -> fst m <= fst y).
Proof.
  intros H. apply zmin_aux_spec in H; [exact H|]. intros y [].
Qed.

Lemma StronglySorted_snoc {A} (R : A -> A -> Prop) l x :
  StronglySorted R l -> (forall a, In a l -> R a x) -> StronglySorted R (l ++ [x]).
Proof.
  induction 1 as [|a l Hs IH Hf]; intros Hx; cbn [app].
  - constructor; constructor.
  - constructor.
    + apply IH. intros b Hb. apply Hx. right. exact Hb.
    + apply Forall_app. split; [exact Hf|]. constructor; [|constructor]. apply Hx. left. reflexivity.
Qed.

Section IterUnion.
  Variables (sortkey : nat -> Z) (next : nat -> list nat) (nodes seeds : list nat).
  Hypothesis H1 : forall c, In c nodes -> 0 <= sortkey c.
  Hypothesis H2 : forall c d, In c nodes -> In d nodes -> sortkey c = sortkey d -> c = d.
  Hypothesis H3 : forall c d, In c nodes -> In d (next c) -> In d nodes /\ sortkey c < sortkey d.
  Hypothesis H4 : forall c, In c seeds -> In c nodes.

  Let ent (c : nat) : Z * nat := (sortkey c, c).
  Let klt (a b : nat) : Prop := sortkey a < sortkey b.

  Record inv (heap : list (Z * nat)) (seen : Z) (out : list nat) : Prop := {
    inv_sorted : StronglySorted klt out;
    inv_out : forall c, In c out -> In c nodes /\ sortkey c <= seen /\ reach next seeds c;
    inv_heap : forall e, In e heap -> e = ent (snd e) /\ In (snd e) nodes /\ reach next seeds (snd e);
    inv_low : forall e, In e heap -> fst e <= seen -> In (snd e) out;
    inv_seeds : forall c, In c seeds -> In c out \/ In (ent c) heap;
    inv_closed : forall d e, In d out -> In e (next d) -> In e out \/ In (ent e) heap
  }.

  Definition post (out : list nat) : Prop :=
    StronglySorted klt out /\ forall c, In c out <-> reach next seeds c.

  Lemma inv_init : inv (map ent seeds) (-1) [].
  Proof.
    constructor.
    - constructor.
    - intros c [].
    - intros e He. apply in_map_iff in He. destruct He as [c [<- Hc]]. cbn [snd].
      split; [reflexivity|]. split; [apply H4; exact Hc|apply reach_seed; exact Hc].
    - intros e He Hle. apply in_map_iff in He. destruct He as [c [<- Hc]]. cbn [fst ent] in Hle.
      pose proof (H1 c (H4 c Hc)). lia.
    - intros c Hc. right. apply in_map. exact Hc.
    - intros d e [].
  Qed.

  Lemma inv_final seen out : inv [] seen out -> post out.
  Proof.
    intros I. split; [exact (inv_sorted _ _ _ I)|].
    intros c. split.
    - intros Hc. apply (inv_out _ _ _ I c Hc).
    - induction 1 as [c Hc|c d Hr IH Hd].
      + destruct (inv_seeds _ _ _ I c Hc) as [H|[]]. exact H.
      + destruct (inv_closed _ _ _ I c d IH Hd) as [H|[]]. exact H.
  Qed.

  Section Step.
    Variables (x : Z * nat) (rest : list (Z * nat)) (seen : Z) (out : list nat).
    Variables (index : Z) (concept : nat) (heap' : list (Z * nat)).
    Hypothesis I : inv (x :: rest) seen out.
    Hypothesis Ez : zmin_aux x [] rest = ((index, concept), heap').

    Lemma step_perm : Permutation ((index, concept) :: heap') (x :: rest).
    Proof. exact (proj1 (zmin_spec _ _ _ _ Ez)). Qed.

    Lemma step_min : forall y, In y heap' -> index <= fst y.
    Proof.
      intros y Hy. apply (proj2 (zmin_spec _ _ _ _ Ez) y). right. exact Hy.
    Qed.

    Lemma step_popped : index = sortkey concept /\ In concept nodes /\ reach next seeds concept.
    Proof.
      assert (Hin : In (index, concept) (x :: rest)).
      { apply (Permutation_in _ step_perm). left. reflexivity. }
      destruct (inv_heap _ _ _ I _ Hin) as (E & Hn & Hr). cbn [snd] in *.
      unfold ent in E. split; [congruence|]. split; assumption.
    Qed.

    Lemma step_sub : forall e, In e heap' -> In e (x :: rest).
    Proof. intros e He. apply (Permutation_in _ step_perm). right. exact He. Qed.

    Lemma step_ent c : In (ent c) (x :: rest) -> c = concept \/ In (ent c) heap'.
    Proof.
      intros Hc. apply (Permutation_in _ (Permutation_sym step_perm)) in Hc.
      destruct Hc as [E|Hc]; [left|right; exact Hc]. unfold ent in E. congruence.
    Qed.

    Lemma step_len : length heap' = length rest.
    Proof. pose proof (Permutation_length step_perm) as H. cbn [length] in H. lia. Qed.

    Lemma step_push : seen < index ->
      inv (map ent (next concept) ++ heap') index (out ++ [concept]).
    Proof.
      intros Hlt. destruct step_popped as (Ei & Hn & Hr). constructor.
      - apply StronglySorted_snoc; [exact (inv_sorted _ _ _ I)|].
        intros a Ha. destruct (inv_out _ _ _ I a Ha) as (_ & Hle & _). unfold klt. lia.
      - intros c Hc. apply in_app_iff in Hc. destruct Hc as [Hc|[<-|[]]].
        + destruct (inv_out _ _ _ I c Hc) as (Hcn & Hle & Hcr). split; [exact Hcn|]. split; [lia|exact Hcr].
        + split; [exact Hn|]. split; [lia|exact Hr].
      - intros e He. apply in_app_iff in He. destruct He as [He|He].
        + apply in_map_iff in He. destruct He as [d [<- Hd]]. cbn [snd ent].
          split; [reflexivity|]. split; [apply (H3 concept d Hn Hd)|].
          apply reach_step with (c := concept); assumption.
        + apply (inv_heap _ _ _ I). apply step_sub. exact He.
      - intros e He Hle. apply in_app_iff. apply in_app_iff in He. destruct He as [He|He].
        + apply in_map_iff in He. destruct He as [d [<- Hd]]. cbn [fst ent] in Hle.
          pose proof (proj2 (H3 concept d Hn Hd)). lia.
        + right. left. pose proof (step_min e He) as Hge.
          destruct (inv_heap _ _ _ I e (step_sub e He)) as (Ee & Hen & _).
          apply H2; [exact Hn|exact Hen|].
          rewrite Ee in Hle, Hge. cbn [fst ent] in Hle, Hge. lia.
      - intros c Hc. destruct (inv_seeds _ _ _ I c Hc) as [Ho|Hh].
        + left. apply in_app_iff. left. exact Ho.
        + destruct (step_ent c Hh) as [->|Hh'].
          * left. apply in_app_iff. right. left. reflexivity.
          * right. apply in_app_iff. right. exact Hh'.
      - intros d e Hd He. apply in_app_iff in Hd. destruct Hd as [Hd|[<-|[]]].
        + destruct (inv_closed _ _ _ I d e Hd He) as [Ho|Hh].
          * left. apply in_app_iff. left. exact Ho.
          * destruct (step_ent e Hh) as [->|Hh'].
            -- left. apply in_app_iff. right. left. reflexivity.
            -- right. apply in_app_iff. right. exact Hh'.
        + right. apply in_app_iff. left. apply in_map. exact He.
    Qed.

    Lemma step_skip : index <= seen -> inv heap' seen out.
    Proof.
      intros Hle.
      assert (Hco : In concept out).
      { apply (inv_low _ _ _ I (index, concept)); [|exact Hle].
        apply (Permutation_in _ step_perm). left. reflexivity. }
      constructor.
      - exact (inv_sorted _ _ _ I).
      - exact (inv_out _ _ _ I).
      - intros e He. apply (inv_heap _ _ _ I). apply step_sub. exact He.
      - intros e He. apply (inv_low _ _ _ I). apply step_sub. exact He.
      - intros c Hc. destruct (inv_seeds _ _ _ I c Hc) as [Ho|Hh]; [left; exact Ho|].
        destruct (step_ent c Hh) as [->|Hh']; [left; exact Hco|right; exact Hh'].
      - intros d e Hd He. destruct (inv_closed _ _ _ I d e Hd He) as [Ho|Hh]; [left; exact Ho|].
        destruct (step_ent e Hh) as [->|Hh']; [left; exact Hco|right; exact Hh'].
    Qed.

    Lemma step_fresh : seen < index -> ~ In concept out.
    Proof.
      intros Hlt Hin. destruct step_popped as (Ei & _).
      destruct (inv_out _ _ _ I concept Hin) as (_ & Hle & _). lia.
    Qed.
  End Step.

  (** partial correctness of the loop *)
  Lemma loop_correct : forall fuel heap seen out res,
    inv heap seen out ->
    iterunion_loop fuel sortkey next heap seen out = Ok res -> post res.
  Proof.
    induction fuel as [|fuel IH]; intros heap seen out res I H.
    - destruct heap as [|x rest]; cbn in H; [|discriminate].
      injection H as <-. exact (inv_final _ _ I).
    - destruct heap as [|x rest]; cbn [iterunion_loop] in H.
      + injection H as <-. exact (inv_final _ _ I).
      + destruct (zmin_aux x [] rest) as [[index concept] heap'] eqn:Ez.
        destruct (seen <? index) eqn:E.
        * assert (Hlt : seen < index) by lia.
          apply (IH _ _ _ _ (step_push _ _ _ _ _ _ _ I Ez Hlt) H).
        * assert (Hle : index <= seen) by lia.
          apply (IH _ _ _ _ (step_skip _ _ _ _ _ _ _ I Ez Hle) H).
  Qed.

  (** termination measure: the out-edges of the nodes not yet output *)
  Definition weight (out : list nat) (c : nat) : nat :=
    if existsb (Nat.eqb c) out then O else length (next c).
  Definition pending (l out : list nat) : nat := list_sum (map (weight out) l).

  Lemma existsb_eqb_In c l : existsb (Nat.eqb c) l = true <-> In c l.
  Proof.
    rewrite existsb_exists. split.
    - intros [y [Hy E]]. apply Nat.eqb_eq in E. subst. exact Hy.
    - intros H. exists c. split; [exact H|apply Nat.eqb_refl].
  Qed.

  Lemma weight_snoc_le out k c : (weight (out ++ [k]) c <= weight out c)%nat.
  Proof.
    unfold weight. rewrite existsb_app.
    destruct (existsb (Nat.eqb c) out); cbn [orb]; [lia|].
    destruct (existsb (Nat.eqb c) [k]); lia.
  Qed.

  Lemma pending_snoc_le l out k : (pending l (out ++ [k]) <= pending l out)%nat.
  Proof.
    unfold pending. induction l as [|c l IH]; [cbn; lia|].
    change (weight (out ++ [k]) c + list_sum (map (weight (out ++ [k])) l)
            <= weight out c + list_sum (map (weight out) l))%nat.
    pose proof (weight_snoc_le out k c). lia.
  Qed.

  Lemma pending_snoc l out k : In k l -> ~ In k out ->
    (pending l (out ++ [k]) + length (next k) <= pending l out)%nat.
  Proof.
    intros Hk Hn. induction l as [|c l IH]; [destruct Hk|].
    unfold pending in *.
    change (weight (out ++ [k]) c + list_sum (map (weight (out ++ [k])) l) + length (next k)
            <= weight out c + list_sum (map (weight out) l))%nat.
    destruct Hk as [->|Hk].
    - pose proof (pending_snoc_le l out k) as Hl. unfold pending in Hl.
      assert (E1 : weight (out ++ [k]) k = O).
      { unfold weight. rewrite existsb_app. cbn [existsb]. rewrite Nat.eqb_refl, orb_true_r. reflexivity. }
      assert (E2 : weight out k = length (next k)).
      { unfold weight. destruct (existsb (Nat.eqb k) out) eqn:E; [|reflexivity].
        apply existsb_eqb_In in E. contradiction. }
      lia.
    - specialize (IH Hk). pose proof (weight_snoc_le out k c). lia.
  Qed.

  Lemma pending_nil l : pending l [] = list_sum (map (fun c => length (next c)) l).
  Proof. reflexivity. Qed.

  Lemma loop_terminates : forall fuel heap seen out,
    inv heap seen out -> (length heap + pending nodes out <= fuel)%nat ->
    exists res, iterunion_loop fuel sortkey next heap seen out = Ok res.
  Proof.
    induction fuel as [|fuel IH]; intros heap seen out I Hf.
    - destruct heap as [|x rest]; cbn [length] in Hf; [|lia]. exists out. reflexivity.
    - destruct heap as [|x rest]; cbn [iterunion_loop]; [exists out; reflexivity|].
      destruct (zmin_aux x [] rest) as [[index concept] heap'] eqn:Ez.
      pose proof (step_len _ _ _ _ _ Ez) as Hlen. cbn [length] in Hf.
      destruct (seen <? index) eqn:E.
      + apply IH; [apply (step_push _ _ _ _ _ _ _ I Ez); lia|].
        rewrite app_length, map_length.
        destruct (step_popped _ _ _ _ _ _ _ I Ez) as (_ & Hn & _).
        assert (Hlt : seen < index) by lia.
        pose proof (pending_snoc nodes out concept Hn (step_fresh _ _ _ _ _ _ _ I Ez Hlt)). lia.
      + apply IH; [apply (step_skip _ _ _ _ _ _ _ I Ez); lia|]. lia.
  Qed.

  Definition iterunion_fuel : nat :=
    (length seeds + list_sum (map (fun c => length (next c)) nodes))%nat.

  (** partial correctness *)
  Theorem iterunion_correct fuel out :
    iterunion fuel seeds sortkey next = Ok out ->
    StronglySorted (fun a b => sortkey a < sortkey b) out /\
    forall c, In c out <-> reach next seeds c.
  Proof. intros H. exact (loop_correct _ _ _ _ _ inv_init H). Qed.

  (** termination *)
  Theorem iterunion_terminates fuel : (iterunion_fuel <= fuel)%nat ->
    exists out, iterunion fuel seeds sortkey next = Ok out.
  Proof.
    intros Hf. unfold iterunion. apply loop_terminates; [exact inv_init|].
    rewrite map_length, pending_nil. exact Hf.
  Qed.

  Theorem iterunion_total fuel : (iterunion_fuel <= fuel)%nat ->
    exists out, iterunion fuel seeds sortkey next = Ok out /\
      StronglySorted (fun a b => sortkey a < sortkey b) out /\
      forall c, In c out <-> reach next seeds c.
  Proof.
    intros Hf. destruct (iterunion_terminates fuel Hf) as [out Ho].
    exists out. split; [exact Ho|]. exact (iterunion_correct fuel out Ho).
  Qed.
End IterUnion.

(** * Part 2: auxiliary facts *)

(** ** popcount and inclusion *)
Lemma mem_xO_0 p : mem (Z.pos p~0) 0 = false.
Proof. reflexivity. Qed.
Lemma mem_xI_0 p : mem (Z.pos p~1) 0 = true.
Proof. reflexivity. Qed.
Lemma mem_xO_S p i : mem (Z.pos p~0) (S i) = mem (Z.pos p) i.
Proof.
  unfold mem. rewrite Nat2Z.inj_succ. change (Z.pos p~0) with (2 * Z.pos p).
  apply Z.testbit_even_succ. lia.
Qed.
Lemma mem_xI_S p i : mem (Z.pos p~1) (S i) = mem (Z.pos p) i.
Proof.
  unfold mem. rewrite Nat2Z.inj_succ. change (Z.pos p~1) with (2 * Z.pos p + 1).
  apply Z.testbit_odd_succ. lia.
Qed.
Lemma mem_1_S i : mem 1 (S i) = false.
Proof.
  unfold mem. rewrite Nat2Z.inj_succ. change 1 with (2 * 0 + 1).
  rewrite Z.testbit_odd_succ by lia. apply Z.testbit_0_l.
Qed.

Lemma pos_has_bit p : exists i, mem (Z.pos p) i = true.
Proof. exists (ctz p). apply ctz_bit_true. Qed.

Lemma pos_count_pos p : (1 <= pos_count p)%nat.
Proof. induction p; cbn [pos_count]; lia. Qed.

Lemma pos_count_subset : forall p q, subset (Z.pos p) (Z.pos q) ->
  (pos_count p <= pos_count q)%nat /\ (pos_count p = pos_count q -> p = q).
Proof.
  induction p as [p IH|p IH|]; intros q H; destruct q as [q|q|]; cbn [pos_count].
  - assert (Hs : subset (Z.pos p) (Z.pos q)).
    { intros i Hi. rewrite <- mem_xI_S. apply H. rewrite mem_xI_S. exact Hi. }
    destruct (IH q Hs) as [Hle Heq]. split; [lia|]. intros E. f_equal. apply Heq. lia.
  - specialize (H O (mem_xI_0 p)). rewrite mem_xO_0 in H. discriminate.
  - destruct (pos_has_bit p) as [i Hi]. specialize (H (S i)). rewrite mem_xI_S, mem_1_S in H.
    specialize (H Hi). discriminate.
  - assert (Hs : subset (Z.pos p) (Z.pos q)).
    { intros i Hi. rewrite <- mem_xI_S. apply H. rewrite mem_xO_S. exact Hi. }
    destruct (IH q Hs) as [Hle Heq]. split; lia.
  - assert (Hs : subset (Z.pos p) (Z.pos q)).
    { intros i Hi. rewrite <- mem_xO_S. apply H. rewrite mem_xO_S. exact Hi. }
    destruct (IH q Hs) as [Hle Heq]. split; [lia|]. intros E. f_equal. apply Heq. lia.
  - destruct (pos_has_bit p) as [i Hi]. specialize (H (S i)). rewrite mem_xO_S, mem_1_S in H.
    specialize (H Hi). discriminate.
  - pose proof (pos_count_pos q). split; lia.
  - specialize (H O eq_refl). rewrite mem_xO_0 in H. discriminate.
  - split; [lia|reflexivity].
Qed.

Lemma count_subset_le a b : 0 <= a -> 0 <= b -> subset a b -> (count a <= count b)%nat.
Proof.
  intros Ha Hb H. destruct a as [|p|p]; [cbn; lia| |lia].
  destruct b as [|q|q]; [|exact (proj1 (pos_count_subset p q H))|lia].
  destruct (pos_has_bit p) as [i Hi]. specialize (H i Hi). rewrite mem_0 in H. discriminate.
Qed.

Lemma count_psubset_nonneg a b : 0 <= a -> 0 <= b -> psubset a b -> (count a < count b)%nat.
Proof.
  intros Ha Hb [H Hne]. destruct a as [|p|p]; [|destruct b as [|q|q]|lia].
  - destruct b as [|q|q]; [congruence| |lia]. cbn [count]. apply pos_count_pos.
  - destruct (pos_has_bit p) as [i Hi]. specialize (H i Hi). rewrite mem_0 in H. discriminate.
  - destruct (pos_count_subset p q H) as [Hle Heq]. cbn [count].
    destruct (Nat.eq_dec (pos_count p) (pos_count q)) as [E|E]; [|lia].
    exfalso. apply Hne. f_equal. apply Heq. exact E.
  - lia.
Qed.

Lemma count_psubset n a b : psubset a b -> in_range n a -> in_range n b -> (count a < count b)%nat.
Proof. intros H [Ha _] [Hb _]. apply count_psubset_nonneg; assumption. Qed.

(** ** keys *)
Lemma shortlex_lt_of_psubset r a b : 0 <= a -> 0 <= b -> psubset a b ->
  key_lt (shortlex r a) (shortlex r b).
Proof.
  intros Ha Hb H. pose proof (count_psubset_nonneg a b Ha Hb H).
  unfold key_lt, key_ltb, shortlex. cbn [fst snd]. lia.
Qed.

Lemma longlex_lt_of_psubset r a b : 0 <= a -> 0 <= b -> psubset a b ->
  key_lt (longlex r b) (longlex r a).
Proof.
  intros Ha Hb H. pose proof (count_psubset_nonneg a b Ha Hb H).
  unfold key_lt, key_ltb, longlex. cbn [fst snd]. lia.
Qed.

Lemma mem_reinverted r a i : (i < r)%nat -> mem (reinverted r a) (r - 1 - i) = negb (mem a i).
Proof.
  intros Hi. unfold reinverted. rewrite mem_of_pred.
  replace (r - 1 - (r - 1 - i))%nat with i by lia.
  destruct (Nat.ltb_spec (r - 1 - i) r); [reflexivity|lia].
Qed.

Lemma reinverted_inj r a b : in_range r a -> in_range r b -> reinverted r a = reinverted r b -> a = b.
Proof.
  intros Ha Hb E. apply (bitset_ext r); try assumption.
  intros i Hi. pose proof (mem_reinverted r a i Hi) as H1. pose proof (mem_reinverted r b i Hi) as H2.
  rewrite E in H1. rewrite H1 in H2. destruct (mem a i), (mem b i); cbn in H2; congruence.
Qed.

Lemma longlex_inj r a b : in_range r a -> in_range r b ->
  ~ key_lt (longlex r a) (longlex r b) -> ~ key_lt (longlex r b) (longlex r a) -> a = b.
Proof.
  intros Ha Hb N1 N2. apply (reinverted_inj r); try assumption.
  unfold key_lt, key_ltb, longlex in N1, N2. cbn [fst snd] in N1, N2. lia.
Qed.

(** ** sorted lists *)
Lemma StronglySorted_nth {A} (R : A -> A -> Prop) (d : A) l : StronglySorted R l ->
  forall i j, (i < j < length l)%nat -> R (nth i l d) (nth j l d).
Proof.
  induction 1 as [|a l Hs IH Hf]; intros i j Hij; cbn [length] in Hij; [lia|].
  destruct j as [|j]; [lia|]. destruct i as [|i]; cbn [nth].
  - rewrite Forall_forall in Hf. apply Hf. apply nth_In. lia.
  - apply IH. lia.
Qed.

Lemma StronglySorted_impl {A} (R R' : A -> A -> Prop) l :
  (forall a b, In a l -> In b l -> R a b -> R' a b) -> StronglySorted R l -> StronglySorted R' l.
Proof.
  intros H Hs. induction Hs as [|a l Hs IH Hf]; [constructor|].
  constructor.
  - apply IH. intros x y Hx Hy. apply H; right; assumption.
  - rewrite Forall_forall in *. intros x Hx. apply H; [left; reflexivity|right; exact Hx|apply Hf; exact Hx].
Qed.

Lemma StronglySorted_filter' {A} (R : A -> A -> Prop) f l :
  StronglySorted R l -> StronglySorted R (filter f l).
Proof.
  induction 1 as [|a l Hs IH Hf]; cbn [filter]; [constructor|].
  destruct (f a); [|exact IH]. constructor; [exact IH|].
  rewrite Forall_forall in *. intros x Hx. apply filter_In in Hx. apply Hf. tauto.
Qed.

Lemma StronglySorted_seq a n : StronglySorted lt (seq a n).
Proof.
  revert a; induction n as [|n IH]; intros a; cbn [seq]; constructor; [apply IH|].
  apply Forall_forall. intros x Hx. apply in_seq in Hx. lia.
Qed.

Lemma StronglySorted_NoDup {A} (R : A -> A -> Prop) l :
  (forall a, ~ R a a) -> StronglySorted R l -> NoDup l.
Proof.
  intros Hirr. induction 1 as [|a l Hs IH Hf]; constructor; [|exact IH].
  intros Hin. rewrite Forall_forall in Hf. exact (Hirr a (Hf a Hin)).
Qed.

Lemma sorted_lt_unique : forall l1 l2, StronglySorted lt l1 -> StronglySorted lt l2 ->
  (forall x, In x l1 <-> In x l2) -> l1 = l2.
Proof.
  induction l1 as [|a l1 IH]; intros l2 S1 S2 H.
  - destruct l2 as [|b l2]; [reflexivity|]. destruct (proj2 (H b) (or_introl eq_refl)).
  - destruct l2 as [|b l2]; [destruct (proj1 (H a) (or_introl eq_refl))|].
    apply StronglySorted_inv in S1. destruct S1 as [S1 F1].
    apply StronglySorted_inv in S2. destruct S2 as [S2 F2].
    rewrite Forall_forall in F1, F2.
    assert (a = b) as ->.
    { destruct (proj1 (H a) (or_introl eq_refl)) as [E|Ha]; [congruence|].
      destruct (proj2 (H b) (or_introl eq_refl)) as [E|Hb]; [congruence|].
      specialize (F1 b Hb). specialize (F2 a Ha). lia. }
    f_equal. apply IH; try assumption.
    intros x. split; intros Hx.
    + destruct (proj1 (H x) (or_intror Hx)) as [E|Hx2]; [|exact Hx2]. specialize (F1 x Hx). lia.
    + destruct (proj2 (H x) (or_intror Hx)) as [E|Hx1]; [|exact Hx1]. specialize (F2 x Hx). lia.
Qed.

Lemma map_nth_seq {A B} (f : A -> B) (d : A) l :
  map (fun i => f (nth i l d)) (seq 0 (length l)) = map f l.
Proof.
  induction l as [|a l IH]; [reflexivity|].
  cbn [length seq map nth]. f_equal. rewrite <- seq_shift, map_map. exact IH.
Qed.

(** reachability from a list of seeds is reachability from one of them *)
Lemma reach_from_one next seeds c :
  reach next seeds c <-> exists s, In s seeds /\ reach next [s] c.
Proof.
  split.
  - induction 1 as [c Hc|c d Hr IH Hd].
    + exists c. split; [exact Hc|]. apply reach_seed. left. reflexivity.
    + destruct IH as [s [Hs Hr']]. exists s. split; [exact Hs|]. apply reach_step with (c := c); assumption.
  - intros [s [Hs Hr]]. induction Hr as [c Hc|c d Hr IH Hd].
    + destruct Hc as [<-|[]]. apply reach_seed. exact Hs.
    + apply reach_step with (c := c); assumption.
Qed.

(** * Part 2: the lattice instances *)

Definition lat_size (L : lattice) : nat := length (l_concepts L).
Definition ext_at (L : lattice) (i : nat) : Z := nth_extent (l_exts L) i.
Definition up_key (L : lattice) (i : nat) : Z := Z.of_nat (c_index (get_concept L i)).
Definition up_next (L : lattice) (i : nat) : list nat := c_upper (get_concept L i).
Definition down_key (L : lattice) (i : nat) : Z := Z.of_nat (c_dindex (get_concept L i)).
Definition down_next (L : lattice) (i : nat) : list nat := c_lower (get_concept L i).
Definition dindex_at (L : lattice) (i : nat) : nat := c_dindex (get_concept L i).

Section LatticeFacts.
  Variables (c : ctx) (L : lattice).
  Hypothesis OK : lattice_ok c L.

  Notation n := (lat_size L).
  Notation E := (ext_at L).

  Lemma exts_length : length (l_exts L) = n.
  Proof. rewrite (ok_exts _ _ OK), map_length. reflexivity. Qed.

  Lemma concept_at_lt i x : concept_at L i x -> (i < n)%nat.
  Proof. intros H. apply nth_error_Some. unfold concept_at in H. congruence. Qed.

  Lemma concept_at_get i x : concept_at L i x -> get_concept L i = x.
  Proof. intros H. unfold get_concept. apply nth_error_nth. exact H. Qed.

  Lemma lt_concept_at i : (i < n)%nat -> concept_at L i (get_concept L i).
  Proof. intros H. unfold concept_at, get_concept. apply nth_error_nth'. exact H. Qed.

  Lemma ext_at_get i : E i = c_extent (get_concept L i).
  Proof.
    unfold ext_at, nth_extent, get_concept. rewrite (ok_exts _ _ OK).
    change 0 with (c_extent (mkConcept 0 0 [] [] 0 0 [] [] [])) at 1.
    apply map_nth.
  Qed.

  Lemma concept_at_ext i x : concept_at L i x -> E i = c_extent x.
  Proof. intros H. rewrite ext_at_get, (concept_at_get i x H). reflexivity. Qed.

  Lemma E_in i : (i < n)%nat -> In (E i) (l_exts L).
  Proof. intros H. unfold ext_at, nth_extent. apply nth_In. rewrite exts_length. exact H. Qed.

  Lemma E_closed i : (i < n)%nat -> closedO c (E i).
  Proof. intros H. apply (ok_complete _ _ OK). apply E_in. exact H. Qed.

  Lemma E_nonneg i : (i < n)%nat -> 0 <= E i.
  Proof. intros H. exact (proj1 (proj1 (E_closed i H))). Qed.

  Lemma E_complete A : closedO c A -> exists i, (i < n)%nat /\ E i = A.
  Proof.
    intros H. apply (ok_complete _ _ OK) in H. apply (In_nth _ _ 0) in H.
    destruct H as [i [Hi Ei]]. exists i. rewrite exts_length in Hi. split; assumption.
  Qed.

  Lemma E_inj i j : (i < n)%nat -> (j < n)%nat -> E i = E j -> i = j.
  Proof.
    intros Hi Hj. rewrite <- exts_length in Hi, Hj.
    exact (proj1 (NoDup_nth (l_exts L) 0) (ok_nodup _ _ OK) i j Hi Hj).
  Qed.

  Lemma E_sorted i j : (i < j < n)%nat ->
    key_lt (shortlex (nG c) (E i)) (shortlex (nG c) (E j)).
  Proof.
    intros H. rewrite <- exts_length in H.
    exact (StronglySorted_nth _ 0 _ (ok_sorted _ _ OK) i j H).
  Qed.

  Lemma E_lt i j : (i < n)%nat -> (j < n)%nat -> psubset (E i) (E j) -> (i < j)%nat.
  Proof.
    intros Hi Hj Hp.
    pose proof (shortlex_lt_of_psubset (nG c) _ _ (E_nonneg i Hi) (E_nonneg j Hj) Hp) as Hk.
    destruct (Nat.lt_trichotomy i j) as [H|[H|H]]; [exact H| |].
    - subst j. destruct Hp as [_ Hne]. congruence.
    - pose proof (E_sorted j i (conj H Hi)) as Hk'. unfold key_lt in *.
      pose proof (key_ltb_trans _ _ _ Hk Hk') as Ht. rewrite key_ltb_irrefl in Ht. discriminate.
  Qed.

  Lemma up_key_eq i : (i < n)%nat -> up_key L i = Z.of_nat i.
  Proof.
    intros H. unfold up_key. rewrite (ok_index _ _ OK i _ (lt_concept_at i H)). reflexivity.
  Qed.

  Lemma up_next_spec i j : (i < n)%nat ->
    (In j (up_next L i) <-> (j < n)%nat /\ covers c (E i) (E j)).
  Proof.
    intros Hi. unfold up_next. rewrite (ok_upper _ _ OK i _ j (lt_concept_at i Hi)).
    rewrite <- ext_at_get. split.
    - intros [y [Hy Hc]]. split; [exact (concept_at_lt j y Hy)|].
      rewrite (concept_at_ext j y Hy). exact Hc.
    - intros [Hj Hc]. exists (get_concept L j). split; [exact (lt_concept_at j Hj)|].
      rewrite <- ext_at_get. exact Hc.
  Qed.

  Lemma down_next_spec i j : (i < n)%nat ->
    (In j (down_next L i) <-> (j < n)%nat /\ covers c (E j) (E i)).
  Proof.
    intros Hi. unfold down_next. rewrite (ok_lower _ _ OK i _ j (lt_concept_at i Hi)).
    rewrite <- ext_at_get. split.
    - intros [y [Hy Hc]]. split; [exact (concept_at_lt j y Hy)|].
      rewrite (concept_at_ext j y Hy). exact Hc.
    - intros [Hj Hc]. exists (get_concept L j). split; [exact (lt_concept_at j Hj)|].
      rewrite <- ext_at_get. exact Hc.
  Qed.

  Lemma dindex_spec i j : (i < n)%nat -> (j < n)%nat ->
    ((dindex_at L i < dindex_at L j)%nat <->
     key_lt (longlex (nG c) (E i)) (longlex (nG c) (E j))).
  Proof.
    intros Hi Hj. rewrite !ext_at_get.
    exact (ok_dindex _ _ OK i _ j _ (lt_concept_at i Hi) (lt_concept_at j Hj)).
  Qed.

  Lemma dindex_inj i j : (i < n)%nat -> (j < n)%nat -> dindex_at L i = dindex_at L j -> i = j.
  Proof.
    intros Hi Hj Heq. apply E_inj; try assumption.
    apply (longlex_inj (nG c)); [exact (proj1 (E_closed i Hi))|exact (proj1 (E_closed j Hj))| |].
    - rewrite <- (dindex_spec i j Hi Hj). lia.
    - rewrite <- (dindex_spec j i Hj Hi). lia.
  Qed.

  Lemma dindex_lt_of_psubset i j : (i < n)%nat -> (j < n)%nat -> psubset (E j) (E i) ->
    (dindex_at L i < dindex_at L j)%nat.
  Proof.
    intros Hi Hj Hp. apply (dindex_spec i j Hi Hj).
    apply longlex_lt_of_psubset; [exact (E_nonneg j Hj)|exact (E_nonneg i Hi)|exact Hp].
  Qed.

  (** ** covers exist in the finite lattice *)
  Lemma psubset_bool a b : 0 <= a ->
    (subsetb a b && negb (a =? b) = true <-> psubset a b).
  Proof.
    intros Ha. unfold psubset. rewrite andb_true_iff, (subsetb_spec a b Ha). split.
    - intros [H1 H2]. split; [exact H1|lia].
    - intros [H1 H2]. split; [exact H1|lia].
  Qed.

  Lemma between_dec A B : closedO c A -> closedO c B -> psubset A B ->
    (exists F, closedO c F /\ psubset A F /\ psubset F B) \/ covers c A B.
  Proof.
    intros HA HB Hp.
    set (test := fun F => (subsetb A F && negb (A =? F)) && (subsetb F B && negb (F =? B))).
    destruct (existsb test (l_exts L)) eqn:Ex.
    - left. apply existsb_exists in Ex. destruct Ex as [F [HF Ht]].
      assert (HFc : closedO c F) by (apply (ok_complete _ _ OK); exact HF).
      unfold test in Ht. apply andb_true_iff in Ht. destruct Ht as [T1 T2].
      apply (psubset_bool A F (proj1 (proj1 HA))) in T1.
      apply (psubset_bool F B (proj1 (proj1 HFc))) in T2.
      exists F. split; [exact HFc|]. split; assumption.
    - right. split; [exact HA|]. split; [exact HB|]. split; [exact Hp|].
      intros F HFc H1 H2.
      destruct (Z.eq_dec F A) as [EA|NA]; [left; exact EA|].
      destruct (Z.eq_dec F B) as [EB|NB]; [right; exact EB|].
      exfalso. assert (Ht : existsb test (l_exts L) = true); [|congruence].
      apply existsb_exists. exists F. split; [apply (ok_complete _ _ OK); exact HFc|].
      unfold test. apply andb_true_iff. split.
      + apply (psubset_bool A F (proj1 (proj1 HA))). split; [exact H1|congruence].
      + apply (psubset_bool F B (proj1 (proj1 HFc))). split; [exact H2|congruence].
  Qed.

  Lemma closed_count_lt A B : closedO c A -> closedO c B -> psubset A B -> (count A < count B)%nat.
  Proof. intros [HA _] [HB _] Hp. exact (count_psubset _ _ _ Hp HA HB). Qed.

  Lemma psubset_subset a b : psubset a b -> subset a b.
  Proof. intros [H _]. exact H. Qed.

  (** an upper cover of A below B *)
  Lemma exists_cover_between A B : closedO c A -> closedO c B -> psubset A B ->
    exists C, covers c A C /\ subset C B.
  Proof.
    intros HA. remember (count B - count A)%nat as k eqn:Ek.
    assert (Hk : (count B - count A <= k)%nat) by lia. clear Ek.
    revert B Hk. induction k as [|k IH]; intros B Hk HB Hp.
    - pose proof (closed_count_lt A B HA HB Hp). lia.
    - destruct (between_dec A B HA HB Hp) as [[F (HF & P1 & P2)]|Hc].
      + pose proof (closed_count_lt A F HA HF P1). pose proof (closed_count_lt F B HF HB P2).
        destruct (IH F ltac:(lia) HF P1) as [C [Hc Hs]].
        exists C. split; [exact Hc|]. eapply subset_trans; [exact Hs|exact (psubset_subset _ _ P2)].
      + exists B. split; [exact Hc|apply subset_refl].
  Qed.

  (** a lower cover of B above A *)
  Lemma exists_cocover_between A B : closedO c A -> closedO c B -> psubset A B ->
    exists C, covers c C B /\ subset A C.
  Proof.
    intros HA HB. remember (count B - count A)%nat as k eqn:Ek.
    assert (Hk : (count B - count A <= k)%nat) by lia. clear Ek.
    revert A HA Hk. induction k as [|k IH]; intros A HA Hk Hp.
    - pose proof (closed_count_lt A B HA HB Hp). lia.
    - destruct (between_dec A B HA HB Hp) as [[F (HF & P1 & P2)]|Hc].
      + pose proof (closed_count_lt A F HA HF P1). pose proof (closed_count_lt F B HF HB P2).
        destruct (IH F HF ltac:(lia) P2) as [C [Hc Hs]].
        exists C. split; [exact Hc|]. eapply subset_trans; [exact (psubset_subset _ _ P1)|exact Hs].
      + exists A. split; [exact Hc|apply subset_refl].
  Qed.
End LatticeFacts.

Definition edges_up (L : lattice) : nat := list_sum (map (fun x => length (c_upper x)) (l_concepts L)).
Definition edges_down (L : lattice) : nat := list_sum (map (fun x => length (c_lower x)) (l_concepts L)).

Section Instances.
  Variables (c : ctx) (L : lattice).
  Hypothesis OK : lattice_ok c L.

  Notation n := (lat_size L).
  Notation E := (ext_at L).

  Lemma covers_subset A B : covers c A B -> subset A B.
  Proof. intros (_ & _ & [H _] & _). exact H. Qed.
  Lemma covers_psubset A B : covers c A B -> psubset A B.
  Proof. intros (_ & _ & H & _). exact H. Qed.

  (** ** reachability along upper covers = being above *)
  Lemma reach_up_sound i j : (i < n)%nat -> reach (up_next L) [i] j ->
    (j < n)%nat /\ subset (E i) (E j).
  Proof.
    intros Hi. induction 1 as [j Hj|a d Hr IH Hd].
    - destruct Hj as [<-|[]]. split; [exact Hi|apply subset_refl].
    - destruct IH as [Ha Hs]. apply (up_next_spec c L OK a d Ha) in Hd. destruct Hd as [Hd Hc].
      split; [exact Hd|]. eapply subset_trans; [exact Hs|exact (covers_subset _ _ Hc)].
  Qed.

  Lemma reach_up_complete i j : (i < n)%nat -> (j < n)%nat -> subset (E i) (E j) ->
    reach (up_next L) [i] j.
  Proof.
    intros Hi Hj Hs.
    assert (G : forall k a, (count (E j) - count (E a) <= k)%nat -> (a < n)%nat ->
                reach (up_next L) [i] a -> subset (E a) (E j) -> reach (up_next L) [i] j).
    { induction k as [|k IH]; intros a Hk Ha Hr Hsa;
        (destruct (Z.eq_dec (E a) (E j)) as [Eq|Ne];
         [rewrite <- (E_inj c L OK a j Ha Hj Eq); exact Hr|]);
        assert (Hp : psubset (E a) (E j)) by (split; assumption);
        pose proof (closed_count_lt c _ _ (E_closed c L OK a Ha) (E_closed c L OK j Hj) Hp) as Hlt.
      - lia.
      - destruct (exists_cover_between c L OK _ _ (E_closed c L OK a Ha) (E_closed c L OK j Hj) Hp)
          as [C [Hc HsC]].
        assert (HC : closedO c C) by (destruct Hc as (_ & HC & _); exact HC).
        destruct (E_complete c L OK C HC) as [d [Hd Ed]]. subst C.
        pose proof (closed_count_lt c _ _ (E_closed c L OK a Ha) HC (covers_psubset _ _ Hc)) as Hlt2.
        apply (IH d); [lia|exact Hd| |exact HsC].
        apply reach_step with (c := a); [exact Hr|].
        apply (up_next_spec c L OK a d Ha). split; assumption. }
    apply (G _ i (le_n _) Hi); [apply reach_seed; left; reflexivity|exact Hs].
  Qed.

  Lemma reach_up_iff seeds j : (forall s, In s seeds -> (s < n)%nat) ->
    (reach (up_next L) seeds j <-> (j < n)%nat /\ exists i, In i seeds /\ subset (E i) (E j)).
  Proof.
    intros Hseeds. rewrite reach_from_one. split.
    - intros [s [Hs Hr]]. destruct (reach_up_sound s j (Hseeds s Hs) Hr) as [Hj Hsub].
      split; [exact Hj|]. exists s. split; assumption.
    - intros [Hj [i [Hi Hsub]]]. exists i. split; [exact Hi|].
      apply reach_up_complete; [apply Hseeds; exact Hi|exact Hj|exact Hsub].
  Qed.

  (** ** reachability along lower covers = being below *)
  Lemma reach_down_sound i j : (i < n)%nat -> reach (down_next L) [i] j ->
    (j < n)%nat /\ subset (E j) (E i).
  Proof.
    intros Hi. induction 1 as [j Hj|a d Hr IH Hd].
    - destruct Hj as [<-|[]]. split; [exact Hi|apply subset_refl].
    - destruct IH as [Ha Hs]. apply (down_next_spec c L OK a d Ha) in Hd. destruct Hd as [Hd Hc].
      split; [exact Hd|]. eapply subset_trans; [exact (covers_subset _ _ Hc)|exact Hs].
  Qed.

  Lemma reach_down_complete i j : (i < n)%nat -> (j < n)%nat -> subset (E j) (E i) ->
    reach (down_next L) [i] j.
  Proof.
    intros Hi Hj Hs.
    assert (G : forall k a, (count (E a) - count (E j) <= k)%nat -> (a < n)%nat ->
                reach (down_next L) [i] a -> subset (E j) (E a) -> reach (down_next L) [i] j).
    { induction k as [|k IH]; intros a Hk Ha Hr Hsa;
        (destruct (Z.eq_dec (E a) (E j)) as [Eq|Ne];
         [rewrite <- (E_inj c L OK a j Ha Hj Eq); exact Hr|]);
        assert (Hp : psubset (E j) (E a)) by (split; [assumption|congruence]);
        pose proof (closed_count_lt c _ _ (E_closed c L OK j Hj) (E_closed c L OK a Ha) Hp) as Hlt.
      - lia.
      - destruct (exists_cocover_between c L OK _ _ (E_closed c L OK j Hj) (E_closed c L OK a Ha) Hp)
          as [C [Hc HsC]].
        assert (HC : closedO c C) by (destruct Hc as (HC & _); exact HC).
        destruct (E_complete c L OK C HC) as [d [Hd Ed]]. subst C.
        pose proof (closed_count_lt c _ _ HC (E_closed c L OK a Ha) (covers_psubset _ _ Hc)) as Hlt2.
        apply (IH d); [lia|exact Hd| |exact HsC].
        apply reach_step with (c := a); [exact Hr|].
        apply (down_next_spec c L OK a d Ha). split; assumption. }
    apply (G _ i (le_n _) Hi); [apply reach_seed; left; reflexivity|exact Hs].
  Qed.

  Lemma reach_down_iff seeds j : (forall s, In s seeds -> (s < n)%nat) ->
    (reach (down_next L) seeds j <-> (j < n)%nat /\ exists i, In i seeds /\ subset (E j) (E i)).
  Proof.
    intros Hseeds. rewrite reach_from_one. split.
    - intros [s [Hs Hr]]. destruct (reach_down_sound s j (Hseeds s Hs) Hr) as [Hj Hsub].
      split; [exact Hj|]. exists s. split; assumption.
    - intros [Hj [i [Hi Hsub]]]. exists i. split; [exact Hi|].
      apply reach_down_complete; [apply Hseeds; exact Hi|exact Hj|exact Hsub].
  Qed.

  (** ** the traversal hypotheses hold for both directions, with nodes = all indices *)
  Lemma up_H1 : forall a, In a (seq 0 n) -> 0 <= up_key L a.
  Proof. intros a _. unfold up_key. lia. Qed.
  Lemma up_H2 : forall a b, In a (seq 0 n) -> In b (seq 0 n) -> up_key L a = up_key L b -> a = b.
  Proof.
    intros a b Ha Hb. apply in_seq in Ha, Hb.
    rewrite (up_key_eq c L OK a), (up_key_eq c L OK b) by lia. lia.
  Qed.
  Lemma up_H3 : forall a b, In a (seq 0 n) -> In b (up_next L a) ->
    In b (seq 0 n) /\ up_key L a < up_key L b.
  Proof.
    intros a b Ha Hb. apply in_seq in Ha. assert (Ha' : (a < n)%nat) by lia.
    apply (up_next_spec c L OK a b Ha') in Hb. destruct Hb as [Hb Hc].
    split; [apply in_seq; lia|].
    rewrite (up_key_eq c L OK a Ha'), (up_key_eq c L OK b Hb).
    pose proof (E_lt c L OK a b Ha' Hb (covers_psubset _ _ Hc)). lia.
  Qed.

  Lemma down_H1 : forall a, In a (seq 0 n) -> 0 <= down_key L a.
  Proof. intros a _. unfold down_key. lia. Qed.
  Lemma down_H2 : forall a b, In a (seq 0 n) -> In b (seq 0 n) -> down_key L a = down_key L b -> a = b.
  Proof.
    intros a b Ha Hb Heq. apply in_seq in Ha, Hb.
    apply (dindex_inj c L OK a b); [lia|lia|]. unfold down_key in Heq. unfold dindex_at. lia.
  Qed.
  Lemma down_H3 : forall a b, In a (seq 0 n) -> In b (down_next L a) ->
    In b (seq 0 n) /\ down_key L a < down_key L b.
  Proof.
    intros a b Ha Hb. apply in_seq in Ha. assert (Ha' : (a < n)%nat) by lia.
    apply (down_next_spec c L OK a b Ha') in Hb. destruct Hb as [Hb Hc].
    split; [apply in_seq; lia|].
    pose proof (dindex_lt_of_psubset c L OK a b Ha' Hb (covers_psubset _ _ Hc)) as H.
    unfold dindex_at in H. unfold down_key. lia.
  Qed.

  Lemma seeds_H4 seeds : (forall s, In s seeds -> (s < n)%nat) -> forall s, In s seeds -> In s (seq 0 n).
  Proof. intros H s Hs. apply in_seq. specialize (H s Hs). lia. Qed.

  Lemma up_fuel_eq seeds : iterunion_fuel (up_next L) (seq 0 n) seeds = (length seeds + edges_up L)%nat.
  Proof.
    unfold iterunion_fuel, edges_up, up_next, get_concept, lat_size. f_equal. f_equal.
    apply (map_nth_seq (fun x => length (c_upper x))).
  Qed.
  Lemma down_fuel_eq seeds : iterunion_fuel (down_next L) (seq 0 n) seeds = (length seeds + edges_down L)%nat.
  Proof.
    unfold iterunion_fuel, edges_down, down_next, get_concept, lat_size. f_equal. f_equal.
    apply (map_nth_seq (fun x => length (c_lower x))).
  Qed.

  (** ** general statements for an arbitrary list of valid seeds *)
  Theorem up_general fuel seeds :
    (forall s, In s seeds -> (s < n)%nat) -> (length seeds + edges_up L <= fuel)%nat ->
    exists out, iterunion fuel seeds (up_key L) (up_next L) = Ok out /\
      StronglySorted lt out /\
      forall j, In j out <-> (j < n)%nat /\ exists i, In i seeds /\ subset (E i) (E j).
  Proof.
    intros Hseeds Hf.
    destruct (iterunion_total (up_key L) (up_next L) (seq 0 n) seeds up_H1 up_H2 up_H3
                (seeds_H4 seeds Hseeds) fuel) as [out (Ho & Hs & Hm)].
    { rewrite up_fuel_eq. exact Hf. }
    assert (Hm' : forall j, In j out <-> (j < n)%nat /\ exists i, In i seeds /\ subset (E i) (E j)).
    { intros j. rewrite Hm. apply reach_up_iff. exact Hseeds. }
    exists out. split; [exact Ho|]. split; [|exact Hm'].
    apply (StronglySorted_impl (fun a b => up_key L a < up_key L b)); [|exact Hs].
    intros a b Ha Hb H. apply Hm' in Ha, Hb.
    rewrite (up_key_eq c L OK a (proj1 Ha)), (up_key_eq c L OK b (proj1 Hb)) in H. lia.
  Qed.

  Theorem down_general fuel seeds :
    (forall s, In s seeds -> (s < n)%nat) -> (length seeds + edges_down L <= fuel)%nat ->
    exists out, iterunion fuel seeds (down_key L) (down_next L) = Ok out /\
      StronglySorted (fun a b => (dindex_at L a < dindex_at L b)%nat) out /\
      NoDup out /\
      forall j, In j out <-> (j < n)%nat /\ exists i, In i seeds /\ subset (E j) (E i).
  Proof.
    intros Hseeds Hf.
    destruct (iterunion_total (down_key L) (down_next L) (seq 0 n) seeds down_H1 down_H2 down_H3
                (seeds_H4 seeds Hseeds) fuel) as [out (Ho & Hs & Hm)].
    { rewrite down_fuel_eq. exact Hf. }
    assert (Hs' : StronglySorted (fun a b => (dindex_at L a < dindex_at L b)%nat) out).
    { apply (StronglySorted_impl (fun a b => down_key L a < down_key L b)); [|exact Hs].
      intros a b _ _ H. unfold down_key in H. unfold dindex_at. lia. }
    exists out. split; [exact Ho|]. split; [exact Hs'|]. split.
    - apply (StronglySorted_NoDup _ _ (fun a => Nat.lt_irrefl (dindex_at L a)) Hs').
    - intros j. rewrite Hm. apply reach_down_iff. exact Hseeds.
  Qed.
End Instances.

(** ** tools.maximal *)
Lemma dedup_In l : forall seen x, In x (dedup l seen) <-> In x l /\ ~ In x seen.
Proof.
  induction l as [|a l IH]; intros seen x; cbn [dedup].
  - split; [intros []|intros [[] _]].
  - destruct (existsb (Nat.eqb a) seen) eqn:Ex.
    + rewrite IH. apply existsb_eqb_In in Ex.
      split; [intros [H1 H2]; split; [right; exact H1|exact H2]|].
      intros [[<-|H1] H2]; [contradiction|split; assumption].
    + assert (Hn : ~ In a seen) by (intros H; apply existsb_eqb_In in H; congruence).
      cbn [In]. rewrite IH. split.
      * intros [<-|[H1 H2]]; [split; [left; reflexivity|exact Hn]|].
        split; [right; exact H1|]. intros H3. apply H2. right. exact H3.
      * intros [[<-|H1] H2]; [left; reflexivity|].
        destruct (Nat.eq_dec a x) as [->|Hne]; [left; reflexivity|].
        right. split; [exact H1|]. intros [H3|H3]; contradiction.
Qed.

Lemma dedup_length l : forall seen, (length (dedup l seen) <= length l)%nat.
Proof.
  induction l as [|a l IH]; intros seen; cbn [dedup length]; [lia|].
  destruct (existsb (Nat.eqb a) seen); [specialize (IH seen); lia|].
  cbn [length]. specialize (IH (a :: seen)). lia.
Qed.

Lemma filter_length_le' {A} (f : A -> bool) l : (length (filter f l) <= length l)%nat.
Proof. induction l as [|a l IH]; cbn [filter length]; [lia|]. destruct (f a); cbn [length]; lia. Qed.

Lemma maximal_length cmp l : (length (maximal cmp l) <= length l)%nat.
Proof.
  unfold maximal. pose proof (dedup_length l []) as H.
  destruct (dedup l []) as [|p [|q r]]; try exact H.
  eapply Nat.le_trans; [apply filter_length_le'|exact H].
Qed.

Lemma maximal_In cmp items a : In a (maximal cmp items) -> In a items.
Proof.
  unfold maximal. remember (dedup items []) as s eqn:Es.
  assert (Hs : forall a, In a s -> In a items).
  { intros b Hb. subst s. apply dedup_In in Hb. tauto. }
  clear Es. destruct s as [|p [|q r]]; try apply Hs.
  intros H. apply filter_In in H. apply Hs. tauto.
Qed.

Lemma maximal_keep cmp items a : In a items ->
  existsb (fun b => negb (Nat.eqb a b) && cmp a b) (dedup items []) = false ->
  In a (maximal cmp items).
Proof.
  intros Ha Hex. unfold maximal. remember (dedup items []) as s eqn:Es.
  assert (Hs : In a s) by (subst s; apply dedup_In; split; [exact Ha|intros []]).
  clear Es. destruct s as [|p [|q r]]; try exact Hs.
  apply filter_In. split; [exact Hs|]. rewrite Hex. reflexivity.
Qed.

Lemma maximal_dominates cmp (P : nat -> nat -> Prop) (m : nat -> nat) items :
  (forall a, P a a) -> (forall a b d, P a b -> P b d -> P a d) ->
  (forall a b, In a items -> In b items -> cmp a b = true -> P b a /\ (m b < m a)%nat) ->
  forall a, In a items -> exists s, In s (maximal cmp items) /\ P s a.
Proof.
  intros Prefl Ptrans Hcmp.
  assert (G : forall k a, (m a <= k)%nat -> In a items -> exists s, In s (maximal cmp items) /\ P s a).
  { induction k as [|k IH]; intros a Hk Ha;
      (destruct (existsb (fun b => negb (Nat.eqb a b) && cmp a b) (dedup items [])) eqn:Ex;
       [|exists a; split; [apply maximal_keep; assumption|apply Prefl]]);
      apply existsb_exists in Ex; destruct Ex as [b [Hb Hab]];
      apply dedup_In in Hb; destruct Hb as [Hb _];
      apply andb_true_iff in Hab; destruct Hab as [_ Hab];
      destruct (Hcmp a b Ha Hb Hab) as [HP Hm].
    - lia.
    - destruct (IH b ltac:(lia) Hb) as [s [Hs HPs]]. exists s. split; [exact Hs|].
      eapply Ptrans; [exact HPs|exact HP]. }
  intros a Ha. exact (G (m a) a (le_n _) Ha).
Qed.

(** * Part 2: final statements *)
Section Final.
  Variables (c : ctx) (L : lattice).
  Hypothesis OK : lattice_ok c L.

  Notation n := (lat_size L).
  Notation E := (ext_at L).

  Theorem upset_spec fuel i x :
    concept_at L i x -> (1 + edges_up L <= fuel)%nat ->
    upset fuel L i =
    Ok (filter (fun j => subsetb (c_extent x) (nth_extent (l_exts L) j)) (seq 0 (length (l_concepts L)))).
  Proof.
    intros Hx Hf. pose proof (concept_at_lt L i x Hx) as Hi.
    destruct (up_general c L OK fuel [i]) as [out (Ho & Hs & Hm)].
    { intros s [<-|[]]. exact Hi. }
    { exact Hf. }
    change (upset fuel L i) with (iterunion fuel [i] (up_key L) (up_next L)). rewrite Ho. f_equal.
    apply sorted_lt_unique; [exact Hs|apply StronglySorted_filter', StronglySorted_seq|].
    intros j. rewrite Hm, filter_In, in_seq. rewrite <- (concept_at_ext c L OK i x Hx).
    fold (ext_at L j). fold (lat_size L).
    rewrite (subsetb_spec _ _ (E_nonneg c L OK i Hi)). split.
    - intros [Hj [i' [[<-|[]] Hsub]]]. split; [lia|exact Hsub].
    - intros [Hj Hsub]. split; [lia|]. exists i. split; [left; reflexivity|exact Hsub].
  Qed.

  Theorem downset_spec fuel i x :
    concept_at L i x -> (1 + edges_down L <= fuel)%nat ->
    exists out, downset fuel L i = Ok out /\
      StronglySorted (fun a b => (c_dindex (get_concept L a) < c_dindex (get_concept L b))%nat) out /\
      NoDup out /\
      forall j, In j out <->
        (j < length (l_concepts L))%nat /\ subset (nth_extent (l_exts L) j) (c_extent x).
  Proof.
    intros Hx Hf. pose proof (concept_at_lt L i x Hx) as Hi.
    destruct (down_general c L OK fuel [i]) as [out (Ho & Hs & Hnd & Hm)].
    { intros s [<-|[]]. exact Hi. }
    { exact Hf. }
    exists out. split; [exact Ho|]. split; [exact Hs|]. split; [exact Hnd|].
    intros j. rewrite Hm. rewrite <- (concept_at_ext c L OK i x Hx). fold (ext_at L j). split.
    - intros [Hj [i' [[<-|[]] Hsub]]]. split; assumption.
    - intros [Hj Hsub]. split; [exact Hj|]. exists i. split; [left; reflexivity|exact Hsub].
  Qed.

  (** the comparison functions handed to [maximal] *)
  Definition cmp_up (a b : nat) : bool :=
    ok_true (properly_subsumes (c_extent (get_concept L a)) (c_extent (get_concept L b))
                               (ones (nG (mc (l_k L))))).
  Definition cmp_down (a b : nat) : bool :=
    ok_true (properly_implies (c_extent (get_concept L a)) (c_extent (get_concept L b))
                              (ones (nG (mc (l_k L))))).

  Lemma cmp_up_spec a b : (a < n)%nat -> (b < n)%nat -> (cmp_up a b = true <-> psubset (E b) (E a)).
  Proof.
    intros Ha Hb. unfold cmp_up, properly_subsumes, ok_true. rewrite <- !(ext_at_get c L OK).
    pose proof (E_nonneg c L OK a Ha) as Na. pose proof (E_nonneg c L OK b Hb) as Nb.
    unfold psubset. rewrite andb_true_iff, (supersetb_spec _ _ Na Nb). split.
    - intros [H1 H2]. split; [exact H1|lia].
    - intros [H1 H2]. split; [exact H1|lia].
  Qed.

  Lemma cmp_down_spec a b : (a < n)%nat -> (b < n)%nat -> (cmp_down a b = true <-> psubset (E a) (E b)).
  Proof.
    intros Ha Hb. unfold cmp_down, properly_implies, ok_true. rewrite <- !(ext_at_get c L OK).
    pose proof (E_nonneg c L OK a Ha) as Na.
    fold (subsetb (E a) (E b)). apply psubset_bool. exact Na.
  Qed.

  Section Unions.
    Variable cs : list nat.
    Hypothesis Hcs : forall i, In i cs -> (i < n)%nat.

    Lemma seeds_up_valid s : In s (maximal cmp_up cs) -> (s < n)%nat.
    Proof. intros H. apply Hcs. exact (maximal_In _ _ _ H). Qed.
    Lemma seeds_down_valid s : In s (maximal cmp_down cs) -> (s < n)%nat.
    Proof. intros H. apply Hcs. exact (maximal_In _ _ _ H). Qed.

    (** dropping the non-minimal seeds does not change the union of the upsets *)
    Lemma seeds_up_same j :
      (exists i, In i (maximal cmp_up cs) /\ subset (E i) (E j)) <->
      (exists i, In i cs /\ subset (E i) (E j)).
    Proof.
      split.
      - intros [i [Hi Hs]]. exists i. split; [exact (maximal_In _ _ _ Hi)|exact Hs].
      - intros [i [Hi Hs]].
        destruct (maximal_dominates cmp_up (fun s a => subset (E s) (E a)) (fun a => count (E a)) cs)
          with (a := i) as [s [Hs1 Hs2]].
        + intros a. apply subset_refl.
        + intros a b d. apply subset_trans.
        + intros a b Ha Hb Hab. apply (cmp_up_spec a b (Hcs a Ha) (Hcs b Hb)) in Hab.
          split; [exact (psubset_subset _ _ Hab)|].
          exact (closed_count_lt c _ _ (E_closed c L OK b (Hcs b Hb)) (E_closed c L OK a (Hcs a Ha)) Hab).
        + exact Hi.
        + exists s. split; [exact Hs1|]. eapply subset_trans; [exact Hs2|exact Hs].
    Qed.

    Lemma seeds_down_same j :
      (exists i, In i (maximal cmp_down cs) /\ subset (E j) (E i)) <->
      (exists i, In i cs /\ subset (E j) (E i)).
    Proof.
      split.
      - intros [i [Hi Hs]]. exists i. split; [exact (maximal_In _ _ _ Hi)|exact Hs].
      - intros [i [Hi Hs]].
        destruct (maximal_dominates cmp_down (fun s a => subset (E a) (E s))
                    (fun a => (count (ones (nG c)) - count (E a))%nat) cs)
          with (a := i) as [s [Hs1 Hs2]].
        + intros a. apply subset_refl.
        + intros a b d H1 H2. eapply subset_trans; [exact H2|exact H1].
        + intros a b Ha Hb Hab. apply (cmp_down_spec a b (Hcs a Ha) (Hcs b Hb)) in Hab.
          split; [exact (psubset_subset _ _ Hab)|].
          pose proof (closed_count_lt c _ _ (E_closed c L OK a (Hcs a Ha)) (E_closed c L OK b (Hcs b Hb)) Hab).
          pose proof (count_subset_le _ _ (E_nonneg c L OK b (Hcs b Hb)) (ones_nonneg (nG c))
                        (top_greatest c _ (E_closed c L OK b (Hcs b Hb)))).
          lia.
        + exact Hi.
        + exists s. split; [exact Hs1|]. eapply subset_trans; [exact Hs|exact Hs2].
    Qed.

    Theorem upset_union_general fuel : (length cs + edges_up L <= fuel)%nat ->
      exists out, upset_union fuel L cs = Ok out /\
        StronglySorted lt out /\
        forall j, In j out <-> (j < n)%nat /\ exists i, In i cs /\ subset (E i) (E j).
    Proof.
      intros Hf.
      destruct (up_general c L OK fuel (maximal cmp_up cs) seeds_up_valid) as [out (Ho & Hs & Hm)].
      { pose proof (maximal_length cmp_up cs). lia. }
      exists out. split; [exact Ho|]. split; [exact Hs|].
      intros j. rewrite Hm, seeds_up_same. reflexivity.
    Qed.

    Theorem upset_union_spec fuel : (length cs + edges_up L <= fuel)%nat ->
      upset_union fuel L cs =
      Ok (filter (fun j => existsb (fun i => subsetb (nth_extent (l_exts L) i) (nth_extent (l_exts L) j)) cs)
                 (seq 0 (length (l_concepts L)))).
    Proof.
      intros Hf. destruct (upset_union_general fuel Hf) as [out (Ho & Hs & Hm)].
      rewrite Ho. f_equal.
      apply sorted_lt_unique; [exact Hs|apply StronglySorted_filter', StronglySorted_seq|].
      intros j. rewrite Hm, filter_In, in_seq, existsb_exists. fold (lat_size L). split.
      - intros [Hj [i [Hi Hsub]]]. split; [lia|]. exists i. split; [exact Hi|].
        apply subsetb_spec; [exact (E_nonneg c L OK i (Hcs i Hi))|exact Hsub].
      - intros [Hj [i [Hi Hsub]]]. split; [lia|]. exists i. split; [exact Hi|].
        apply (subsetb_spec _ _ (E_nonneg c L OK i (Hcs i Hi))). exact Hsub.
    Qed.

    Theorem downset_union_spec fuel : (length cs + edges_down L <= fuel)%nat ->
      exists out, downset_union fuel L cs = Ok out /\
        StronglySorted (fun a b => (c_dindex (get_concept L a) < c_dindex (get_concept L b))%nat) out /\
        NoDup out /\
        forall j, In j out <->
          (j < length (l_concepts L))%nat /\
          exists i, In i cs /\ subset (nth_extent (l_exts L) j) (nth_extent (l_exts L) i).
    Proof.
      intros Hf.
      destruct (down_general c L OK fuel (maximal cmp_down cs) seeds_down_valid)
        as [out (Ho & Hs & Hnd & Hm)].
      { pose proof (maximal_length cmp_down cs). lia. }
      exists out. split; [exact Ho|]. split; [exact Hs|]. split; [exact Hnd|].
      intros j. rewrite Hm, seeds_down_same. reflexivity.
    Qed.
  End Unions.
End Final.

(** ** [maximal] keeps exactly the extremal items *)
Lemma maximal_spec cmp items a :
  In a (maximal cmp items) <->
  In a items /\ forall b, In b items -> b <> a -> cmp a b = false.
Proof.
  split.
  - intros H. split; [exact (maximal_In _ _ _ H)|]. intros b Hb Hne.
    assert (Hbs : In b (dedup items [])) by (apply dedup_In; split; [exact Hb|intros []]).
    unfold maximal in H. destruct (dedup items []) as [|p [|q r]] eqn:Es.
    + destruct H.
    + destruct H as [<-|[]]. destruct Hbs as [<-|[]]. congruence.
    + apply filter_In in H. destruct H as [_ H]. apply negb_true_iff in H.
      destruct (cmp a b) eqn:Ec; [|reflexivity].
      assert (Ht : existsb (fun b0 => negb (Nat.eqb a b0) && cmp a b0) (p :: q :: r) = true); [|congruence].
      apply existsb_exists. exists b. split; [exact Hbs|]. rewrite Ec, andb_true_r.
      apply negb_true_iff, Nat.eqb_neq. congruence.
  - intros [Ha Hall]. apply maximal_keep; [exact Ha|].
    destruct (existsb (fun b => negb (Nat.eqb a b) && cmp a b) (dedup items [])) eqn:Ex; [|reflexivity].
    apply existsb_exists in Ex. destruct Ex as [b [Hb Hab]]. apply dedup_In in Hb. destruct Hb as [Hb _].
    apply andb_true_iff in Hab. destruct Hab as [Hne Hc].
    apply negb_true_iff, Nat.eqb_neq in Hne. rewrite (Hall b Hb) in Hc; [discriminate|congruence].
Qed.

Section Extremal.
  Variables (c : ctx) (L : lattice).
  Hypothesis OK : lattice_ok c L.
  Variable cs : list nat.
  Hypothesis Hcs : forall i, In i cs -> (i < lat_size L)%nat.

  (** the seeds of [upset_union] are the members with a minimal extent *)
  Theorem seeds_up_minimal a :
    In a (maximal (cmp_up L) cs) <->
    In a cs /\ forall b, In b cs -> ~ psubset (ext_at L b) (ext_at L a).
  Proof.
    rewrite maximal_spec. split; intros [Ha H]; (split; [exact Ha|]); intros b Hb.
    - intros Hp. assert (Hne : b <> a) by (intros ->; destruct Hp as [_ Hp]; congruence).
      specialize (H b Hb Hne). apply (cmp_up_spec c L OK a b (Hcs a Ha) (Hcs b Hb)) in Hp. congruence.
    - intros _. destruct (cmp_up L a b) eqn:Ec; [|reflexivity].
      apply (cmp_up_spec c L OK a b (Hcs a Ha) (Hcs b Hb)) in Ec. destruct (H b Hb Ec).
  Qed.

  (** the seeds of [downset_union] are the members with a maximal extent *)
  Theorem seeds_down_maximal a :
    In a (maximal (cmp_down L) cs) <->
    In a cs /\ forall b, In b cs -> ~ psubset (ext_at L a) (ext_at L b).
  Proof.
    rewrite maximal_spec. split; intros [Ha H]; (split; [exact Ha|]); intros b Hb.
    - intros Hp. assert (Hne : b <> a) by (intros ->; destruct Hp as [_ Hp]; congruence).
      specialize (H b Hb Hne). apply (cmp_down_spec c L OK a b (Hcs a Ha) (Hcs b Hb)) in Hp. congruence.
    - intros _. destruct (cmp_down L a b) eqn:Ec; [|reflexivity].
      apply (cmp_down_spec c L OK a b (Hcs a Ha) (Hcs b Hb)) in Ec. destruct (H b Hb Ec).
  Qed.
End Extremal.

(** the empty collection (any fuel, any lattice): see also [upset_union_nil], [downset_union_nil]
    in Proofs/LatticeFirst.v *)
Theorem upset_union_nil' fuel L : upset_union fuel L [] = Ok [].
Proof. apply upset_union_nil. Qed.
Theorem downset_union_nil' fuel L : downset_union fuel L [] = Ok [].
Proof. apply downset_union_nil. Qed.
