(** Proofs for the text formats (property C12): round trips of table / cxt / csv, the fimi exports,
    [infer_format], and recovery of the triple by the independent readers of Spec/FormatSpec.v.

    Main results (all closed under the global context):
    - [table_roundtrip], [cxt_roundtrip], [csv_roundtrip], [csv_roundtrip_auto]
    - [dat_roundtrip], [fimi_rows_spec], [true_indexes_spec], [true_indexes_sorted]
    - [infer_format_spec], [infer_format_unknown], [infer_format_case_insensitive]
    - [spec_reads_dump_table], [spec_reads_dump_cxt], [spec_reads_dump_csv], [spec_reads_dump_wikitable]
    - csv automaton: [excel_writerow], [excel_read_rows], [excel_quoted_body] (the quoting lemma),
      [fimi_read_rows]. *)
From Coq Require Import ZArith List Bool Lia ZifyBool Sorted.
From Concepts Require Import Base.Res Model.Formats Spec.FormatSpec.
Import ListNotations.
Open Scope Z_scope.


(* =========================================================================================== *)
(** PART A - lemmas on the str helpers *)

(** Lemmas on the str helpers of Model/Formats.v. *)

Lemma frev_rev {A} (l : list A) : frev l = rev l.
Proof. unfold frev. symmetry. apply rev_alt. Qed.

(** [lacks c s]: the character [c] does not occur in [s] *)
Definition lacks (c : Z) (s : str) : bool := forallb (fun x => negb (x =? c)) s.

Definition first_ok (p : Z -> bool) (s : str) : bool :=
  match s with [] => true | c :: _ => negb (p c) end.
Definition last_ok (p : Z -> bool) (s : str) : bool := first_ok p (rev s).

Lemma lacks_app c a b : lacks c (a ++ b) = lacks c a && lacks c b.
Proof. apply forallb_app. Qed.

Lemma lacks_cons c x s : lacks c (x :: s) = negb (x =? c) && lacks c s.
Proof. reflexivity. Qed.

Lemma lacks_repeat c x n : x <> c -> lacks c (repeat x n) = true.
Proof.
  intros H. induction n as [|n IH]; [reflexivity|].
  cbn [repeat]. rewrite lacks_cons, IH. destruct (x =? c) eqn:E; [lia|reflexivity].
Qed.

Lemma forallb_repeat (p : Z -> bool) x n : p x = true -> forallb p (repeat x n) = true.
Proof. intros H. induction n as [|n IH]; [reflexivity|]. cbn [repeat forallb]. rewrite H, IH. reflexivity. Qed.

Lemma forallb_rev {A} (p : A -> bool) l : forallb p (rev l) = forallb p l.
Proof.
  induction l as [|x l IH]; [reflexivity|].
  cbn [rev forallb]. rewrite forallb_app, IH. cbn [forallb]. rewrite andb_true_r. apply andb_comm.
Qed.

Lemma first_ok_app p x y : x <> [] -> first_ok p (x ++ y) = first_ok p x.
Proof. destruct x; [congruence|reflexivity]. Qed.

Lemma last_ok_app p x y : y <> [] -> last_ok p (x ++ y) = last_ok p y.
Proof.
  intros H. unfold last_ok. rewrite rev_app_distr. apply first_ok_app.
  intros E. apply H. rewrite <- (rev_involutive y), E. reflexivity.
Qed.

Lemma last_ok_snoc p x c : last_ok p (x ++ [c]) = negb (p c).
Proof. unfold last_ok. rewrite rev_app_distr. reflexivity. Qed.

Lemma last_ok_single p c : last_ok p [c] = negb (p c).
Proof. reflexivity. Qed.

(* ------------------------------------------------------------------------------------------- *)
(** * strip *)

Lemma drop_while_all p s : forallb p s = true -> drop_while p s = [].
Proof.
  induction s as [|c s IH]; [reflexivity|].
  cbn [forallb drop_while]. intros H. apply andb_true_iff in H. destruct H as [H1 H2].
  rewrite H1. auto.
Qed.

Lemma drop_while_app_all p a s : forallb p a = true -> drop_while p (a ++ s) = drop_while p s.
Proof.
  induction a as [|c a IH]; [reflexivity|].
  cbn [forallb app drop_while]. intros H. apply andb_true_iff in H. destruct H as [H1 H2].
  rewrite H1. auto.
Qed.

Lemma drop_while_first_ok p s : first_ok p s = true -> drop_while p s = s.
Proof.
  destruct s as [|c s]; [reflexivity|]. cbn [first_ok drop_while]. intros H.
  destruct (p c); [discriminate|reflexivity].
Qed.

Lemma rstrip_by_id p s : last_ok p s = true -> rstrip_by p s = s.
Proof.
  intros H. unfold rstrip_by. rewrite !frev_rev. rewrite drop_while_first_ok by exact H.
  apply rev_involutive.
Qed.

Lemma rstrip_by_app_all p s a : forallb p a = true -> rstrip_by p (s ++ a) = rstrip_by p s.
Proof.
  intros H. unfold rstrip_by. rewrite !frev_rev. rewrite rev_app_distr.
  rewrite drop_while_app_all; [reflexivity|]. rewrite forallb_rev. exact H.
Qed.

Lemma rstrip_by_all p a : forallb p a = true -> rstrip_by p a = [].
Proof.
  intros H. unfold rstrip_by. rewrite !frev_rev. rewrite drop_while_all; [reflexivity|].
  rewrite forallb_rev. exact H.
Qed.

Lemma strip_by_pad p a s b :
  forallb p a = true -> forallb p b = true -> first_ok p s = true -> last_ok p s = true ->
  strip_by p (a ++ s ++ b) = s.
Proof.
  intros Ha Hb Hf Hl. unfold strip_by, lstrip_by. rewrite drop_while_app_all by exact Ha.
  destruct s as [|c s].
  - cbn [app]. rewrite drop_while_all by exact Hb. reflexivity.
  - rewrite drop_while_first_ok by exact Hf.
    rewrite rstrip_by_app_all by exact Hb. apply rstrip_by_id. exact Hl.
Qed.

Lemma strip_by_id p s : first_ok p s = true -> last_ok p s = true -> strip_by p s = s.
Proof.
  intros Hf Hl. rewrite <- (strip_by_pad p [] s []) at 2 by (auto).
  cbn [app]. rewrite app_nil_r. reflexivity.
Qed.

Lemma strip_by_all p a : forallb p a = true -> strip_by p a = [].
Proof.
  intros H. rewrite <- (strip_by_pad p a [] []) by auto. rewrite app_nil_r. reflexivity.
Qed.

(* ------------------------------------------------------------------------------------------- *)
(** * split, join, partition *)

Lemma split_on_lacks sep s : lacks sep s = true -> split_on sep s = [s].
Proof.
  induction s as [|c s IH]; [reflexivity|].
  rewrite lacks_cons. intros H. apply andb_true_iff in H. destruct H as [H1 H2].
  cbn [split_on]. destruct (c =? sep); [discriminate|]. rewrite IH by exact H2. reflexivity.
Qed.

Lemma split_on_app sep a b : lacks sep a = true -> split_on sep (a ++ sep :: b) = a :: split_on sep b.
Proof.
  induction a as [|c a IH].
  - intros _. cbn [app split_on]. rewrite Z.eqb_refl. reflexivity.
  - rewrite lacks_cons. intros H. apply andb_true_iff in H. destruct H as [H1 H2].
    cbn [app split_on]. destruct (c =? sep); [discriminate|]. rewrite IH by exact H2. reflexivity.
Qed.

Lemma join_cons sep x y ys : join sep (x :: y :: ys) = x ++ sep ++ join sep (y :: ys).
Proof. cbn [join flat_map]. rewrite <- app_assoc. reflexivity. Qed.

Lemma join_single sep x : join sep [x] = x.
Proof. cbn [join flat_map]. apply app_nil_r. Qed.

Lemma split_on_join sep x xs :
  forallb (lacks sep) (x :: xs) = true -> split_on sep (join [sep] (x :: xs)) = x :: xs.
Proof.
  revert x. induction xs as [|y ys IH]; intros x H.
  - rewrite join_single. apply split_on_lacks. cbn [forallb] in H. rewrite andb_true_r in H. exact H.
  - rewrite join_cons. cbn [forallb] in H. apply andb_true_iff in H. destruct H as [H1 H2].
    cbn [app]. rewrite split_on_app by exact H1. rewrite IH by exact H2. reflexivity.
Qed.

Lemma partition_app sep a b : lacks sep a = true -> partition sep (a ++ sep :: b) = (a, [sep], b).
Proof.
  induction a as [|c a IH].
  - intros _. cbn [app partition]. rewrite Z.eqb_refl. reflexivity.
  - rewrite lacks_cons. intros H. apply andb_true_iff in H. destruct H as [H1 H2].
    cbn [app partition]. destruct (c =? sep); [discriminate|]. rewrite IH by exact H2. reflexivity.
Qed.

Lemma partition_lacks sep a : lacks sep a = true -> partition sep a = (a, [], []).
Proof.
  induction a as [|c a IH]; [reflexivity|].
  rewrite lacks_cons. intros H. apply andb_true_iff in H. destruct H as [H1 H2].
  cbn [partition]. destruct (c =? sep); [discriminate|]. rewrite IH by exact H2. reflexivity.
Qed.

(** edges of a join *)
Lemma join_first_ok p sep x xs : x <> [] -> first_ok p (join sep (x :: xs)) = first_ok p x.
Proof. intros H. cbn [join]. apply first_ok_app. exact H. Qed.

Lemma join_last_ok p sep x xs :
  Forall (fun s => s <> [] /\ last_ok p s = true) (x :: xs) -> last_ok p (join sep (x :: xs)) = true.
Proof.
  revert x. induction xs as [|y ys IH]; intros x H.
  - rewrite join_single. inversion H as [|? ? [_ Hx] _]. exact Hx.
  - rewrite join_cons. inversion H as [|? ? Hx Hr]; subst.
    rewrite app_assoc. rewrite last_ok_app.
    + apply IH. exact Hr.
    + inversion Hr as [|? ? [Hy _] _]; subst. cbn [join]. destruct y; [congruence|discriminate].
Qed.

Lemma lacks_join c sep x xs :
  lacks c sep = true -> forallb (lacks c) (x :: xs) = true -> lacks c (join sep (x :: xs)) = true.
Proof.
  intros Hs. revert x. induction xs as [|y ys IH]; intros x H.
  - rewrite join_single. cbn [forallb] in H. rewrite andb_true_r in H. exact H.
  - rewrite join_cons. cbn [forallb] in H. apply andb_true_iff in H. destruct H as [H1 H2].
    rewrite !lacks_app, H1, Hs, IH by exact H2. reflexivity.
Qed.

(* ------------------------------------------------------------------------------------------- *)
(** * lines, newline translation *)

Definition unlines (ls : list str) : str := flat_map (fun l => l ++ [10]) ls.

Lemma translate_newlines_id s : lacks 13 s = true -> translate_newlines s = s.
Proof.
  induction s as [|c s IH]; [reflexivity|].
  rewrite lacks_cons. intros H. apply andb_true_iff in H. destruct H as [H1 H2].
  cbn [translate_newlines]. destruct (c =? 13); [discriminate|]. rewrite IH by exact H2. reflexivity.
Qed.

Lemma print_lines_unlines ls :
  forallb (lacks 13) ls = true -> flat_map print_line ls = unlines ls.
Proof.
  induction ls as [|l ls IH]; [reflexivity|].
  cbn [forallb]. intros H. apply andb_true_iff in H. destruct H as [H1 H2].
  unfold unlines. cbn [flat_map]. unfold print_line at 1. rewrite translate_newlines_id by exact H1.
  f_equal. apply IH. exact H2.
Qed.

Lemma lines_keepends_app a b :
  lacks 10 a = true -> lines_keepends (a ++ 10 :: b) = (a ++ [10]) :: lines_keepends b.
Proof.
  induction a as [|c a IH].
  - intros _. reflexivity.
  - rewrite lacks_cons. intros H. apply andb_true_iff in H. destruct H as [H1 H2].
    cbn [app lines_keepends]. destruct (c =? 10); [discriminate|]. rewrite IH by exact H2. reflexivity.
Qed.

Lemma lines_keepends_last a : lacks 10 a = true -> a <> [] -> lines_keepends a = [a].
Proof.
  induction a as [|c a IH]; [congruence|].
  rewrite lacks_cons. intros H _. apply andb_true_iff in H. destruct H as [H1 H2].
  cbn [lines_keepends]. destruct (c =? 10); [discriminate|].
  destruct a as [|d a]; [reflexivity|]. rewrite IH by (auto; discriminate). reflexivity.
Qed.

Lemma unlines_app a b : unlines (a ++ b) = unlines a ++ unlines b.
Proof. unfold unlines. apply flat_map_app. Qed.

Lemma lines_keepends_unlines init lst :
  forallb (lacks 10) init = true -> lacks 10 lst = true -> lst <> [] ->
  lines_keepends (unlines init ++ lst) = map (fun l => l ++ [10]) init ++ [lst].
Proof.
  intros Hi Hl Hne. induction init as [|l init IH].
  - cbn [unlines flat_map app map]. apply lines_keepends_last; assumption.
  - cbn [forallb] in Hi. apply andb_true_iff in Hi. destruct Hi as [H1 H2].
    unfold unlines. cbn [flat_map]. rewrite <- !app_assoc. cbn [app].
    rewrite lines_keepends_app by exact H1. fold (unlines init). rewrite IH by exact H2. reflexivity.
Qed.

(** the final [source.rstrip()] of a dump whose lines end with a non-space character *)
Lemma rstrip_unlines init lst :
  lst <> [] -> last_ok isspace lst = true ->
  rstrip (unlines (init ++ [lst])) = unlines init ++ lst.
Proof.
  intros Hne Hl. rewrite unlines_app. unfold unlines at 2. cbn [flat_map]. rewrite app_nil_r.
  rewrite app_assoc. unfold rstrip. rewrite rstrip_by_app_all by reflexivity.
  apply rstrip_by_id. rewrite last_ok_app by exact Hne. exact Hl.
Qed.

Lemma split_on_unlines init lst :
  forallb (lacks 10) init = true -> lacks 10 lst = true ->
  split_on 10 (unlines init ++ lst) = init ++ [lst].
Proof.
  intros Hi Hl. induction init as [|l init IH].
  - cbn [unlines flat_map app]. apply split_on_lacks. exact Hl.
  - cbn [forallb] in Hi. apply andb_true_iff in Hi. destruct Hi as [H1 H2].
    unfold unlines. cbn [flat_map]. rewrite <- !app_assoc. cbn [app].
    rewrite split_on_app by exact H1. fold (unlines init). rewrite IH by exact H2. reflexivity.
Qed.

(* ------------------------------------------------------------------------------------------- *)
(** * misc list facts *)

Lemma map_fst_combine {A B} (l : list A) (l' : list B) : length l = length l' -> map fst (combine l l') = l.
Proof.
  revert l'. induction l as [|a l IH]; intros [|b l'] H; try discriminate; [reflexivity|].
  cbn [combine map fst]. f_equal. apply IH. injection H. auto.
Qed.

Lemma map_snd_combine {A B} (l : list A) (l' : list B) : length l = length l' -> map snd (combine l l') = l'.
Proof.
  revert l'. induction l as [|a l IH]; intros [|b l'] H; try discriminate; [reflexivity|].
  cbn [combine map snd]. f_equal. apply IH. injection H. auto.
Qed.

Lemma exists_snoc {A} (l : list A) : l <> [] -> exists init lst, l = init ++ [lst].
Proof. intros H. destruct (exists_last H) as [i [x E]]. eauto. Qed.

Lemma ljust_exact s : ljust (length s) s = s.
Proof. unfold ljust. rewrite Nat.sub_diag. apply app_nil_r. Qed.

Lemma map_id_in {A} (f : A -> A) l : (forall x, In x l -> f x = x) -> map f l = l.
Proof. intros H. rewrite <- (map_id l) at 2. apply map_ext_in. exact H. Qed.


(* =========================================================================================== *)
(** PART B - the ASCII-art table format *)

(** Round trip of the ASCII-art table format. *)

(* ------------------------------------------------------------------------------------------- *)
(** * consequences of the label classes *)

Lemma edges_ok_spec s :
  edges_ok s = true -> s <> [] /\ first_ok isspace s = true /\ last_ok isspace s = true.
Proof.
  destruct s as [|c s]; [discriminate|]. unfold edges_ok. intros H.
  apply andb_true_iff in H. destruct H as [H1 H2].
  split; [discriminate|]. split; [exact H1|].
  destruct (@exists_snoc Z (c :: s)) as [i [x E]]; [discriminate|].
  rewrite E in H2 |- *. rewrite last_last in H2. rewrite last_ok_snoc. exact H2.
Qed.

Lemma forallb_impl {A} (p q : A -> bool) l :
  (forall x, p x = true -> q x = true) -> forallb p l = true -> forallb q l = true.
Proof.
  intros H. induction l as [|x l IH]; [reflexivity|]. cbn [forallb]. intros E.
  apply andb_true_iff in E. destruct E as [E1 E2]. rewrite (H _ E1), IH by exact E2. reflexivity.
Qed.

Lemma cxt_ok_spec s :
  cxt_ok s = true ->
  s <> [] /\ first_ok isspace s = true /\ last_ok isspace s = true /\ lacks 10 s = true /\ lacks 13 s = true.
Proof.
  unfold cxt_ok. intros H. apply andb_true_iff in H. destruct H as [H1 H2].
  destruct (edges_ok_spec _ H1) as [A [B C]]. repeat split; try assumption.
  - revert H2. apply forallb_impl. intros x. unfold linebreak. lia.
  - revert H2. apply forallb_impl. intros x. unfold linebreak. lia.
Qed.

Lemma table_ok_spec s :
  table_ok s = true ->
  cxt_ok s = true /\ lacks 124 s = true /\ lacks 35 s = true.
Proof.
  unfold table_ok. intros H. apply andb_true_iff in H. destruct H as [H1 H2].
  split; [exact H1|]. split; revert H2; apply forallb_impl; intros x; lia.
Qed.

Lemma forallb_Forall {A} (p : A -> bool) l : forallb p l = true <-> Forall (fun x => p x = true) l.
Proof.
  induction l as [|x l IH]; cbn [forallb]; [split; auto|].
  rewrite andb_true_iff, IH. split.
  - intros [H1 H2]. constructor; assumption.
  - intros H. inversion H; auto.
Qed.

(* ------------------------------------------------------------------------------------------- *)
(** * shape of the dumped lines *)

Definition bars (cs : list str) : str := flat_map (fun y => 124 :: y) cs.

Definition padded (props cells : list str) : list str :=
  map (fun wc => ljust (fst wc) (snd wc)) (combine (map (@length Z) props) cells).

Lemma table_line_shape indent w0 props c0 cells :
  table_line indent (w0 :: map (@length Z) props) (c0 :: cells)
  = repeat 32 indent ++ ljust w0 c0 ++ bars (padded props cells) ++ [124].
Proof.
  unfold table_line. cbn [combine map fst snd join]. rewrite <- !app_assoc. reflexivity.
Qed.

Lemma padded_self props : padded props props = props.
Proof.
  unfold padded. induction props as [|p ps IH]; [reflexivity|].
  cbn [map combine fst snd]. rewrite ljust_exact. f_equal. exact IH.
Qed.

Lemma bars_join c cs : bars (c :: cs) = 124 :: join [124] (c :: cs).
Proof. reflexivity. Qed.

Lemma lacks_bars ch cs : ch <> 124 -> forallb (lacks ch) cs = true -> lacks ch (bars cs) = true.
Proof.
  intros Hc. induction cs as [|c cs IH]; [reflexivity|].
  cbn [forallb]. intros H. apply andb_true_iff in H. destruct H as [H1 H2].
  unfold bars. cbn [flat_map app]. rewrite lacks_cons, lacks_app, H1. fold (bars cs). rewrite IH by exact H2.
  destruct (124 =? ch) eqn:E; [lia|reflexivity].
Qed.

(** a padded cell *)
Lemma padded_cell_facts (p : str) b :
  p <> [] ->
  let c := ljust (length p) (cell_X b) in
  c <> [] /\ first_ok (char_in [124]) c = true /\ last_ok (char_in [124]) c = true
  /\ lacks 124 c = true /\ lacks 10 c = true /\ lacks 13 c = true /\ lacks 35 c = true
  /\ negb (is_nil (strip c)) = b.
Proof.
  intros Hp. destruct p as [|x p]; [congruence|]. cbn [length].
  destruct b; unfold ljust; cbn [cell_X length app].
  - replace (S (length p) - 1)%nat with (length p) by lia.
    repeat split; try discriminate; try reflexivity.
    + destruct (@exists_snoc Z (88 :: repeat 32 (length p))) as [i [y E]]; [discriminate|].
      assert (Hy : y = 88 \/ y = 32).
      { assert (In y (88 :: repeat 32 (length p))) by (rewrite E; apply in_or_app; right; left; reflexivity).
        destruct H as [H|H]; [left; congruence|right; eapply repeat_spec; exact H]. }
      rewrite E, last_ok_snoc. destruct Hy; subst y; reflexivity.
    + rewrite lacks_cons, lacks_repeat by lia. reflexivity.
    + rewrite lacks_cons, lacks_repeat by lia. reflexivity.
    + rewrite lacks_cons, lacks_repeat by lia. reflexivity.
    + rewrite lacks_cons, lacks_repeat by lia. reflexivity.
    + change (88 :: repeat 32 (length p)) with ([] ++ [88] ++ repeat 32 (length p)).
      unfold strip. rewrite strip_by_pad; try reflexivity. apply forallb_repeat. reflexivity.
  - replace (S (length p) - 0)%nat with (S (length p)) by lia. cbn [repeat].
    repeat split; try discriminate; try reflexivity.
    + change (32 :: repeat 32 (length p)) with (repeat 32 (S (length p))).
      destruct (@exists_snoc Z (repeat 32 (S (length p)))) as [i [y E]]; [discriminate|].
      assert (Hy : y = 32).
      { eapply repeat_spec. rewrite E. apply in_or_app. right. left. reflexivity. }
      rewrite E, last_ok_snoc. subst y. reflexivity.
    + rewrite lacks_cons, lacks_repeat by lia. reflexivity.
    + rewrite lacks_cons, lacks_repeat by lia. reflexivity.
    + rewrite lacks_cons, lacks_repeat by lia. reflexivity.
    + rewrite lacks_cons, lacks_repeat by lia. reflexivity.
    + change (32 :: repeat 32 (length p)) with (repeat 32 (S (length p))).
      unfold strip. rewrite strip_by_all; [reflexivity|]. apply forallb_repeat. reflexivity.
Qed.

Definition cell_good (c : str) : Prop :=
  c <> [] /\ first_ok (char_in [124]) c = true /\ last_ok (char_in [124]) c = true
  /\ lacks 124 c = true /\ lacks 10 c = true /\ lacks 13 c = true /\ lacks 35 c = true.

Lemma padded_cells_good props r :
  Forall (fun p => p <> []) props -> length r = length props ->
  Forall cell_good (padded props (map cell_X r))
  /\ map (fun f => negb (is_nil (strip f))) (padded props (map cell_X r)) = r
  /\ length (padded props (map cell_X r)) = length props.
Proof.
  intros Hp. revert r. induction Hp as [|p ps Hp1 Hp2 IH]; intros [|b r] Hlen; try discriminate.
  - repeat split; constructor.
  - injection Hlen as Hlen. destruct (IH r Hlen) as [I1 [I2 I3]].
    unfold padded in *. cbn [map combine fst snd length].
    destruct (padded_cell_facts p b Hp1) as [F1 [F2 [F3 [F4 [F5 [F6 [F7 F8]]]]]]].
    split; [|split].
    + constructor; [|exact I1]. repeat split; assumption.
    + rewrite F8, I2. reflexivity.
    + rewrite I3. reflexivity.
Qed.

Lemma cells_good_forallb (P : str -> bool) cs :
  (forall c, cell_good c -> P c = true) -> Forall cell_good cs -> forallb P cs = true.
Proof.
  intros H F. induction F as [|c cs Hc _ IH]; [reflexivity|]. cbn [forallb]. rewrite (H _ Hc), IH. reflexivity.
Qed.

(* ------------------------------------------------------------------------------------------- *)
(** * reading one dumped line back *)

Lemma space_line_strip (a body e : str) :
  forallb isspace a = true -> forallb isspace e = true ->
  first_ok isspace body = true -> last_ok isspace body = true -> lacks 35 (a ++ body ++ e) = true ->
  table_clean_line (a ++ body ++ e) = body.
Proof.
  intros Ha He Hf Hl H35. unfold table_clean_line. rewrite partition_lacks by exact H35.
  cbn [fst]. unfold strip. apply strip_by_pad; assumption.
Qed.

(** the header line *)
Lemma header_line_read indent w0 p ps e :
  Forall (fun s => table_ok s = true) (p :: ps) -> forallb isspace e = true -> lacks 35 e = true ->
  let h := table_clean_line (table_line indent (w0 :: map (@length Z) (p :: ps)) ([] :: p :: ps) ++ e) in
  h <> [] /\ map strip (split_on 124 (strip_chars [124] h)) = p :: ps.
Proof.
  intros Hok He He35 h.
  assert (Hall : Forall (fun s => s <> [] /\ first_ok isspace s = true /\ last_ok isspace s = true
                                 /\ lacks 124 s = true /\ lacks 35 s = true) (p :: ps)).
  { eapply Forall_impl; [|exact Hok]. intros s Hs. cbv beta in Hs.
    destruct (table_ok_spec _ Hs) as [Hc [H124 H35]].
    destruct (cxt_ok_spec _ Hc) as [A [B [C _]]]. auto. }
  assert (Hh : h = bars (p :: ps) ++ [124]).
  { unfold h. rewrite table_line_shape, padded_self.
    unfold ljust. cbn [length app]. rewrite Nat.sub_0_r.
    replace (repeat 32 indent ++ repeat 32 w0 ++ bars (p :: ps) ++ [124])
      with ((repeat 32 indent ++ repeat 32 w0) ++ (bars (p :: ps) ++ [124]))
      by (rewrite <- !app_assoc; reflexivity).
    rewrite <- app_assoc.
    apply space_line_strip.
    - rewrite forallb_app, !forallb_repeat by reflexivity. reflexivity.
    - exact He.
    - reflexivity.
    - rewrite last_ok_snoc. reflexivity.
    - rewrite !lacks_app, !lacks_repeat by lia. cbn [andb].
      rewrite lacks_bars, He35; [reflexivity|lia|].
      apply forallb_Forall. eapply Forall_impl; [|exact Hall]. cbv beta. tauto. }
  split; [rewrite Hh; rewrite bars_join; discriminate|].
  rewrite Hh, bars_join.
  change (124 :: join [124] (p :: ps)) with ([124] ++ join [124] (p :: ps)). rewrite <- app_assoc.
  unfold strip_chars. rewrite strip_by_pad; try reflexivity.
  - rewrite split_on_join.
    + apply map_id_in. intros s Hs. rewrite Forall_forall in Hall. destruct (Hall s Hs) as [_ [A [B _]]].
      unfold strip. apply strip_by_id; assumption.
    + apply forallb_Forall. eapply Forall_impl; [|exact Hall]. cbv beta. tauto.
  - inversion Hall as [|? ? [A [_ [_ [B _]]]] _]; subst.
    rewrite join_first_ok by exact A. destruct p as [|c p]; [congruence|].
    rewrite lacks_cons in B. cbn [first_ok char_in existsb]. lia.
  - apply join_last_ok. eapply Forall_impl; [|exact Hall]. cbv beta.
    intros s [A [_ [_ [B _]]]]. split; [exact A|].
    destruct (@exists_snoc Z s A) as [i [y E]]. rewrite E in B |- *. rewrite last_ok_snoc.
    rewrite lacks_app, lacks_cons in B. cbn [char_in existsb]. lia.
Qed.

(** an object line *)
Lemma row_line_read indent w0 props o r e :
  props <> [] -> Forall (fun s => table_ok s = true) props -> table_ok o = true ->
  length r = length props -> forallb isspace e = true -> lacks 35 e = true ->
  let l := table_clean_line (table_line indent (w0 :: map (@length Z) props) (o :: map cell_X r) ++ e) in
  l <> [] /\ table_row l = (o, r).
Proof.
  intros Hne Hok Ho Hlen He He35 l.
  destruct (table_ok_spec _ Ho) as [Hc [Ho124 Ho35]].
  destruct (cxt_ok_spec _ Hc) as [Hone [Hof [Hol _]]].
  assert (Hpne : Forall (fun p : str => p <> []) props).
  { eapply Forall_impl; [|exact Hok]. intros s Hs. cbv beta in Hs.
    destruct (table_ok_spec _ Hs) as [Hc' _]. destruct (cxt_ok_spec _ Hc') as [A _]. exact A. }
  destruct (padded_cells_good props r Hpne Hlen) as [Hgood [Hvals Hplen]].
  set (cells := padded props (map cell_X r)) in *.
  assert (Hcne : cells <> []).
  { intros E. rewrite E in Hplen. destruct props; [congruence|discriminate]. }
  set (pad := repeat 32 (w0 - length o)%nat).
  assert (Hl : l = (o ++ pad) ++ bars cells ++ [124]).
  { unfold l. rewrite table_line_shape. fold cells. unfold ljust. fold pad.
    replace (repeat 32 indent ++ (o ++ pad) ++ bars cells ++ [124])
      with (repeat 32 indent ++ ((o ++ pad) ++ bars cells ++ [124])) by reflexivity.
    rewrite <- app_assoc. apply space_line_strip.
    - apply forallb_repeat. reflexivity.
    - exact He.
    - rewrite <- app_assoc. rewrite first_ok_app by exact Hone. exact Hof.
    - rewrite app_assoc, last_ok_snoc. reflexivity.
    - rewrite !lacks_app, Ho35, He35. unfold pad. rewrite !lacks_repeat by lia. cbn [andb].
      rewrite lacks_bars; [reflexivity|lia|].
      apply cells_good_forallb; [|exact Hgood]. unfold cell_good. tauto. }
  split.
  { rewrite Hl. destruct o; [congruence|discriminate]. }
  rewrite Hl. destruct cells as [|c cs] eqn:Ecells; [congruence|].
  rewrite bars_join. unfold table_row.
  replace ((o ++ pad) ++ (124 :: join [124] (c :: cs)) ++ [124])
    with ((o ++ pad) ++ 124 :: (join [124] (c :: cs) ++ [124])) by reflexivity.
  rewrite partition_app.
  2:{ rewrite lacks_app, Ho124. unfold pad. rewrite lacks_repeat by lia. reflexivity. }
  f_equal.
  - unfold strip. rewrite <- (app_nil_l (o ++ pad)). apply strip_by_pad; try assumption; try reflexivity.
    apply forallb_repeat. reflexivity.
  - unfold strip_chars.
    rewrite <- (app_nil_l (join [124] (c :: cs) ++ [124])).
    rewrite strip_by_pad; try reflexivity.
    + rewrite split_on_join; [exact Hvals|].
      apply cells_good_forallb; [|exact Hgood]. unfold cell_good. tauto.
    + inversion Hgood as [|? ? [A [B _]] _]; subst. rewrite join_first_ok by exact A. exact B.
    + apply join_last_ok. eapply Forall_impl; [|exact Hgood]. unfold cell_good. cbv beta. tauto.
Qed.

(* ------------------------------------------------------------------------------------------- *)
(** * facts about all dumped lines *)

Lemma table_line_facts indent wd cells :
  forallb (lacks 10) cells = true -> forallb (lacks 13) cells = true ->
  let l := table_line indent wd cells in
  l <> [] /\ last_ok isspace l = true /\ lacks 10 l = true /\ lacks 13 l = true.
Proof.
  intros H10 H13 l. unfold l, table_line.
  set (cs := map (fun wc => ljust (fst wc) (snd wc)) (combine wd cells)).
  assert (Hcs : forall ch, ch <> 32 -> ch <> 124 -> forallb (lacks ch) cells = true -> lacks ch (join [124] cs) = true).
  { intros ch Hch Hch' Hc. unfold cs. clear cs l.
    assert (forallb (lacks ch) (map (fun wc => ljust (fst wc) (snd wc)) (combine wd cells)) = true).
    { revert wd. induction cells as [|c cells IH]; intros [|w wd]; try reflexivity.
      cbn [forallb] in Hc. apply andb_true_iff in Hc. destruct Hc as [Hc1 Hc2].
      apply andb_true_iff in H10. destruct H10 as [_ H10]. apply andb_true_iff in H13. destruct H13 as [_ H13].
      cbn [combine map forallb fst snd]. unfold ljust at 1. rewrite lacks_app, Hc1, lacks_repeat by lia.
      rewrite IH by assumption. reflexivity. }
    destruct (map (fun wc => ljust (fst wc) (snd wc)) (combine wd cells)) as [|x xs] eqn:E; [reflexivity|].
    apply lacks_join; [|exact H]. rewrite lacks_cons. cbn [lacks forallb]. lia. }
  repeat split.
  - destruct (repeat 32 indent); [destruct (join [124] cs)|]; discriminate.
  - rewrite app_assoc, last_ok_snoc. reflexivity.
  - rewrite !lacks_app, lacks_repeat, Hcs by (try lia; assumption). reflexivity.
  - rewrite !lacks_app, lacks_repeat, Hcs by (try lia; assumption). reflexivity.
Qed.

Lemma lacks_cell_X ch b : ch <> 88 -> lacks ch (cell_X b) = true.
Proof. intros H. destruct b; [|reflexivity]. cbn [cell_X]. rewrite lacks_cons. cbn [lacks forallb]. lia. Qed.

Lemma forallb_lacks_cell_X ch r : ch <> 88 -> forallb (lacks ch) (map cell_X r) = true.
Proof.
  intros H. induction r as [|b r IH]; [reflexivity|]. cbn [map forallb]. rewrite lacks_cell_X, IH by exact H.
  reflexivity.
Qed.

(* ------------------------------------------------------------------------------------------- *)
(** * the round trip *)

Theorem table_roundtrip indent objs props bools :
  well_formed objs props bools ->
  Forall (fun s => table_ok s = true) objs -> Forall (fun s => table_ok s = true) props ->
  load_table (dump_table indent objs props bools) = Ok (objs, props, bools).
Proof.
  intros [Hobjs [Hprops [Hlen Hrows]]] Hoo Hpo.
  destruct props as [|p ps]; [congruence|].
  set (props := p :: ps) in *.
  set (wd := max_len objs :: map (@length Z) props).
  set (ls := table_lines indent objs props bools).
  assert (Hl10 : forall s, table_ok s = true -> lacks 10 s = true /\ lacks 13 s = true).
  { intros s Hs. destruct (table_ok_spec _ Hs) as [Hc _]. destruct (cxt_ok_spec _ Hc) as [_ [_ [_ [A B]]]]. auto. }
  assert (Hfl : forall ch, (ch = 10 \/ ch = 13) -> forall l, Forall (fun s => table_ok s = true) l -> forallb (lacks ch) l = true).
  { intros ch Hch l Hl. apply forallb_Forall. eapply Forall_impl; [|exact Hl]. cbv beta. intros s Hs.
    destruct (Hl10 s Hs). destruct Hch; subst; assumption. }
  (* facts on every line *)
  assert (Hfacts : Forall (fun l => l <> [] /\ last_ok isspace l = true /\ lacks 10 l = true /\ lacks 13 l = true) ls).
  { unfold ls, table_lines. fold wd. constructor.
    - apply table_line_facts; cbn [forallb]; rewrite Hfl; auto.
    - apply Forall_forall. intros l Hin. apply in_map_iff in Hin. destruct Hin as [[o r] [El Hin]]. subst l.
      cbn [fst snd]. pose proof (in_combine_l _ _ _ _ Hin) as Ho. rewrite Forall_forall in Hoo.
      destruct (Hl10 o (Hoo o Ho)) as [A B].
      apply table_line_facts; cbn [forallb]; rewrite ?A, ?B, forallb_lacks_cell_X by lia; reflexivity. }
  destruct (@exists_snoc _ ls) as [init [lst Els]]; [unfold ls, table_lines; discriminate|].
  rewrite Els in Hfacts. apply Forall_app in Hfacts. destruct Hfacts as [Hinit Hlst].
  inversion Hlst as [|? ? [Hl1 [Hl2 [Hl3 Hl4]]] _]; subst.
  assert (Hi10 : forallb (lacks 10) init = true).
  { apply forallb_Forall. eapply Forall_impl; [|exact Hinit]. cbv beta. tauto. }
  assert (Hi13 : forallb (lacks 13) (init ++ [lst]) = true).
  { rewrite forallb_app. cbn [forallb]. rewrite Hl4. rewrite andb_true_r.
    apply forallb_Forall. eapply Forall_impl; [|exact Hinit]. cbv beta. tauto. }
  unfold load_table, dump_table. fold ls. rewrite Els.
  rewrite print_lines_unlines by exact Hi13.
  rewrite rstrip_unlines by assumption.
  rewrite lines_keepends_unlines by assumption.
  (* cleaned lines *)
  assert (Hmap : map table_clean_line (map (fun l => l ++ [10]) init ++ [lst])
                 = map (fun l => table_clean_line (l ++ [10])) init ++ [table_clean_line (lst ++ [])]).
  { rewrite map_app, map_map, app_nil_r. reflexivity. }
  rewrite Hmap. clear Hmap.
  (* describe each cleaned line through the two reading lemmas *)
  assert (Hhdr : forall e, forallb isspace e = true -> lacks 35 e = true ->
            let h := table_clean_line (table_line indent wd ([] :: props) ++ e) in
            h <> [] /\ map strip (split_on 124 (strip_chars [124] h)) = props).
  { intros e He He35. apply header_line_read; assumption. }
  assert (Hrow : forall e o r, forallb isspace e = true -> lacks 35 e = true -> In (o, r) (combine objs bools) ->
            let l := table_clean_line (table_line indent wd (o :: map cell_X r) ++ e) in
            l <> [] /\ table_row l = (o, r)).
  { intros e o r He He35 Hin. apply row_line_read; try assumption.
    - rewrite Forall_forall in Hoo. apply Hoo. eapply in_combine_l. exact Hin.
    - rewrite Forall_forall in Hrows. apply Hrows. eapply in_combine_r. exact Hin. }
  (* general statement over the decomposition init ++ [lst] of the lines *)
  assert (Hgen : forall (rows : list (str * list bool)) init' lst',
            (forall o r, In (o, r) rows -> In (o, r) (combine objs bools)) ->
            map (fun ob => table_line indent wd (fst ob :: map cell_X (snd ob))) rows = init' ++ [lst'] ->
            let cl := map (fun l => table_clean_line (l ++ [10])) init' ++ [table_clean_line (lst' ++ [])] in
            filter (fun l => negb (is_nil l)) cl = cl /\ map table_row cl = rows).
  { induction rows as [|[o r] rows IH]; intros init' lst' Hsub E.
    - destruct init'; discriminate.
    - cbn [map fst snd] in E. destruct init' as [|l0 init'].
      + cbn [app] in E. injection E as E1 E2. destruct rows; [|discriminate]. subst lst'.
        cbn [map app]. destruct (Hrow [] o r eq_refl eq_refl (Hsub o r (or_introl eq_refl))) as [A B].
        cbn [filter map]. rewrite B. destruct (table_clean_line _); [congruence|]. cbn [is_nil negb]. auto.
      + cbn [app] in E. injection E as E1 E2. subst l0.
        destruct (IH init' lst' (fun o' r' H => Hsub o' r' (or_intror H)) E2) as [I1 I2].
        destruct (Hrow [10] o r eq_refl eq_refl (Hsub o r (or_introl eq_refl))) as [A B].
        cbn [map app filter]. cbn zeta in I1, I2. rewrite B, I2.
        destruct (table_clean_line (table_line indent wd (o :: map cell_X r) ++ [10])); [congruence|].
        cbn [is_nil negb]. rewrite I1. auto. }
  assert (Hcomb : combine objs bools <> []).
  { destruct objs; [congruence|]. destruct bools; [discriminate|]. discriminate. }
  unfold ls, table_lines in Els. fold wd in Els.
  destruct init as [|l0 init].
  { (* only the header line: impossible, there is at least one object *)
    cbn [app] in Els. injection Els as _ E. destruct (combine objs bools); [congruence|discriminate]. }
  cbn [app] in Els. injection Els as E1 E2. subst l0.
  destruct (Hgen (combine objs bools) init lst (fun o r H => H) E2) as [G1 G2].
  destruct (Hhdr [10] eq_refl eq_refl) as [A B].
  cbn [map app filter]. cbn zeta in G1, G2, A, B.
  destruct (table_clean_line (table_line indent wd ([] :: props) ++ [10])) as [|hc ht] eqn:Eh; [congruence|].
  cbn [is_nil negb]. rewrite G1, B, G2.
  destruct (combine objs bools) as [|x xs] eqn:Ec; [congruence|].
  rewrite <- Ec. rewrite map_fst_combine, map_snd_combine by (symmetry; exact Hlen || exact Hlen).
  reflexivity.
Qed.


(* =========================================================================================== *)
(** PART C - decimal numbers, blank-line splitting, the cxt format *)

(** Round trip of the Burmeister cxt format; decimal numbers; blank-line splitting. *)

(* ------------------------------------------------------------------------------------------- *)
(** * decimal numbers *)

Definition dval (acc : Z) (ds : str) : Z := fold_left (fun a c => a * 10 + (c - 48)) ds acc.

Lemma parse_digits_all b acc ds :
  forallb is_digit ds = true -> (ds <> [] \/ b = true) -> parse_digits b acc ds = Some (dval acc ds).
Proof.
  revert b acc. induction ds as [|c t IH]; intros b acc Hd Hne.
  - destruct Hne as [Hne|Hne]; [congruence|]. subst b. reflexivity.
  - cbn [forallb] in Hd. apply andb_true_iff in Hd. destruct Hd as [H1 H2].
    cbn [parse_digits]. rewrite H1. rewrite IH by auto. reflexivity.
Qed.

Lemma z_to_str_aux_spec fuel : forall z acc, 0 <= z < Z.of_nat fuel ->
  exists ds, z_to_str_aux fuel z acc = ds ++ acc /\ ds <> [] /\ forallb is_digit ds = true
             /\ forall a, dval a ds = a * 10 ^ (Z.of_nat (length ds)) + z.
Proof.
  induction fuel as [|f IH]; intros z acc Hz; [lia|].
  cbn [z_to_str_aux]. pose proof (Z.mod_pos_bound z 10 ltac:(lia)) as Hm.
  destruct (z <? 10) eqn:E.
  - exists [48 + z mod 10]. repeat split.
    + discriminate.
    + cbn [forallb]. unfold is_digit. lia.
    + intros a. unfold dval. cbn [fold_left length]. rewrite Z.mod_small by lia.
      change (10 ^ Z.of_nat 1) with 10. lia.
  - assert (Hlt : 0 <= z / 10 < Z.of_nat f).
    { split; [apply Z.div_pos; lia|]. assert (z / 10 < z) by (apply Z.div_lt; lia). lia. }
    destruct (IH (z / 10) ((48 + z mod 10) :: acc) Hlt) as [ds [E1 [E2 [E3 E4]]]].
    exists (ds ++ [48 + z mod 10]). repeat split.
    + rewrite E1, <- app_assoc. reflexivity.
    + destruct ds; discriminate.
    + rewrite forallb_app, E3. cbn [forallb]. unfold is_digit. lia.
    + intros a. unfold dval in *. rewrite fold_left_app. cbn [fold_left]. rewrite E4.
      rewrite app_length. cbn [length]. rewrite Nat2Z.inj_add. change (Z.of_nat 1) with 1.
      rewrite Z.pow_add_r by lia. change (10 ^ 1) with 10.
      pose proof (Z_div_mod_eq_full z 10). lia.
Qed.

Lemma nat_to_str_spec n :
  nat_to_str n <> [] /\ forallb is_digit (nat_to_str n) = true /\ dval 0 (nat_to_str n) = Z.of_nat n.
Proof.
  unfold nat_to_str.
  destruct (z_to_str_aux_spec (S n) (Z.of_nat n) [] ltac:(lia)) as [ds [E1 [E2 [E3 E4]]]].
  rewrite E1, app_nil_r. repeat split; try assumption. rewrite E4. lia.
Qed.

Lemma digits_edges (p : Z -> bool) ds :
  (forall c, is_digit c = true -> p c = false) -> forallb is_digit ds = true ->
  first_ok p ds = true /\ last_ok p ds = true.
Proof.
  intros Hp Hd.
  assert (G : forall s, forallb is_digit s = true -> first_ok p s = true).
  { intros [|c s] H; [reflexivity|]. cbn [forallb] in H. apply andb_true_iff in H. destruct H as [H _].
    cbn [first_ok]. rewrite (Hp _ H). reflexivity. }
  split; [apply G; exact Hd|]. unfold last_ok. apply G. rewrite forallb_rev. exact Hd.
Qed.

Lemma digits_lack ch ds : is_digit ch = false -> forallb is_digit ds = true -> lacks ch ds = true.
Proof.
  intros Hc. apply forallb_impl. intros x Hx. destruct (x =? ch) eqn:E; [|reflexivity].
  apply Z.eqb_eq in E. subst x. congruence.
Qed.

Lemma py_int_digits ds :
  ds <> [] -> forallb is_digit ds = true -> py_int ds = Ok (dval 0 ds).
Proof.
  intros Hne Hd. unfold py_int.
  destruct (digits_edges int_space ds) as [Hf Hl]; [|exact Hd|].
  { intros c Hc. unfold is_digit in Hc. unfold int_space, isspace. lia. }
  rewrite strip_by_id by assumption.
  destruct ds as [|c t]; [congruence|].
  assert (Hc : is_digit c = true) by (cbn [forallb] in Hd; apply andb_true_iff in Hd; tauto).
  unfold is_digit in Hc.
  destruct (c =? 43) eqn:E1; [lia|]. destruct (c =? 45) eqn:E2; [lia|].
  rewrite parse_digits_all by auto. reflexivity.
Qed.

Lemma py_int_nat_to_str n : py_int (nat_to_str n) = Ok (Z.of_nat n).
Proof.
  destruct (nat_to_str_spec n) as [A [B C]]. rewrite py_int_digits by assumption. rewrite C. reflexivity.
Qed.

(* ------------------------------------------------------------------------------------------- *)
(** * split() *)

Lemma split_ws_go_word w rest :
  forallb (fun c => negb (isspace c)) w = true ->
  split_ws_go (w ++ rest) = (w ++ fst (split_ws_go rest), snd (split_ws_go rest)).
Proof.
  induction w as [|c w IH]; intros H.
  - cbn [app]. destruct (split_ws_go rest); reflexivity.
  - cbn [forallb] in H. apply andb_true_iff in H. destruct H as [H1 H2].
    cbn [app split_ws_go]. rewrite IH by exact H2. cbn [fst snd].
    destruct (isspace c); [discriminate|]. reflexivity.
Qed.

Lemma split_ws_two a b :
  a <> [] -> b <> [] -> forallb (fun c => negb (isspace c)) a = true -> forallb (fun c => negb (isspace c)) b = true ->
  split_ws (a ++ 10 :: b) = [a; b].
Proof.
  intros Ha Hb Hsa Hsb.
  assert (Eb : split_ws_go b = (b, [])).
  { rewrite <- (app_nil_r b) at 1. rewrite split_ws_go_word by exact Hsb. cbn [split_ws_go fst snd].
    rewrite app_nil_r. reflexivity. }
  assert (Eb' : split_ws_go (10 :: b) = ([], [b])).
  { cbn [split_ws_go]. rewrite Eb. change (isspace 10) with true. cbn iota.
    destruct b; [congruence|reflexivity]. }
  unfold split_ws. rewrite split_ws_go_word by exact Hsa. rewrite Eb'. cbn [fst snd].
  rewrite app_nil_r. destruct a; [congruence|reflexivity].
Qed.

(* ------------------------------------------------------------------------------------------- *)
(** * split on a doubled character *)

Fixpoint has_double (a : Z) (s : str) : bool :=
  match s with
  | [] => false
  | c :: t => match t with
              | d :: _ => ((c =? a) && (d =? a)) || has_double a t
              | [] => false
              end
  end.

Lemma split_on2_none a s : has_double a s = false -> split_on2 a a s = [s].
Proof.
  induction s as [|c t IH]; [reflexivity|].
  intros H. cbn [has_double] in H. cbn [split_on2].
  destruct t as [|d t']; [reflexivity|].
  apply orb_false_iff in H. destruct H as [H1 H2]. rewrite H1. rewrite IH by exact H2. reflexivity.
Qed.

Lemma split_on2_app a x rest :
  has_double a (x ++ [a]) = false -> split_on2 a a (x ++ a :: a :: rest) = x :: split_on2 a a rest.
Proof.
  induction x as [|c x IH]; intros H.
  - cbn [app split_on2]. rewrite Z.eqb_refl. reflexivity.
  - cbn [app] in H |- *. cbn [has_double] in H. cbn [split_on2].
    destruct x as [|d x'].
    + cbn [app] in H |- *. apply orb_false_iff in H. destruct H as [H1 _].
      rewrite H1. cbn [split_on2]. rewrite Z.eqb_refl. reflexivity.
    + cbn [app] in H |- *. apply orb_false_iff in H. destruct H as [H1 H2].
      rewrite H1. cbn [app] in IH. rewrite IH by exact H2. reflexivity.
Qed.

Lemma has_double_lacks a x y : lacks a x = true -> has_double a (x ++ y) = has_double a y.
Proof.
  induction x as [|c x IH]; [reflexivity|].
  rewrite lacks_cons. intros H. apply andb_true_iff in H. destruct H as [H1 H2].
  cbn [app has_double]. destruct (x ++ y) as [|d t] eqn:E.
  - apply app_eq_nil in E. destruct E as [_ E]. subst y. reflexivity.
  - rewrite IH by exact H2. destruct (c =? a); [discriminate|]. reflexivity.
Qed.

Lemma has_double_lacks_all a x : lacks a x = true -> has_double a x = false.
Proof. intros H. rewrite <- (app_nil_r x). rewrite has_double_lacks by exact H. reflexivity. Qed.

Lemma has_double_sep a y : first_ok (fun c => c =? a) y = true -> has_double a (a :: y) = has_double a y.
Proof.
  destruct y as [|d y]; [reflexivity|]. cbn [first_ok]. intros H.
  cbn [has_double]. destruct (d =? a); [discriminate|]. rewrite andb_false_r. reflexivity.
Qed.

(** lines joined by single separators *)
Lemma has_double_unlines init lst :
  Forall (fun l => l <> [] /\ lacks 10 l = true) (init ++ [lst]) -> has_double 10 (unlines init ++ lst) = false.
Proof.
  induction init as [|l init IH]; intros H.
  - cbn [unlines flat_map app] in *. inversion H as [|? ? [_ H1] _]; subst. apply has_double_lacks_all. exact H1.
  - cbn [app] in H. inversion H as [|? ? [Hl1 Hl2] Hr]; subst.
    unfold unlines. cbn [flat_map]. rewrite <- !app_assoc. cbn [app]. fold (unlines init).
    rewrite has_double_lacks by exact Hl2. rewrite has_double_sep; [apply IH; exact Hr|].
    destruct init as [|l' init'].
    + cbn [unlines flat_map app]. inversion Hr as [|? ? [A B] _]; subst.
      destruct lst as [|c lst]; [congruence|]. rewrite lacks_cons in B. cbn [first_ok]. lia.
    + inversion Hr as [|? ? [A B] _]; subst. unfold unlines. cbn [flat_map]. rewrite <- !app_assoc.
      destruct l' as [|c l']; [congruence|]. rewrite lacks_cons in B. cbn [app first_ok]. lia.
Qed.

(* ------------------------------------------------------------------------------------------- *)
(** * slices *)

Lemma py_slice_3 {A} (l1 l2 l3 : list A) :
  py_slice (l1 ++ l2 ++ l3) None (Some (Z.of_nat (length l1))) = l1
  /\ py_slice (l1 ++ l2 ++ l3) (Some (Z.of_nat (length l1))) (Some (Z.of_nat (length l1) + Z.of_nat (length l2))) = l2
  /\ py_slice (l1 ++ l2 ++ l3) (Some (Z.of_nat (length l1) + Z.of_nat (length l2))) None = l3.
Proof.
  set (n1 := length l1). set (n2 := length l2). set (n3 := length l3).
  assert (Hn : Z.of_nat (length (l1 ++ l2 ++ l3)) = Z.of_nat n1 + Z.of_nat n2 + Z.of_nat n3).
  { rewrite !app_length. unfold n1, n2, n3. lia. }
  unfold py_slice, clamp_index. rewrite Hn.
  destruct (Z.of_nat n1 <? 0) eqn:E; [lia|].
  destruct (Z.of_nat n1 + Z.of_nat n2 <? 0) eqn:E2; [lia|].
  repeat split.
  - replace (Z.to_nat (Z.min (Z.of_nat n1) (Z.of_nat n1 + Z.of_nat n2 + Z.of_nat n3) - 0)) with n1 by lia.
    change (Z.to_nat 0) with 0%nat. cbn [skipn]. unfold n1.
    rewrite firstn_app, Nat.sub_diag, firstn_all. cbn [firstn]. apply app_nil_r.
  - replace (Z.to_nat (Z.min (Z.of_nat n1) (Z.of_nat n1 + Z.of_nat n2 + Z.of_nat n3))) with n1 by lia.
    replace (Z.to_nat _) with n2 by lia. unfold n1, n2.
    rewrite skipn_app, Nat.sub_diag, skipn_all. cbn [skipn app].
    rewrite firstn_app, Nat.sub_diag, firstn_all. cbn [firstn]. apply app_nil_r.
  - replace (Z.to_nat (Z.min (Z.of_nat n1 + Z.of_nat n2) (Z.of_nat n1 + Z.of_nat n2 + Z.of_nat n3))) with (n1 + n2)%nat by lia.
    replace (Z.to_nat _) with n3 by lia. unfold n1, n2, n3.
    rewrite <- app_length, app_assoc, skipn_app, Nat.sub_diag, skipn_all. cbn [skipn app].
    apply firstn_all.
Qed.

(* ------------------------------------------------------------------------------------------- *)
(** * rows of symbols *)

Lemma cxt_row_facts r :
  r <> [] ->
  let l := map cxt_symbol r in
  l <> [] /\ first_ok isspace l = true /\ last_ok isspace l = true /\ lacks 10 l = true /\ lacks 13 l = true.
Proof.
  intros Hne l.
  assert (G : forall r', r' <> [] -> first_ok isspace (map cxt_symbol r') = true).
  { intros [|b r'] H; [congruence|]. destruct b; reflexivity. }
  assert (L : forall ch, ch <> 88 -> ch <> 46 -> lacks ch l = true).
  { intros ch H1 H2. unfold l. clear -H1 H2. induction r as [|b r IH]; [reflexivity|].
    cbn [map]. rewrite lacks_cons, IH. destruct b; cbn [cxt_symbol]; lia. }
  repeat split.
  - unfold l. destruct r; [congruence|discriminate].
  - apply G. exact Hne.
  - unfold last_ok, l. rewrite <- map_rev. apply G. intros E. apply Hne.
    rewrite <- (rev_involutive r), E. reflexivity.
  - apply L; lia.
  - apply L; lia.
Qed.

Lemma cxt_rows_read bools :
  map_res (map_res cxt_value) (map (map cxt_symbol) bools) = Ok bools.
Proof.
  assert (G : forall r, map_res cxt_value (map cxt_symbol r) = Ok r).
  { induction r as [|b r IH]; [reflexivity|]. cbn [map map_res]. rewrite IH. destruct b; reflexivity. }
  induction bools as [|r bools IH]; [reflexivity|]. cbn [map map_res]. rewrite G, IH. reflexivity.
Qed.

(* ------------------------------------------------------------------------------------------- *)
(** * the round trip *)

Definition line_good (l : str) : Prop :=
  l <> [] /\ first_ok isspace l = true /\ last_ok isspace l = true /\ lacks 10 l = true /\ lacks 13 l = true.

Lemma cxt_body_good objs props bools :
  well_formed objs props bools ->
  Forall (fun s => cxt_ok s = true) objs -> Forall (fun s => cxt_ok s = true) props ->
  Forall line_good (objs ++ props ++ map (map cxt_symbol) bools).
Proof.
  intros [Hobjs [Hprops [Hlen Hrows]]] Hoo Hpo.
  apply Forall_app. split; [|apply Forall_app; split].
  - eapply Forall_impl; [|exact Hoo]. intros s Hs. apply cxt_ok_spec. exact Hs.
  - eapply Forall_impl; [|exact Hpo]. intros s Hs. apply cxt_ok_spec. exact Hs.
  - apply Forall_forall. intros l Hin. apply in_map_iff in Hin. destruct Hin as [r [E Hin]]. subst l.
    apply cxt_row_facts. rewrite Forall_forall in Hrows. specialize (Hrows r Hin).
    destruct r; [destruct props; [congruence|discriminate]|discriminate].
Qed.

(** the dumped text *)
Lemma dump_cxt_shape objs props bools :
  well_formed objs props bools ->
  Forall (fun s => cxt_ok s = true) objs -> Forall (fun s => cxt_ok s = true) props ->
  dump_cxt objs props bools
  = [66] ++ 10 :: 10 :: (nat_to_str (length objs) ++ 10 :: nat_to_str (length props))
    ++ 10 :: 10 :: unlines (objs ++ props ++ map (map cxt_symbol) bools).
Proof.
  intros Hwf Hoo Hpo. unfold dump_cxt, cxt_lines.
  rewrite print_lines_unlines.
  - unfold unlines. cbn [flat_map app]. rewrite <- !app_assoc. reflexivity.
  - pose proof (cxt_body_good _ _ _ Hwf Hoo Hpo) as Hg.
    rewrite forallb_app. apply andb_true_iff. split.
    + cbn [forallb]. destruct (nat_to_str_spec (length objs)) as [_ [A _]].
      destruct (nat_to_str_spec (length props)) as [_ [B _]].
      rewrite (digits_lack 13 _ eq_refl A), (digits_lack 13 _ eq_refl B). reflexivity.
    + apply forallb_Forall. eapply Forall_impl; [|exact Hg]. unfold line_good. cbv beta. tauto.
Qed.

Theorem cxt_roundtrip objs props bools :
  well_formed objs props bools ->
  Forall (fun s => cxt_ok s = true) objs -> Forall (fun s => cxt_ok s = true) props ->
  load_cxt (dump_cxt objs props bools) = Ok (objs, props, bools).
Proof.
  intros Hwf Hoo Hpo.
  pose proof (cxt_body_good _ _ _ Hwf Hoo Hpo) as Hg.
  rewrite dump_cxt_shape by assumption.
  destruct Hwf as [Hobjs [Hprops [Hlen Hrows]]].
  set (rows := map (map cxt_symbol) bools) in *.
  set (body := objs ++ props ++ rows) in *.
  destruct (@exists_snoc _ body) as [init [lst Eb]].
  { unfold body. destruct objs; [congruence|discriminate]. }
  set (ny := nat_to_str (length objs)). set (nx := nat_to_str (length props)).
  destruct (nat_to_str_spec (length objs)) as [Y1 [Y2 Y3]]. fold ny in Y1, Y2, Y3.
  destruct (nat_to_str_spec (length props)) as [X1 [X2 X3]]. fold nx in X1, X2, X3.
  rewrite Eb in Hg |- *.
  assert (Hlst : line_good lst).
  { apply Forall_app in Hg. destruct Hg as [_ Hg]. inversion Hg; assumption. }
  destruct Hlst as [L1 [L2 [L3 [L4 L5]]]].
  assert (Hi10 : forallb (lacks 10) init = true).
  { apply Forall_app in Hg. destruct Hg as [Hg _]. apply forallb_Forall.
    eapply Forall_impl; [|exact Hg]. unfold line_good. cbv beta. tauto. }
  (* first line of the body *)
  assert (Hfirst : first_ok isspace (unlines init ++ lst) = true /\ unlines init ++ lst <> []).
  { destruct init as [|l0 init].
    - cbn [unlines flat_map app]. split; assumption.
    - apply Forall_app in Hg. destruct Hg as [Hg _]. inversion Hg as [|? ? [A [B _]] _]; subst.
      unfold unlines. cbn [flat_map]. rewrite <- !app_assoc. destruct l0; [congruence|].
      split; [exact B|discriminate]. }
  destruct Hfirst as [Hfirst Hbne].
  (* strip *)
  unfold load_cxt.
  set (B' := unlines init ++ lst).
  assert (Hstrip : strip ([66] ++ 10 :: 10 :: (ny ++ 10 :: nx) ++ 10 :: 10 :: unlines (init ++ [lst]))
                   = [66] ++ 10 :: 10 :: (ny ++ 10 :: nx) ++ 10 :: 10 :: B').
  { rewrite unlines_app. unfold unlines at 2. cbn [flat_map]. rewrite app_nil_r.
    replace ([66] ++ 10 :: 10 :: (ny ++ 10 :: nx) ++ 10 :: 10 :: unlines init ++ lst ++ [10])
      with ([] ++ ([66] ++ 10 :: 10 :: (ny ++ 10 :: nx) ++ 10 :: 10 :: B') ++ [10]).
    2:{ unfold B'. cbn [app]. rewrite <- !app_assoc. cbn [app]. rewrite <- !app_assoc. reflexivity. }
    unfold strip. apply strip_by_pad; try reflexivity.
    replace ([66] ++ 10 :: 10 :: (ny ++ 10 :: nx) ++ 10 :: 10 :: B')
      with (([66] ++ 10 :: 10 :: (ny ++ 10 :: nx) ++ 10 :: 10 :: unlines init) ++ lst).
    2:{ unfold B'. cbn [app]. rewrite <- !app_assoc. cbn [app]. reflexivity. }
    rewrite last_ok_app by exact L1. exact L3. }
  rewrite Hstrip. clear Hstrip.
  (* split on blank lines *)
  assert (Hny10 : lacks 10 ny = true) by (apply digits_lack; [reflexivity|exact Y2]).
  assert (Hnx10 : lacks 10 nx = true) by (apply digits_lack; [reflexivity|exact X2]).
  assert (Hsplit : split_on2 10 10 ([66] ++ 10 :: 10 :: (ny ++ 10 :: nx) ++ 10 :: 10 :: B')
                   = [[66]; ny ++ 10 :: nx; B']).
  { rewrite split_on2_app by reflexivity.
    rewrite split_on2_app.
    - rewrite split_on2_none; [reflexivity|]. apply has_double_unlines.
      eapply Forall_impl; [|exact Hg]. unfold line_good. cbv beta. tauto.
    - rewrite <- app_assoc. rewrite has_double_lacks by exact Hny10. cbn [app].
      rewrite has_double_sep.
      + rewrite has_double_lacks by exact Hnx10. reflexivity.
      + destruct nx as [|c nx']; [congruence|]. rewrite lacks_cons in Hnx10. cbn [app first_ok]. lia. }
  rewrite Hsplit. clear Hsplit.
  (* the two numbers *)
  assert (Hns : forall ds, forallb is_digit ds = true -> forallb (fun c => negb (isspace c)) ds = true).
  { intros ds. apply forallb_impl. intros c. unfold is_digit, isspace. lia. }
  rewrite split_ws_two by auto.
  unfold ny, nx. rewrite !py_int_nat_to_str. cbn [bind].
  (* the lines *)
  assert (Hsb : strip B' = B').
  { unfold strip. apply strip_by_id; [exact Hfirst|]. unfold B'. rewrite last_ok_app by exact L1. exact L3. }
  rewrite Hsb. unfold B'. rewrite split_on_unlines by assumption. rewrite <- Eb.
  assert (Hms : map strip body = body).
  { apply map_id_in. intros l Hin. rewrite Eb in Hin. rewrite Forall_forall in Hg.
    destruct (Hg l Hin) as [_ [A [B _]]]. unfold strip. apply strip_by_id; assumption. }
  rewrite Hms. unfold body.
  destruct (py_slice_3 objs props rows) as [S1 [S2 S3]].
  rewrite S1, S2, S3. unfold rows. rewrite cxt_rows_read. reflexivity.
Qed.


(* =========================================================================================== *)
(** PART D - the csv automaton: fimi rows and excel records *)

(** The csv reader automaton against the writers: fimi rows and excel records. *)

(* ------------------------------------------------------------------------------------------- *)
(** * generic facts on [csv_chars] *)

Lemma csv_chars_cons d u st c t :
  csv_chars d u st (c :: t) =
  match step_char d st c with
  | Raise e => ([], Some e)
  | Ok st1 =>
      if line_end u c t then
        let st2 := step_eol st1 in
        if cstate_eqb (fst (fst st2)) START_RECORD then
          let '(rs, e) := csv_chars d u pstate0 t in (frev (snd st2) :: rs, e)
        else csv_chars d u st2 t
      else csv_chars d u st1 t
  end.
Proof. reflexivity. Qed.

Lemma csv_step_mid d u st st1 c t :
  step_char d st c = Ok st1 -> line_end u c t = false -> csv_chars d u st (c :: t) = csv_chars d u st1 t.
Proof. intros H1 H2. rewrite csv_chars_cons, H1, H2. reflexivity. Qed.

Lemma line_end_mid u c t : c <> 10 -> c <> 13 -> t <> [] -> line_end u c t = false.
Proof.
  intros H1 H2 H3. unfold line_end. destruct t; [congruence|]. cbn [is_nil].
  destruct (c =? 10) eqn:E1; [lia|]. destruct (c =? 13) eqn:E2; [lia|]. rewrite andb_false_r. reflexivity.
Qed.

(** a character that is neither a line break, nor the quote, nor the delimiter *)
Definition plain (d : dialect) (c : Z) : bool :=
  negb (is_nl c) && negb (is_quote d c) && negb (c =? d_delim d).

Lemma plain_spec d c : plain d c = true -> is_nl c = false /\ is_quote d c = false /\ (c =? d_delim d) = false.
Proof. unfold plain. intros H. repeat (apply andb_true_iff in H; destruct H as [H ?]).
  repeat split; apply negb_true_iff; assumption. Qed.

Lemma step_plain_start d s acc fs c :
  plain d c = true -> (s = START_RECORD \/ s = START_FIELD) ->
  step_char d (s, acc, fs) c = Ok (IN_FIELD, c :: acc, fs).
Proof.
  intros Hp Hs. destruct (plain_spec _ _ Hp) as [A [B C]].
  destruct Hs; subst s; unfold step_char; rewrite A, B, C; reflexivity.
Qed.

Lemma step_plain_in_field d acc fs c :
  plain d c = true -> step_char d (IN_FIELD, acc, fs) c = Ok (IN_FIELD, c :: acc, fs).
Proof.
  intros Hp. destruct (plain_spec _ _ Hp) as [A [B C]]. unfold step_char. rewrite A, C. reflexivity.
Qed.

Lemma plain_not_nl d c : plain d c = true -> c <> 10 /\ c <> 13.
Proof. intros Hp. destruct (plain_spec _ _ Hp) as [A _]. unfold is_nl in A. lia. Qed.

Lemma csv_plain_in_field d u acc fs f rest :
  forallb (plain d) f = true -> rest <> [] ->
  csv_chars d u (IN_FIELD, acc, fs) (f ++ rest) = csv_chars d u (IN_FIELD, rev f ++ acc, fs) rest.
Proof.
  revert acc. induction f as [|c f IH]; intros acc Hp Hr; [reflexivity|].
  cbn [forallb] in Hp. apply andb_true_iff in Hp. destruct Hp as [H1 H2].
  cbn [app]. rewrite (csv_step_mid d u _ _ c _ (step_plain_in_field d acc fs c H1)).
  - rewrite IH by assumption. cbn [rev]. rewrite <- app_assoc. reflexivity.
  - destruct (plain_not_nl _ _ H1). apply line_end_mid; try assumption. destruct f; [exact Hr|discriminate].
Qed.

(** a non-empty plain field read from the start of a field *)
Lemma csv_plain_field d u s fs c f rest :
  forallb (plain d) (c :: f) = true -> rest <> [] -> (s = START_RECORD \/ s = START_FIELD) ->
  csv_chars d u (s, [], fs) ((c :: f) ++ rest) = csv_chars d u (IN_FIELD, rev (c :: f), fs) rest.
Proof.
  intros Hp Hr Hs. cbn [forallb] in Hp. apply andb_true_iff in Hp. destruct Hp as [H1 H2].
  cbn [app]. rewrite (csv_step_mid d u _ _ c _ (step_plain_start d s [] fs c H1 Hs)).
  - rewrite csv_plain_in_field by assumption. reflexivity.
  - destruct (plain_not_nl _ _ H1). apply line_end_mid; try assumption. destruct f; [exact Hr|discriminate].
Qed.

(* ------------------------------------------------------------------------------------------- *)
(** * fimi: [read_dat] reads back what [dump_dat] writes *)

Lemma digits_plain_fimi ds : forallb is_digit ds = true -> forallb (plain fimi_dialect) ds = true.
Proof. apply forallb_impl. intros c. unfold is_digit, plain, is_nl, is_quote. cbn [d_quote d_delim fimi_dialect]. lia. Qed.

Lemma fimi_field_end_space acc fs rest :
  rest <> [] ->
  csv_chars fimi_dialect true (IN_FIELD, acc, fs) (32 :: rest)
  = csv_chars fimi_dialect true (START_FIELD, [], frev acc :: fs) rest.
Proof. intros Hr. apply csv_step_mid; [reflexivity|]. apply line_end_mid; [lia|lia|exact Hr]. Qed.

Lemma fimi_field_end_nl acc fs rest :
  csv_chars fimi_dialect true (IN_FIELD, acc, fs) (10 :: rest)
  = (frev (frev acc :: fs) :: fst (csv_chars fimi_dialect true pstate0 rest),
     snd (csv_chars fimi_dialect true pstate0 rest)).
Proof.
  rewrite csv_chars_cons. cbn [step_char is_nl Z.eqb orb]. change (10 =? 10) with true. cbn [orb].
  unfold line_end. cbn [Z.eqb orb step_eol fst snd cstate_eqb].
  destruct (csv_chars fimi_dialect true pstate0 rest). reflexivity.
Qed.

Lemma frev_save acc (fs : list str) : frev (frev acc :: fs) = rev fs ++ [rev acc].
Proof. rewrite !frev_rev. reflexivity. Qed.

Lemma fimi_fields s fs n ns rest :
  (s = START_RECORD \/ s = START_FIELD) ->
  csv_chars fimi_dialect true (s, [], fs) (join [32] (map nat_to_str (n :: ns)) ++ 10 :: rest)
  = ((rev fs ++ map nat_to_str (n :: ns)) :: fst (csv_chars fimi_dialect true pstate0 rest),
     snd (csv_chars fimi_dialect true pstate0 rest)).
Proof.
  revert s fs n. induction ns as [|m ns IH]; intros s fs n Hs.
  - cbn [map]. rewrite join_single.
    destruct (nat_to_str_spec n) as [A [B _]]. destruct (nat_to_str n) as [|c f] eqn:E; [congruence|].
    rewrite csv_plain_field; [|apply digits_plain_fimi; exact B|discriminate|exact Hs].
    rewrite fimi_field_end_nl. rewrite frev_save, rev_involutive. reflexivity.
  - cbn [map]. cbn [map] in IH. rewrite join_cons. rewrite <- !app_assoc.
    destruct (nat_to_str_spec n) as [A [B _]]. destruct (nat_to_str n) as [|c f] eqn:E; [congruence|].
    rewrite csv_plain_field; [|apply digits_plain_fimi; exact B|discriminate|exact Hs].
    cbn [app]. rewrite fimi_field_end_space.
    2:{ destruct (nat_to_str_spec m) as [A' _]. cbn [join]. destruct (nat_to_str m); [congruence|discriminate]. }
    rewrite IH by auto. rewrite frev_rev, rev_involutive. cbn [rev]. rewrite <- app_assoc. reflexivity.
Qed.

Lemma fimi_empty_row rest :
  csv_chars fimi_dialect true pstate0 (10 :: rest)
  = ([] :: fst (csv_chars fimi_dialect true pstate0 rest), snd (csv_chars fimi_dialect true pstate0 rest)).
Proof.
  rewrite csv_chars_cons. unfold pstate0. cbn [step_char is_nl]. change (10 =? 10) with true. cbn [orb].
  unfold line_end. cbn [Z.eqb orb step_eol fst snd cstate_eqb].
  destruct (csv_chars fimi_dialect true (START_RECORD, [], []) rest). reflexivity.
Qed.

Lemma fimi_read_rows rows :
  csv_read fimi_dialect true (dump_dat rows) = (map (map nat_to_str) rows, None).
Proof.
  unfold csv_read, dump_dat. induction rows as [|r rows IH]; [reflexivity|].
  cbn [flat_map map]. unfold fimi_writerow at 1. destruct r as [|n ns].
  - cbn [map join app]. rewrite fimi_empty_row, IH. reflexivity.
  - rewrite <- app_assoc. cbn [app]. unfold pstate0. rewrite fimi_fields by auto.
    fold pstate0. rewrite IH. reflexivity.
Qed.

Lemma int_nat_nat_to_str n : int_nat (nat_to_str n) = Ok n.
Proof.
  unfold int_nat. rewrite py_int_nat_to_str. cbn [bind].
  destruct (Z.of_nat n <? 0) eqn:E; [lia|]. rewrite Nat2Z.id. reflexivity.
Qed.

Theorem dat_roundtrip rows : read_dat (dump_dat rows) = Ok rows.
Proof.
  unfold read_dat. rewrite fimi_read_rows.
  assert (G : forall r, map_res int_nat (map nat_to_str r) = Ok r).
  { induction r as [|n r IH]; [reflexivity|]. cbn [map map_res]. rewrite int_nat_nat_to_str, IH. reflexivity. }
  assert (G2 : map_res (map_res int_nat) (map (map nat_to_str) rows) = Ok rows).
  { induction rows as [|r rows IH]; [reflexivity|]. cbn [map map_res]. rewrite G, IH. reflexivity. }
  rewrite G2. reflexivity.
Qed.

(** the indexes written for a row are exactly its true cells, in ascending order *)
Lemma true_indexes_from_spec k row i :
  In i (true_indexes_from k row) <-> (k <= i)%nat /\ nth_error row (i - k) = Some true.
Proof.
  revert k. induction row as [|b row IH]; intros k.
  - cbn [true_indexes_from]. split; [intros []|]. intros [_ H]. destruct (i - k)%nat; discriminate.
  - cbn [true_indexes_from].
    assert (Hrec : In i (true_indexes_from (S k) row) <-> (k < i)%nat /\ nth_error row (i - S k) = Some true).
    { rewrite IH. split; intros [A B]; split; try lia; exact B. }
    destruct (Nat.eq_dec i k) as [E|E].
    + subst i. rewrite Nat.sub_diag. cbn [nth_error].
      destruct b.
      * split; [intros _; split; [lia|reflexivity]|intros _; left; reflexivity].
      * split; [intros H; apply Hrec in H; lia|intros [_ H]; discriminate].
    + assert (Hn : nth_error (b :: row) (i - k) = nth_error row (i - S k) \/ (i < k)%nat).
      { destruct (le_lt_dec k i) as [L|L]; [left|right; exact L].
        replace (i - k)%nat with (S (i - S k)) by lia. reflexivity. }
      destruct b.
      * cbn [In]. rewrite Hrec. split.
        -- intros [H|[A B]]; [lia|]. split; [lia|]. destruct Hn as [Hn|Hn]; [rewrite Hn; exact B|lia].
        -- intros [A B]. right. split; [lia|]. destruct Hn as [Hn|Hn]; [rewrite <- Hn; exact B|lia].
      * rewrite Hrec. split.
        -- intros [A B]. split; [lia|]. destruct Hn as [Hn|Hn]; [rewrite Hn; exact B|lia].
        -- intros [A B]. split; [lia|]. destruct Hn as [Hn|Hn]; [rewrite <- Hn; exact B|lia].
Qed.

Lemma true_indexes_spec row i : In i (true_indexes row) <-> nth_error row i = Some true.
Proof.
  unfold true_indexes. rewrite true_indexes_from_spec, Nat.sub_0_r. split; [tauto|]. intros H. split; [lia|exact H].
Qed.

Lemma true_indexes_from_sorted k row :
  StronglySorted lt (true_indexes_from k row) /\ Forall (fun i => (k <= i)%nat) (true_indexes_from k row).
Proof.
  revert k. induction row as [|b row IH]; intros k.
  - split; constructor.
  - cbn [true_indexes_from]. destruct (IH (S k)) as [A B]. destruct b.
    + split.
      * constructor; [exact A|]. eapply Forall_impl; [|exact B]. intros a Ha. cbv beta in Ha. lia.
      * constructor; [lia|]. eapply Forall_impl; [|exact B]. intros a Ha. cbv beta in Ha. lia.
    + split; [exact A|]. eapply Forall_impl; [|exact B]. intros a Ha. cbv beta in Ha. lia.
Qed.

Lemma true_indexes_sorted row : StronglySorted lt (true_indexes row).
Proof. apply true_indexes_from_sorted. Qed.

Theorem fimi_rows_spec bools : read_dat (dump_fimi bools) = Ok (map true_indexes bools).
Proof. unfold dump_fimi. apply dat_roundtrip. Qed.

(* ------------------------------------------------------------------------------------------- *)
(** * excel dialect: the reader reads back every record the writer writes *)

Lemma excel_step_quoted_other acc fs c :
  c <> 34 -> step_char excel (IN_QUOTED_FIELD, acc, fs) c = Ok (IN_QUOTED_FIELD, c :: acc, fs).
Proof.
  intros H. unfold step_char, is_quote. change (d_quote excel) with (Some 34).
  destruct (c =? 34) eqn:E; [lia|reflexivity].
Qed.

Lemma line_end_false_mid c t : c <> 10 -> t <> [] -> line_end false c t = false.
Proof.
  intros H1 H2. unfold line_end. destruct t; [congruence|]. cbn [is_nil andb orb].
  destruct (c =? 10) eqn:E; [lia|reflexivity].
Qed.

Lemma excel_quoted_body f acc fs rest :
  rest <> [] ->
  csv_chars excel false (IN_QUOTED_FIELD, acc, fs) (csv_escape f ++ 34 :: rest)
  = csv_chars excel false (QUOTE_IN_QUOTED_FIELD, rev f ++ acc, fs) rest.
Proof.
  intros Hr. revert acc. induction f as [|c f IH]; intros acc.
  - cbn [csv_escape flat_map app rev]. apply csv_step_mid; [reflexivity|].
    apply line_end_false_mid; [lia|exact Hr].
  - unfold csv_escape. cbn [flat_map]. fold (csv_escape f).
    assert (Hne : csv_escape f ++ 34 :: rest <> []) by (destruct (csv_escape f); discriminate).
    destruct (c =? 34) eqn:E.
    + assert (c = 34) by lia. subst c. cbn [app].
      rewrite (csv_step_mid excel false _ (QUOTE_IN_QUOTED_FIELD, acc, fs) 34); [|reflexivity|reflexivity].
      rewrite (csv_step_mid excel false _ (IN_QUOTED_FIELD, 34 :: acc, fs) 34); [|reflexivity|].
      * rewrite IH. cbn [rev]. rewrite <- app_assoc. reflexivity.
      * apply line_end_false_mid; [lia|exact Hne].
    + cbn [app]. rewrite csv_chars_cons, excel_step_quoted_other by lia.
      destruct (line_end false c (csv_escape f ++ 34 :: rest)).
      * cbn [step_eol fst snd cstate_eqb]. rewrite IH. cbn [rev]. rewrite <- app_assoc. reflexivity.
      * rewrite IH. cbn [rev]. rewrite <- app_assoc. reflexivity.
Qed.

Lemma not_special_plain f : existsb csv_special f = false -> forallb (plain excel) f = true.
Proof.
  induction f as [|c f IH]; [reflexivity|].
  cbn [existsb forallb]. intros H. apply orb_false_iff in H. destruct H as [H1 H2].
  rewrite IH by exact H2. rewrite andb_true_r.
  unfold csv_special in H1. unfold plain, is_nl, is_quote. change (d_quote excel) with (Some 34).
  change (d_delim excel) with 44. lia.
Qed.

Definition after_field (s : cstate) : Prop := s = START_FIELD \/ s = IN_FIELD \/ s = QUOTE_IN_QUOTED_FIELD.

Lemma excel_read_field f fs rest :
  rest <> [] ->
  exists s1 acc,
    csv_chars excel false (START_FIELD, [], fs) (csv_quote_field f ++ rest) = csv_chars excel false (s1, acc, fs) rest
    /\ after_field s1 /\ rev acc = f.
Proof.
  intros Hr. unfold csv_quote_field. destruct (existsb csv_special f) eqn:E.
  - exists QUOTE_IN_QUOTED_FIELD, (rev f ++ []). split; [|split].
    + cbn [app]. rewrite <- app_assoc. cbn [app].
      rewrite (csv_step_mid excel false _ (IN_QUOTED_FIELD, [], fs) 34); [|reflexivity|].
      * apply excel_quoted_body. exact Hr.
      * apply line_end_false_mid; [lia|]. destruct (csv_escape f); discriminate.
    + right. right. reflexivity.
    + rewrite app_nil_r. apply rev_involutive.
  - apply not_special_plain in E. destruct f as [|c f].
    + exists START_FIELD, []. split; [reflexivity|]. split; [left; reflexivity|reflexivity].
    + exists IN_FIELD, (rev (c :: f)). split; [|split].
      * apply csv_plain_field; auto.
      * right. left. reflexivity.
      * apply rev_involutive.
Qed.

Lemma excel_after_comma s1 acc fs rest :
  after_field s1 -> rest <> [] ->
  csv_chars excel false (s1, acc, fs) (44 :: rest) = csv_chars excel false (START_FIELD, [], frev acc :: fs) rest.
Proof.
  intros Hs Hr. apply csv_step_mid.
  - destruct Hs as [Hs|[Hs|Hs]]; subst s1; reflexivity.
  - apply line_end_false_mid; [lia|exact Hr].
Qed.

Lemma excel_after_crlf s1 acc fs rest :
  after_field s1 ->
  csv_chars excel false (s1, acc, fs) (13 :: 10 :: rest)
  = (frev (frev acc :: fs) :: fst (csv_chars excel false pstate0 rest), snd (csv_chars excel false pstate0 rest)).
Proof.
  intros Hs.
  rewrite (csv_step_mid excel false _ (EAT_CRNL, [], frev acc :: fs) 13);
    [|destruct Hs as [Hs|[Hs|Hs]]; subst s1; reflexivity|reflexivity].
  rewrite csv_chars_cons.
  change (step_char excel (EAT_CRNL, [], frev acc :: fs) 10) with (@Ok pstate (EAT_CRNL, [], frev acc :: fs)).
  change (line_end false 10 rest) with true. cbn [step_eol fst snd cstate_eqb].
  destruct (csv_chars excel false pstate0 rest). reflexivity.
Qed.

Lemma excel_row_fields fs f fl rest :
  csv_chars excel false (START_FIELD, [], fs) (join [44] (map csv_quote_field (f :: fl)) ++ 13 :: 10 :: rest)
  = ((rev fs ++ f :: fl) :: fst (csv_chars excel false pstate0 rest), snd (csv_chars excel false pstate0 rest)).
Proof.
  revert fs f. induction fl as [|g fl IH]; intros fs f.
  - cbn [map]. rewrite join_single.
    destruct (excel_read_field f fs (13 :: 10 :: rest)) as [s1 [acc [E [Hs Hacc]]]]; [discriminate|].
    rewrite E, excel_after_crlf by exact Hs. rewrite frev_save, Hacc. reflexivity.
  - cbn [map]. cbn [map] in IH. rewrite join_cons, <- !app_assoc.
    destruct (excel_read_field f fs ([44] ++ join [44] (csv_quote_field g :: map csv_quote_field fl) ++ 13 :: 10 :: rest))
      as [s1 [acc [E [Hs Hacc]]]]; [discriminate|].
    rewrite E. cbn [app]. rewrite excel_after_comma; [|exact Hs|].
    2:{ destruct (join [44] (csv_quote_field g :: map csv_quote_field fl)); discriminate. }
    rewrite IH. rewrite frev_rev. cbn [rev]. rewrite Hacc, <- app_assoc. reflexivity.
Qed.

Lemma excel_start_record c t :
  c <> 10 -> c <> 13 ->
  csv_chars excel false pstate0 (c :: t) = csv_chars excel false (START_FIELD, [], []) (c :: t).
Proof.
  intros H1 H2. rewrite !csv_chars_cons.
  assert (E : step_char excel pstate0 c = step_char excel (START_FIELD, [], []) c).
  { unfold step_char, pstate0. assert (Hn : is_nl c = false) by (unfold is_nl; lia). rewrite Hn. reflexivity. }
  rewrite E. reflexivity.
Qed.

Lemma quote_field_first f :
  match csv_quote_field f with
  | [] => f = []
  | c :: _ => c <> 10 /\ c <> 13
  end.
Proof.
  unfold csv_quote_field. destruct (existsb csv_special f) eqn:E.
  - lia.
  - destruct f as [|c f]; [reflexivity|]. apply not_special_plain in E. cbn [forallb] in E.
    apply andb_true_iff in E. destruct E as [E _]. apply (plain_not_nl excel). exact E.
Qed.

Lemma excel_writerow fields rest :
  fields <> [] ->
  csv_chars excel false pstate0 (csv_writerow fields ++ rest)
  = (fields :: fst (csv_chars excel false pstate0 rest), snd (csv_chars excel false pstate0 rest)).
Proof.
  intros Hne. destruct fields as [|f fl]; [congruence|].
  assert (Hcase : (f = [] /\ fl = []) \/
                  csv_writerow (f :: fl) = join [44] (map csv_quote_field (f :: fl)) ++ [13; 10]
                  /\ (f <> [] \/ fl <> [])).
  { destruct f as [|c f]; [destruct fl as [|g fl]|].
    - left. auto.
    - right. split; [reflexivity|right; discriminate].
    - right. split; [reflexivity|left; discriminate]. }
  destruct Hcase as [[Hf Hfl]|[Hw Hnot]].
  - subst f fl. cbn [csv_writerow app].
    rewrite (csv_step_mid excel false _ (IN_QUOTED_FIELD, [], []) 34); [|reflexivity|reflexivity].
    rewrite (csv_step_mid excel false _ (QUOTE_IN_QUOTED_FIELD, [], []) 34); [|reflexivity|reflexivity].
    rewrite excel_after_crlf by (right; right; reflexivity). reflexivity.
  - rewrite Hw. rewrite <- app_assoc. cbn [app].
    assert (Hfirst : exists c t, join [44] (map csv_quote_field (f :: fl)) ++ 13 :: 10 :: rest = c :: t
                                 /\ c <> 10 /\ c <> 13).
    { cbn [map join]. pose proof (quote_field_first f) as Hq.
      destruct (csv_quote_field f) as [|c q].
      - subst f. destruct Hnot as [Hnot|Hnot]; [congruence|]. destruct fl as [|g fl]; [congruence|].
        cbn [map flat_map app]. eexists. eexists. split; [reflexivity|]. lia.
      - cbn [app]. eexists. eexists. split; [reflexivity|]. exact Hq. }
    destruct Hfirst as [c [t [Et [Hc1 Hc2]]]].
    rewrite Et, excel_start_record by assumption. rewrite <- Et.
    rewrite excel_row_fields. reflexivity.
Qed.

Lemma excel_read_rows rows :
  Forall (fun r : list str => r <> []) rows ->
  csv_read excel false (flat_map csv_writerow rows) = (rows, None).
Proof.
  unfold csv_read. induction 1 as [|r rows Hr _ IH]; [reflexivity|].
  cbn [flat_map]. rewrite excel_writerow by exact Hr. rewrite IH. reflexivity.
Qed.

(* ------------------------------------------------------------------------------------------- *)
(** * csv_context.py round trips *)

Definition csv_record (as_int : bool) (ob : str * list bool) : list str :=
  fst ob :: map (csv_symbol as_int) (snd ob).

Lemma dump_csv_records as_int objs props bools :
  dump_csv as_int objs props bools
  = flat_map csv_writerow (([] :: props) :: map (csv_record as_int) (combine objs bools)).
Proof.
  unfold dump_csv. cbn [flat_map]. f_equal.
  induction (combine objs bools) as [|ob l IH]; [reflexivity|].
  cbn [flat_map map]. rewrite IH. reflexivity.
Qed.

Lemma csv_values_symbols as_int r : map_res (csv_value as_int) (map (csv_symbol as_int) r) = Ok r.
Proof.
  induction r as [|b r IH]; [reflexivity|]. cbn [map map_res]. rewrite IH.
  destruct as_int, b; reflexivity.
Qed.

Lemma csv_rows_records as_int obs :
  csv_rows as_int (map (csv_record as_int) obs) None = Ok (map fst obs, map snd obs).
Proof.
  induction obs as [|[o r] obs IH]; [reflexivity|].
  cbn [map csv_record fst snd csv_rows]. rewrite csv_values_symbols. cbn [bind].
  rewrite IH. reflexivity.
Qed.

Lemma csv_read_dump as_int objs props bools :
  csv_read excel false (dump_csv as_int objs props bools)
  = (([] :: props) :: map (csv_record as_int) (combine objs bools), None).
Proof.
  rewrite dump_csv_records. apply excel_read_rows. constructor; [discriminate|].
  apply Forall_forall. intros r Hin. apply in_map_iff in Hin. destruct Hin as [ob [E _]]. subst r. discriminate.
Qed.

(** explicit symbol set: no condition on the labels at all, rows may even have different lengths *)
Theorem csv_roundtrip as_int objs props bools :
  length bools = length objs ->
  load_csv (Some as_int) (dump_csv as_int objs props bools) = Ok (objs, props, bools).
Proof.
  intros Hlen. unfold load_csv. rewrite csv_read_dump. cbn [bind].
  rewrite csv_rows_records. rewrite map_fst_combine, map_snd_combine by (symmetry; exact Hlen || exact Hlen).
  reflexivity.
Qed.

(** symbol set detected from the first data row *)
Theorem csv_roundtrip_auto as_int objs props bools :
  well_formed objs props bools ->
  load_csv None (dump_csv as_int objs props bools) = Ok (objs, props, bools).
Proof.
  intros [Hobjs [Hprops [Hlen Hrows]]]. unfold load_csv. rewrite csv_read_dump.
  destruct objs as [|o objs]; [congruence|]. destruct bools as [|r bools]; [discriminate|].
  cbn [combine map]. unfold csv_record at 1. cbn [fst snd].
  assert (Hdet : (if is_ok (map_res (csv_value false) (map (csv_symbol as_int) r)) then Ok false
                  else if is_ok (map_res (csv_value true) (map (csv_symbol as_int) r)) then Ok true
                  else Raise ValueError) = @Ok bool as_int).
  { destruct as_int.
    - rewrite (csv_values_symbols true). inversion Hrows as [|? ? Hr _]; subst.
      destruct r as [|b r]; [destruct props; [congruence|discriminate]|].
      cbn [map map_res]. destruct b; reflexivity.
    - rewrite (csv_values_symbols false). reflexivity. }
  rewrite Hdet. cbn [bind].
  pose proof (csv_rows_records as_int (combine (o :: objs) (r :: bools))) as Hrr.
  rewrite map_fst_combine, map_snd_combine in Hrr by (symmetry; exact Hlen || exact Hlen).
  cbn [combine] in Hrr.
  change (map (csv_record as_int) ((o, r) :: combine objs bools))
    with (csv_record as_int (o, r) :: map (csv_record as_int) (combine objs bools)) in Hrr.
  rewrite Hrr. reflexivity.
Qed.


(* =========================================================================================== *)
(** PART E - infer_format and the independent readers *)

(** The independent readers of Spec/FormatSpec.v recover the triple from the dumpers' output;
    [infer_format] against the suffix table. *)

(* ------------------------------------------------------------------------------------------- *)
(** * infer_format *)

Lemma str_eqb_spec a b : str_eqb a b = true <-> a = b.
Proof.
  unfold str_eqb. revert b. induction a as [|x a IH]; intros [|y b]; try (split; [discriminate|congruence]).
  - split; reflexivity.
  - rewrite andb_true_iff, IH, Z.eqb_eq. split; [intros [? ?]; congruence|intros E; injection E; auto].
Qed.

Lemma str_eqb_refl a : str_eqb a a = true.
Proof. apply str_eqb_spec. reflexivity. Qed.

Theorem infer_format_spec suffix name :
  format_of_suffix suffix = Ok name <-> In (map ascii_lower suffix, name) suffix_table.
Proof.
  unfold format_of_suffix, suffix_table. set (s := map ascii_lower suffix). split.
  - intros H.
    destruct (str_eqb s [46; 116; 120; 116]) eqn:E1.
    { apply str_eqb_spec in E1. rewrite E1. injection H as <-. left. reflexivity. }
    destruct (str_eqb s [46; 99; 120; 116]) eqn:E2.
    { apply str_eqb_spec in E2. rewrite E2. injection H as <-. right. left. reflexivity. }
    destruct (str_eqb s [46; 99; 115; 118]) eqn:E3.
    { apply str_eqb_spec in E3. rewrite E3. injection H as <-. right. right. left. reflexivity. }
    destruct (str_eqb s [46; 100; 97; 116]) eqn:E4.
    { apply str_eqb_spec in E4. rewrite E4. injection H as <-. right. right. right. left. reflexivity. }
    destruct (str_eqb s [46; 112; 121]) eqn:E5.
    { apply str_eqb_spec in E5. rewrite E5. injection H as <-. right. right. right. right. left. reflexivity. }
    discriminate.
  - intros [H|[H|[H|[H|[H|[]]]]]]; injection H as <- <-; reflexivity.
Qed.

Theorem infer_format_unknown suffix :
  (forall name, ~ In (map ascii_lower suffix, name) suffix_table) <-> format_of_suffix suffix = Raise ValueError.
Proof.
  split.
  - intros H. destruct (format_of_suffix suffix) as [n|e] eqn:E.
    + apply infer_format_spec in E. destruct (H _ E).
    + revert E. unfold format_of_suffix.
      repeat match goal with |- context [if ?b then _ else _] => destruct b end; congruence.
  - intros H name Hin. apply infer_format_spec in Hin. congruence.
Qed.

Theorem infer_format_case_insensitive s s' :
  map ascii_lower s = map ascii_lower s' -> format_of_suffix s = format_of_suffix s'.
Proof. intros H. unfold format_of_suffix. rewrite H. reflexivity. Qed.

(* ------------------------------------------------------------------------------------------- *)
(** * shared helpers *)

Lemma all_some_map {A B} (f : A -> option B) (g : A -> B) l :
  (forall x, In x l -> f x = Some (g x)) -> all_some (map f l) = Some (map g l).
Proof.
  induction l as [|x l IH]; intros H; [reflexivity|].
  cbn [map all_some]. rewrite (H x (or_introl eq_refl)). rewrite IH by (intros y Hy; apply H; right; exact Hy).
  reflexivity.
Qed.

Lemma forallb_filter_id {A} (p : A -> bool) l : forallb p l = true -> filter p l = l.
Proof.
  induction l as [|x l IH]; [reflexivity|]. cbn [forallb filter]. intros H.
  apply andb_true_iff in H. destruct H as [H1 H2]. rewrite H1, IH by exact H2. reflexivity.
Qed.

Lemma before_lacks c s : lacks c s = true -> before c s = s.
Proof.
  induction s as [|x s IH]; [reflexivity|]. rewrite lacks_cons. intros H.
  apply andb_true_iff in H. destruct H as [H1 H2]. cbn [before]. destruct (x =? c); [discriminate|].
  rewrite IH by exact H2. reflexivity.
Qed.

Lemma first_ok_weaken (p q : Z -> bool) s :
  (forall c, q c = true -> p c = true) -> first_ok p s = true -> first_ok q s = true.
Proof.
  intros H. destruct s as [|c s]; [reflexivity|]. cbn [first_ok]. specialize (H c).
  destruct (q c); [|reflexivity]. rewrite H by reflexivity. discriminate.
Qed.

Lemma last_ok_weaken (p q : Z -> bool) s :
  (forall c, q c = true -> p c = true) -> last_ok p s = true -> last_ok q s = true.
Proof. intros H. unfold last_ok. apply first_ok_weaken. exact H. Qed.

Lemma blank_isspace c : blank c = true -> isspace c = true.
Proof. unfold blank, isspace. lia. Qed.

Lemma trim_pad a s b :
  forallb blank a = true -> forallb blank b = true -> first_ok isspace s = true -> last_ok isspace s = true ->
  trim (a ++ s ++ b) = s.
Proof.
  intros Ha Hb Hf Hl. unfold trim. apply strip_by_pad; try assumption.
  - eapply first_ok_weaken; [apply blank_isspace|exact Hf].
  - eapply last_ok_weaken; [apply blank_isspace|exact Hl].
Qed.

Lemma is_blank_repeat n : is_blank (repeat 32 n) = true.
Proof. apply forallb_repeat. reflexivity. Qed.

(* ------------------------------------------------------------------------------------------- *)
(** * table *)

Lemma split_on_bars c0 cs :
  lacks 124 c0 = true -> forallb (lacks 124) cs = true ->
  split_on 124 (c0 ++ bars cs ++ [124]) = c0 :: cs ++ [[]].
Proof.
  revert c0. induction cs as [|c cs IH]; intros c0 H0 H.
  - cbn [bars flat_map app]. rewrite split_on_app by exact H0. reflexivity.
  - cbn [forallb] in H. apply andb_true_iff in H. destruct H as [H1 H2].
    unfold bars. cbn [flat_map]. fold (bars cs). cbn [app]. rewrite split_on_app by exact H0.
    rewrite <- app_assoc. rewrite IH by assumption. reflexivity.
Qed.

Lemma table_columns_bars c0 cs :
  lacks 124 c0 = true -> forallb (lacks 124) cs = true ->
  table_columns (c0 ++ bars cs ++ [124]) = Some (c0 :: cs).
Proof.
  intros H0 H. unfold table_columns. rewrite split_on_bars by assumption.
  change (c0 :: cs ++ [[]]) with ((c0 :: cs) ++ [[]]). rewrite rev_app_distr.
  change (rev [[]] ++ rev (c0 :: cs)) with (([] : str) :: rev (c0 :: cs)).
  cbv iota beta. rewrite rev_involutive. reflexivity.
Qed.

Lemma padded_cell_blank (p : str) b : negb (is_blank (ljust (length p) (cell_X b))) = b.
Proof.
  unfold ljust. destruct b; cbn [cell_X app].
  - reflexivity.
  - rewrite is_blank_repeat. reflexivity.
Qed.

Lemma padded_cells_blank props r :
  length r = length props ->
  map (fun c => negb (is_blank c)) (padded props (map cell_X r)) = r.
Proof.
  revert r. induction props as [|p ps IH]; intros [|b r] H; try discriminate; [reflexivity|].
  injection H as H. unfold padded in *. cbn [map combine fst snd]. rewrite padded_cell_blank, IH by exact H.
  reflexivity.
Qed.

(** the text of a dumped table: its lines, joined by '\n' *)
Lemma dump_table_text indent objs props bools :
  Forall (fun s => table_ok s = true) objs -> Forall (fun s => table_ok s = true) props ->
  split_on 10 (dump_table indent objs props bools) = table_lines indent objs props bools.
Proof.
  intros Hoo Hpo.
  set (wd := max_len objs :: map (@length Z) props).
  set (ls := table_lines indent objs props bools).
  assert (Hl10 : forall s, table_ok s = true -> lacks 10 s = true /\ lacks 13 s = true).
  { intros s Hs. destruct (table_ok_spec _ Hs) as [Hc _]. destruct (cxt_ok_spec _ Hc) as [_ [_ [_ [A B]]]]. auto. }
  assert (Hfl : forall ch, (ch = 10 \/ ch = 13) -> forall l, Forall (fun s => table_ok s = true) l -> forallb (lacks ch) l = true).
  { intros ch Hch l Hl. apply forallb_Forall. eapply Forall_impl; [|exact Hl]. cbv beta. intros s Hs.
    destruct (Hl10 s Hs). destruct Hch; subst; assumption. }
  assert (Hfacts : Forall (fun l => l <> [] /\ last_ok isspace l = true /\ lacks 10 l = true /\ lacks 13 l = true) ls).
  { unfold ls, table_lines. fold wd. constructor.
    - apply table_line_facts; cbn [forallb]; rewrite Hfl; auto.
    - apply Forall_forall. intros l Hin. apply in_map_iff in Hin. destruct Hin as [[o r] [El Hin]]. subst l.
      cbn [fst snd]. pose proof (in_combine_l _ _ _ _ Hin) as Ho. rewrite Forall_forall in Hoo.
      destruct (Hl10 o (Hoo o Ho)) as [A B].
      apply table_line_facts; cbn [forallb]; rewrite ?A, ?B, forallb_lacks_cell_X by lia; reflexivity. }
  destruct (@exists_snoc _ ls) as [init [lst Els]]; [unfold ls, table_lines; discriminate|].
  rewrite Els in Hfacts. apply Forall_app in Hfacts. destruct Hfacts as [Hinit Hlst].
  inversion Hlst as [|? ? [Hl1 [Hl2 [Hl3 Hl4]]] _]; subst.
  assert (Hi10 : forallb (lacks 10) init = true).
  { apply forallb_Forall. eapply Forall_impl; [|exact Hinit]. cbv beta. tauto. }
  assert (Hi13 : forallb (lacks 13) (init ++ [lst]) = true).
  { rewrite forallb_app. cbn [forallb]. rewrite Hl4. rewrite andb_true_r.
    apply forallb_Forall. eapply Forall_impl; [|exact Hinit]. cbv beta. tauto. }
  unfold dump_table. fold ls. rewrite Els.
  rewrite print_lines_unlines by exact Hi13.
  rewrite rstrip_unlines by assumption.
  apply split_on_unlines; assumption.
Qed.

Theorem spec_reads_dump_table indent objs props bools :
  well_formed objs props bools ->
  Forall (fun s => table_ok s = true) objs -> Forall (fun s => table_ok s = true) props ->
  spec_read_table (dump_table indent objs props bools) = Some (objs, props, bools).
Proof.
  intros [Hobjs [Hprops [Hlen Hrows]]] Hoo Hpo.
  unfold spec_read_table. rewrite dump_table_text by assumption.
  set (w0 := max_len objs). set (wd := w0 :: map (@length Z) props).
  assert (Hlab : forall s, table_ok s = true ->
            s <> [] /\ first_ok isspace s = true /\ last_ok isspace s = true /\ lacks 124 s = true /\ lacks 35 s = true).
  { intros s Hs. destruct (table_ok_spec _ Hs) as [Hc [A B]]. destruct (cxt_ok_spec _ Hc) as [C [D [E _]]]. auto. }
  assert (Hp124 : forallb (lacks 124) props = true).
  { apply forallb_Forall. eapply Forall_impl; [|exact Hpo]. intros s Hs. apply Hlab in Hs. tauto. }
  assert (Hp35 : forallb (lacks 35) props = true).
  { apply forallb_Forall. eapply Forall_impl; [|exact Hpo]. intros s Hs. apply Hlab in Hs. tauto. }
  assert (Hpne : Forall (fun p : str => p <> []) props).
  { eapply Forall_impl; [|exact Hpo]. intros s Hs. apply Hlab in Hs. tauto. }
  (* what each line yields *)
  set (cols := fun ob : str * list bool =>
                 (fst ob ++ repeat 32 (w0 - length (fst ob))%nat) :: padded props (map cell_X (snd ob))).
  assert (Hhdr : let l := table_line indent wd ([] :: props) in
                 before 35 l = l /\ is_blank l = false /\ table_columns (trim l) = Some ([] :: props)).
  { cbv zeta. unfold wd. rewrite table_line_shape, padded_self. unfold ljust. cbn [length app]. rewrite Nat.sub_0_r.
    split; [|split].
    - apply before_lacks. rewrite !lacks_app, !lacks_repeat, lacks_bars by (try lia; assumption). reflexivity.
    - unfold is_blank. rewrite !forallb_app. cbn [forallb]. change (blank 124) with false.
      rewrite !andb_false_r. reflexivity.
    - replace (repeat 32 indent ++ repeat 32 w0 ++ bars props ++ [124])
        with ((repeat 32 indent ++ repeat 32 w0) ++ (bars props ++ [124]) ++ []).
      2:{ rewrite <- !app_assoc. rewrite app_nil_r. reflexivity. }
      rewrite trim_pad.
      + apply (table_columns_bars [] props); [reflexivity|exact Hp124].
      + rewrite forallb_app, !forallb_repeat by reflexivity. reflexivity.
      + reflexivity.
      + destruct props; reflexivity.
      + rewrite last_ok_snoc. reflexivity. }
  assert (Hrow : forall ob, In ob (combine objs bools) ->
                 let l := table_line indent wd (fst ob :: map cell_X (snd ob)) in
                 before 35 l = l /\ is_blank l = false /\ table_columns (trim l) = Some (cols ob)).
  { intros [o r] Hin. cbn [fst snd]. cbv zeta.
    assert (Ho : table_ok o = true) by (rewrite Forall_forall in Hoo; apply Hoo; eapply in_combine_l; exact Hin).
    assert (Hr : length r = length props) by (rewrite Forall_forall in Hrows; apply Hrows; eapply in_combine_r; exact Hin).
    destruct (Hlab o Ho) as [O1 [O2 [O3 [O4 O5]]]].
    destruct (padded_cells_good props r Hpne Hr) as [Hgood [_ Hplen]].
    unfold wd. rewrite table_line_shape. unfold ljust. unfold cols. cbn [fst snd].
    set (pad := repeat 32 (w0 - length o)%nat). set (cells := padded props (map cell_X r)) in *.
    assert (Hc124 : forallb (lacks 124) cells = true).
    { apply cells_good_forallb; [|exact Hgood]. unfold cell_good. tauto. }
    assert (Hc35 : forallb (lacks 35) cells = true).
    { apply cells_good_forallb; [|exact Hgood]. unfold cell_good. tauto. }
    split; [|split].
    - apply before_lacks. unfold pad. rewrite !lacks_app, O5, !lacks_repeat, lacks_bars by (try lia; assumption).
      reflexivity.
    - unfold is_blank. rewrite !forallb_app. cbn [forallb]. change (blank 124) with false.
      rewrite !andb_false_r. reflexivity.
    - replace (repeat 32 indent ++ (o ++ pad) ++ bars cells ++ [124])
        with (repeat 32 indent ++ ((o ++ pad) ++ bars cells ++ [124]) ++ []).
      2:{ rewrite app_nil_r. reflexivity. }
      rewrite trim_pad.
      + apply table_columns_bars; [|exact Hc124]. unfold pad. rewrite lacks_app, O4, lacks_repeat by lia. reflexivity.
      + apply forallb_repeat. reflexivity.
      + reflexivity.
      + rewrite <- app_assoc. rewrite first_ok_app by exact O1. exact O2.
      + rewrite app_assoc, last_ok_snoc. reflexivity. }
  (* all lines *)
  unfold table_lines. fold w0. fold wd.
  set (rowlines := map (fun ob => table_line indent wd (fst ob :: map cell_X (snd ob))) (combine objs bools)).
  cbv zeta in Hhdr. destruct Hhdr as [Hh1 [Hh2 Hh3]].
  assert (Hb : map (before 35) rowlines = rowlines).
  { apply map_id_in. intros l Hin. apply in_map_iff in Hin. destruct Hin as [ob [E Hin]]. subst l.
    apply (Hrow ob Hin). }
  assert (Hf : filter (fun l => negb (is_blank l)) rowlines = rowlines).
  { apply forallb_filter_id. apply forallb_forall. intros l Hin. apply in_map_iff in Hin.
    destruct Hin as [ob [E Hin]]. subst l. destruct (Hrow ob Hin) as [_ [A _]]. cbv zeta in A. rewrite A. reflexivity. }
  cbn [map]. rewrite Hh1, Hb. cbn [filter]. rewrite Hh2. cbn [negb]. rewrite Hf.
  cbn [map all_some]. rewrite Hh3.
  assert (Hcols : all_some (map (fun l => table_columns (trim l)) rowlines) = Some (map cols (combine objs bools))).
  { unfold rowlines. rewrite map_map. apply all_some_map. intros ob Hin. apply (Hrow ob Hin). }
  rewrite Hcols.
  assert (Hnames : map trim props = props).
  { apply map_id_in. intros s Hin. rewrite Forall_forall in Hpo. destruct (Hlab s (Hpo s Hin)) as [_ [A [B _]]].
    rewrite <- (app_nil_r s) at 1. change (s ++ []) with ([] ++ s ++ []). apply trim_pad; auto. }
  rewrite Hnames.
  assert (Hrd : all_some (map (fun r => match r with
                                        | o :: cells =>
                                            if (length cells =? length props)%nat
                                            then Some (trim o, map (fun c => negb (is_blank c)) cells) else None
                                        | [] => None
                                        end) (map cols (combine objs bools)))
                = Some (map (fun ob => (fst ob, snd ob)) (combine objs bools))).
  { rewrite map_map. apply all_some_map. intros [o r] Hin. unfold cols. cbn [fst snd].
    assert (Ho : table_ok o = true) by (rewrite Forall_forall in Hoo; apply Hoo; eapply in_combine_l; exact Hin).
    assert (Hr : length r = length props) by (rewrite Forall_forall in Hrows; apply Hrows; eapply in_combine_r; exact Hin).
    destruct (Hlab o Ho) as [O1 [O2 [O3 _]]].
    destruct (padded_cells_good props r Hpne Hr) as [_ [_ Hplen]].
    rewrite Hplen, Nat.eqb_refl. rewrite padded_cells_blank by exact Hr.
    change (o ++ repeat 32 (w0 - length o)%nat) with ([] ++ o ++ repeat 32 (w0 - length o)%nat).
    rewrite trim_pad; auto. apply forallb_repeat. reflexivity. }
  rewrite Hrd. rewrite !map_map. cbn [fst snd].
  change (map (fun x : str * list bool => fst x) (combine objs bools)) with (map fst (combine objs bools)).
  change (map (fun x : str * list bool => snd x) (combine objs bools)) with (map snd (combine objs bools)).
  rewrite map_fst_combine, map_snd_combine by (symmetry; exact Hlen || exact Hlen). reflexivity.
Qed.

(* ------------------------------------------------------------------------------------------- *)
(** * cxt *)

Lemma read_nat_from_digits ds acc :
  forallb is_digit ds = true -> read_nat_from acc ds = Some (Z.to_nat (dval (Z.of_nat acc) ds)).
Proof.
  revert acc. induction ds as [|c ds IH]; intros acc H.
  - unfold dval. cbn [read_nat_from fold_left]. rewrite Nat2Z.id. reflexivity.
  - cbn [forallb] in H. apply andb_true_iff in H. destruct H as [H1 H2].
    cbn [read_nat_from]. unfold read_digit. unfold is_digit in H1. rewrite H1. rewrite IH by exact H2.
    unfold dval. cbn [fold_left]. do 3 f_equal. lia.
Qed.

Lemma read_nat_nat_to_str n : read_nat (nat_to_str n) = Some n.
Proof.
  destruct (nat_to_str_spec n) as [A [B C]]. unfold read_nat.
  destruct (nat_to_str n) as [|c ds] eqn:E; [congruence|].
  rewrite read_nat_from_digits by exact B. change (Z.of_nat 0) with 0. rewrite C, Nat2Z.id. reflexivity.
Qed.

Lemma cxt_lines_lack ch objs props bools :
  (ch = 10 \/ ch = 13) ->
  Forall (fun s => cxt_ok s = true) objs -> Forall (fun s => cxt_ok s = true) props ->
  forallb (lacks ch) (cxt_lines objs props bools) = true.
Proof.
  intros Hch Hoo Hpo. unfold cxt_lines.
  assert (Hlab : forall l, Forall (fun s => cxt_ok s = true) l -> forallb (lacks ch) l = true).
  { intros l Hl. apply forallb_Forall. eapply Forall_impl; [|exact Hl]. intros s Hs. cbv beta in Hs.
    destruct (cxt_ok_spec _ Hs) as [_ [_ [_ [A B]]]]. destruct Hch; subst ch; assumption. }
  rewrite !forallb_app, (Hlab objs Hoo), (Hlab props Hpo).
  destruct (nat_to_str_spec (length objs)) as [_ [A _]]. destruct (nat_to_str_spec (length props)) as [_ [B _]].
  assert (Hd : is_digit ch = false) by (destruct Hch; subst ch; reflexivity).
  cbn [forallb]. rewrite (digits_lack ch _ Hd A), (digits_lack ch _ Hd B).
  assert (Hrows : forallb (lacks ch) (map (map cxt_symbol) bools) = true).
  { apply forallb_forall. intros l Hin. apply in_map_iff in Hin. destruct Hin as [r [E _]]. subst l.
    induction r as [|b r IH]; [reflexivity|]. cbn [map]. rewrite lacks_cons, IH.
    destruct Hch; subst ch; destruct b; reflexivity. }
  rewrite Hrows. destruct Hch; subst ch; reflexivity.
Qed.

Lemma firstn_app_exact {A} (l1 l2 : list A) : firstn (length l1) (l1 ++ l2) = l1.
Proof. rewrite firstn_app, Nat.sub_diag, firstn_all. cbn [firstn]. apply app_nil_r. Qed.

Lemma skipn_app_exact {A} (l1 l2 : list A) : skipn (length l1) (l1 ++ l2) = l2.
Proof. rewrite skipn_app, Nat.sub_diag, skipn_all. reflexivity. Qed.

Lemma spec_read_cxt_shape s ny nx rest :
  split_on 10 s = [66] :: [] :: ny :: nx :: [] :: rest ->
  spec_read_cxt s =
  match read_nat ny, read_nat nx with
  | Some y, Some x =>
      let objs := firstn y rest in
      let props := firstn x (skipn y rest) in
      let rows := firstn y (skipn (y + x) rest) in
      let tail := skipn (y + x + y) rest in
      if (length objs =? y)%nat && (length props =? x)%nat && (length rows =? y)%nat
         && forallb (fun l : str => is_nil l) tail
         && forallb (fun r : str => (length r =? x)%nat) rows
      then match all_some (map (fun r => all_some (map cxt_cell r)) rows) with
           | Some bools => Some (objs, props, bools)
           | None => None
           end
      else None
  | _, _ => None
  end.
Proof. intros H. unfold spec_read_cxt. rewrite H. reflexivity. Qed.

Theorem spec_reads_dump_cxt objs props bools :
  well_formed objs props bools ->
  Forall (fun s => cxt_ok s = true) objs -> Forall (fun s => cxt_ok s = true) props ->
  spec_read_cxt (dump_cxt objs props bools) = Some (objs, props, bools).
Proof.
  intros [Hobjs [Hprops [Hlen Hrows]]] Hoo Hpo.
  set (rows := map (map cxt_symbol) bools).
  assert (Hsplit : split_on 10 (dump_cxt objs props bools)
                   = [66] :: [] :: nat_to_str (length objs) :: nat_to_str (length props) :: []
                     :: (objs ++ props ++ rows) ++ [[]]).
  { unfold dump_cxt. rewrite print_lines_unlines by (apply cxt_lines_lack; auto).
    rewrite <- (app_nil_r (unlines _)). rewrite split_on_unlines; [|apply cxt_lines_lack; auto|reflexivity].
    unfold cxt_lines. reflexivity. }
  rewrite (spec_read_cxt_shape _ _ _ _ Hsplit). rewrite !read_nat_nat_to_str.
  set (y := length objs). set (x := length props).
  assert (Hrl : length rows = y) by (unfold rows; rewrite map_length; exact Hlen).
  match goal with |- context [skipn (y + x + y) ?r] => set (rest := r) end.
  assert (E1 : @firstn (list Z) y rest = objs).
  { unfold rest. rewrite <- !app_assoc. apply firstn_app_exact. }
  assert (E2 : @skipn (list Z) y rest = props ++ rows ++ [[]]).
  { unfold rest. rewrite <- !app_assoc. apply skipn_app_exact. }
  assert (E3 : @skipn (list Z) (y + x) rest = rows ++ [[]]).
  { unfold rest, y, x. rewrite <- app_length. rewrite <- !app_assoc. rewrite (app_assoc objs props). apply skipn_app_exact. }
  assert (E4 : @skipn (list Z) (y + x + y) rest = [[]]).
  { unfold rest. rewrite <- Hrl at 2. unfold y, x. rewrite <- !app_length. rewrite <- app_assoc. apply skipn_app_exact. }
  cbv zeta. rewrite E1, E2, E3, E4.
  assert (E5 : @firstn (list Z) x (props ++ rows ++ [[]]) = props) by apply firstn_app_exact.
  assert (E6 : @firstn (list Z) y (rows ++ [[]]) = rows) by (rewrite <- Hrl; apply firstn_app_exact).
  rewrite E5, E6. fold y. fold x. rewrite Hrl, !Nat.eqb_refl. cbn [forallb is_nil andb].
  assert (Hw : forallb (fun r : str => (length r =? x)%nat) rows = true).
  { apply forallb_forall. intros l Hin. apply in_map_iff in Hin. destruct Hin as [r [E Hin]]. subst l.
    rewrite map_length. rewrite Forall_forall in Hrows. rewrite (Hrows r Hin). apply Nat.eqb_refl. }
  rewrite Hw.
  assert (Hc : all_some (map (fun r => all_some (map cxt_cell r)) rows) = Some bools).
  { unfold rows. rewrite map_map. rewrite <- (map_id bools) at 2. apply all_some_map. intros r _.
    induction r as [|b r IH]; [reflexivity|]. cbn [map all_some]. rewrite IH. destruct b; reflexivity. }
  rewrite Hc. reflexivity.
Qed.

(* ------------------------------------------------------------------------------------------- *)
(** * csv *)

Lemma rfc_quoted_quote cur fs t : rfc_records Quoted cur fs (34 :: t) = rfc_records QuoteSeen cur fs t.
Proof. reflexivity. Qed.
Lemma rfc_quoteseen_quote cur fs t : rfc_records QuoteSeen cur fs (34 :: t) = rfc_records Quoted (34 :: cur) fs t.
Proof. reflexivity. Qed.
Lemma rfc_quoted_other cur fs c t : c <> 34 -> rfc_records Quoted cur fs (c :: t) = rfc_records Quoted (c :: cur) fs t.
Proof. intros H. cbn [rfc_records]. destruct (c =? 34) eqn:E; [lia|reflexivity]. Qed.

Lemma plain_excel_spec c : plain excel c = true -> c <> 34 /\ c <> 44 /\ c <> 13 /\ c <> 10.
Proof.
  unfold plain, is_nl, is_quote. change (d_quote excel) with (Some 34). change (d_delim excel) with 44. lia.
Qed.

Lemma rfc_plain m cur fs c t :
  plain excel c = true -> (m = FieldStart \/ m = Unquoted) ->
  rfc_records m cur fs (c :: t) = rfc_records Unquoted (c :: cur) fs t.
Proof.
  intros Hp Hm. destruct (plain_excel_spec c Hp) as [A [B [C D]]].
  destruct Hm; subst m; cbn [rfc_records];
    destruct (c =? 34) eqn:E1; try lia; destruct (c =? 44) eqn:E2; try lia; destruct (c =? 13) eqn:E3; try lia;
    destruct (c =? 10) eqn:E4; try lia; reflexivity.
Qed.

Lemma rfc_quoted_body f cur fs rest :
  rfc_records Quoted cur fs (csv_escape f ++ 34 :: rest) = rfc_records QuoteSeen (rev f ++ cur) fs rest.
Proof.
  revert cur. induction f as [|c f IH]; intros cur; [reflexivity|].
  unfold csv_escape. cbn [flat_map]. fold (csv_escape f). destruct (c =? 34) eqn:E.
  - assert (c = 34) by lia. subst c. cbn [app]. rewrite rfc_quoted_quote, rfc_quoteseen_quote, IH.
    cbn [rev]. rewrite <- app_assoc. reflexivity.
  - cbn [app]. rewrite rfc_quoted_other by lia. rewrite IH. cbn [rev]. rewrite <- app_assoc. reflexivity.
Qed.

Lemma rfc_unquoted f cur fs rest :
  forallb (plain excel) f = true ->
  rfc_records Unquoted cur fs (f ++ rest) = rfc_records Unquoted (rev f ++ cur) fs rest.
Proof.
  revert cur. induction f as [|c f IH]; intros cur H; [reflexivity|].
  cbn [forallb] in H. apply andb_true_iff in H. destruct H as [H1 H2].
  cbn [app]. rewrite (rfc_plain Unquoted) by auto. rewrite IH by exact H2. cbn [rev]. rewrite <- app_assoc. reflexivity.
Qed.

Definition rfc_after (m : rfc_mode) : Prop := m = FieldStart \/ m = Unquoted \/ m = QuoteSeen.

Lemma rfc_read_field f fs rest :
  exists m cur, rfc_records FieldStart [] fs (csv_quote_field f ++ rest) = rfc_records m cur fs rest
                /\ rfc_after m /\ rev cur = f.
Proof.
  unfold csv_quote_field. destruct (existsb csv_special f) eqn:E.
  - exists QuoteSeen, (rev f ++ []). split; [|split].
    + cbn [app]. rewrite <- app_assoc. cbn [app]. apply rfc_quoted_body.
    + right. right. reflexivity.
    + rewrite app_nil_r. apply rev_involutive.
  - apply not_special_plain in E. destruct f as [|c f].
    + exists FieldStart, []. split; [reflexivity|]. split; [left; reflexivity|reflexivity].
    + exists Unquoted, (rev (c :: f)). split; [|split].
      * cbn [forallb] in E. apply andb_true_iff in E. destruct E as [E1 E2].
        cbn [app]. rewrite (rfc_plain FieldStart) by auto. rewrite rfc_unquoted by exact E2. reflexivity.
      * right. left. reflexivity.
      * apply rev_involutive.
Qed.

Lemma rfc_after_comma m cur fs t :
  rfc_after m -> rfc_records m cur fs (44 :: t) = rfc_records FieldStart [] (rev cur :: fs) t.
Proof. intros [H|[H|H]]; subst m; reflexivity. Qed.

Lemma rfc_after_crlf m cur fs t :
  rfc_after m ->
  rfc_records m cur fs (13 :: 10 :: t)
  = match rfc_records FieldStart [] [] t with Some rs => Some (rev (rev cur :: fs) :: rs) | None => None end.
Proof. intros [H|[H|H]]; subst m; reflexivity. Qed.

Lemma rfc_row_fields fs f fl rest :
  rfc_records FieldStart [] fs (join [44] (map csv_quote_field (f :: fl)) ++ 13 :: 10 :: rest)
  = match rfc_records FieldStart [] [] rest with Some rs => Some ((rev fs ++ f :: fl) :: rs) | None => None end.
Proof.
  revert fs f. induction fl as [|g fl IH]; intros fs f.
  - cbn [map]. rewrite join_single.
    destruct (rfc_read_field f fs (13 :: 10 :: rest)) as [m [cur [E [Hm Hc]]]].
    rewrite E, rfc_after_crlf by exact Hm. cbn [rev]. rewrite Hc. reflexivity.
  - cbn [map]. cbn [map] in IH. rewrite join_cons, <- !app_assoc.
    destruct (rfc_read_field f fs ([44] ++ join [44] (csv_quote_field g :: map csv_quote_field fl) ++ 13 :: 10 :: rest))
      as [m [cur [E [Hm Hc]]]].
    rewrite E. cbn [app]. rewrite rfc_after_comma by exact Hm. rewrite IH. cbn [rev]. rewrite Hc, <- app_assoc.
    reflexivity.
Qed.

Lemma rfc_writerow fields rest :
  fields <> [] ->
  rfc_records FieldStart [] [] (csv_writerow fields ++ rest)
  = match rfc_records FieldStart [] [] rest with Some rs => Some (fields :: rs) | None => None end.
Proof.
  intros Hne. destruct fields as [|f fl]; [congruence|].
  assert (Hcase : (f = [] /\ fl = []) \/
                  csv_writerow (f :: fl) = join [44] (map csv_quote_field (f :: fl)) ++ [13; 10]).
  { destruct f as [|c f]; [destruct fl as [|g fl]|]; auto. }
  destruct Hcase as [[Hf Hfl]|Hw].
  - subst f fl. reflexivity.
  - rewrite Hw, <- app_assoc. cbn [app]. rewrite rfc_row_fields. reflexivity.
Qed.

Lemma rfc_read_rows rows :
  Forall (fun r : list str => r <> []) rows ->
  rfc_records FieldStart [] [] (flat_map csv_writerow rows) = Some rows.
Proof.
  induction 1 as [|r rows Hr _ IH]; [reflexivity|].
  cbn [flat_map]. rewrite rfc_writerow by exact Hr. rewrite IH. reflexivity.
Qed.

Lemma spec_csv_cells as_int r : all_some (map (spec_csv_cell as_int) (map (csv_symbol as_int) r)) = Some r.
Proof.
  induction r as [|b r IH]; [reflexivity|]. cbn [map all_some]. rewrite IH. destruct as_int, b; reflexivity.
Qed.

Theorem spec_reads_dump_csv as_int objs props bools :
  length bools = length objs -> Forall (fun r => length r = length props) bools ->
  spec_read_csv as_int (dump_csv as_int objs props bools) = Some (objs, props, bools).
Proof.
  intros Hlen Hrows. unfold spec_read_csv. rewrite dump_csv_records.
  rewrite rfc_read_rows.
  2:{ constructor; [discriminate|]. apply Forall_forall. intros r Hin. apply in_map_iff in Hin.
      destruct Hin as [ob [E _]]. subst r. discriminate. }
  assert (Hrd : all_some (map (fun r => match r with
                                        | o :: cells =>
                                            match all_some (map (spec_csv_cell as_int) cells) with
                                            | Some bs => if (length bs =? length props)%nat then Some (o, bs) else None
                                            | None => None
                                            end
                                        | [] => None
                                        end) (map (csv_record as_int) (combine objs bools)))
                = Some (map (fun ob => (fst ob, snd ob)) (combine objs bools))).
  { rewrite map_map. apply all_some_map. intros [o r] Hin. unfold csv_record. cbn [fst snd].
    rewrite spec_csv_cells. rewrite Forall_forall in Hrows. rewrite (Hrows r (in_combine_r _ _ _ _ Hin)).
    rewrite Nat.eqb_refl. reflexivity. }
  rewrite Hrd. rewrite !map_map. cbn [fst snd].
  change (map (fun x : str * list bool => fst x) (combine objs bools)) with (map fst (combine objs bools)).
  change (map (fun x : str * list bool => snd x) (combine objs bools)) with (map snd (combine objs bools)).
  rewrite map_fst_combine, map_snd_combine by (symmetry; exact Hlen || exact Hlen). reflexivity.
Qed.

(* ------------------------------------------------------------------------------------------- *)
(** * wiki-table *)

Lemma split_on2_join a x xs :
  forallb (lacks a) (x :: xs) = true -> split_on2 a a (join [a; a] (x :: xs)) = x :: xs.
Proof.
  revert x. induction xs as [|y ys IH]; intros x H.
  - rewrite join_single. apply split_on2_none. apply has_double_lacks_all.
    cbn [forallb] in H. rewrite andb_true_r in H. exact H.
  - rewrite join_cons. cbn [forallb] in H. apply andb_true_iff in H. destruct H as [H1 H2].
    cbn [app]. rewrite split_on2_app.
    + rewrite IH by exact H2. reflexivity.
    + rewrite has_double_lacks by exact H1. reflexivity.
Qed.

Lemma wiki_ok_spec s :
  wiki_ok s = true -> s <> [] /\ lacks 10 s = true /\ lacks 13 s = true /\ lacks 33 s = true /\ lacks 124 s = true.
Proof.
  unfold wiki_ok. intros H. apply andb_true_iff in H. destruct H as [H1 H2].
  split; [destruct s; [discriminate|discriminate]|].
  repeat split; revert H2; apply forallb_impl; intros c; unfold linebreak; lia.
Qed.

Definition wiki_cells (props : list str) (r : list bool) : list str :=
  map (fun wb => ljust (fst wb) (cell_X (snd wb))) (combine (map (@length Z) props) r).

Lemma wiki_cells_padded props r : wiki_cells props r = padded props (map cell_X r).
Proof.
  unfold wiki_cells, padded. revert r. induction props as [|p ps IH]; intros [|b r]; try reflexivity.
  cbn [map combine fst snd]. rewrite IH. reflexivity.
Qed.

Definition wiki_group (props : list str) (ob : str * list bool) : list str :=
  [[124; 45]; 33 :: fst ob; 124 :: join [124; 124] (wiki_cells props (snd ob))].

Lemma wiki_lines_shape objs props bools :
  wiki_lines objs props bools
  = ([wiki_head; [33]; 33 :: join [33; 33] props] ++ flat_map (wiki_group props) (combine objs bools)) ++ [[124; 125]].
Proof. unfold wiki_lines. rewrite <- app_assoc. reflexivity. Qed.

Lemma wiki_groups_end n : wiki_groups n [[124; 125]] = Some [].
Proof. reflexivity. Qed.

Lemma wiki_groups_cons n o cells rest :
  wiki_groups n ([124; 45] :: (33 :: o) :: (124 :: cells) :: rest)
  = let cs := split_on2 124 124 cells in
    if (length cs =? n)%nat then
      match wiki_groups n rest with
      | Some g => Some ((o, map (fun c => negb (is_blank c)) cs) :: g)
      | None => None
      end
    else None.
Proof. reflexivity. Qed.

Lemma spec_read_wikitable_shape s names rest :
  split_on 10 s = wiki_head :: [33] :: (33 :: names) :: rest ->
  spec_read_wikitable s =
  let props := split_on2 33 33 names in
  match wiki_groups (length props) rest with
  | Some g => Some (map fst g, props, map snd g)
  | None => None
  end.
Proof. intros H. unfold spec_read_wikitable. rewrite H. reflexivity. Qed.

Lemma lacks_padded_cell ch w b : ch <> 88 -> ch <> 32 -> lacks ch (ljust w (cell_X b)) = true.
Proof. intros H1 H2. unfold ljust. rewrite lacks_app, lacks_cell_X, lacks_repeat by lia. reflexivity. Qed.

Lemma lacks_wiki_cells ch props r : ch <> 88 -> ch <> 32 -> forallb (lacks ch) (wiki_cells props r) = true.
Proof.
  intros H1 H2. unfold wiki_cells. apply forallb_forall. intros c Hin. apply in_map_iff in Hin.
  destruct Hin as [[w b] [E _]]. subst c. apply lacks_padded_cell; assumption.
Qed.

Theorem spec_reads_dump_wikitable objs props bools :
  well_formed objs props bools ->
  Forall (fun s => wiki_ok s = true) objs -> Forall (fun s => wiki_ok s = true) props ->
  spec_read_wikitable (dump_wikitable objs props bools) = Some (objs, props, bools).
Proof.
  intros [Hobjs [Hprops [Hlen Hrows]]] Hoo Hpo.
  assert (Hlab : forall ch, (ch = 10 \/ ch = 13 \/ ch = 33) -> forall l, Forall (fun s => wiki_ok s = true) l ->
                            forallb (lacks ch) l = true).
  { intros ch Hch l Hl. apply forallb_Forall. eapply Forall_impl; [|exact Hl]. intros s Hs. cbv beta in Hs.
    destruct (wiki_ok_spec _ Hs) as [_ [A [B [C _]]]]. destruct Hch as [->|[->| ->]]; assumption. }
  destruct props as [|p ps]; [congruence|]. set (props := p :: ps) in *.
  set (init := [wiki_head; [33]; 33 :: join [33; 33] props] ++ flat_map (wiki_group props) (combine objs bools)).
  (* every line is free of line breaks *)
  assert (Hinit : forall ch, (ch = 10 \/ ch = 13) -> forallb (lacks ch) init = true).
  { intros ch Hch. unfold init. rewrite forallb_app. apply andb_true_iff. split.
    - cbn [forallb]. rewrite andb_true_r.
      assert (lacks ch wiki_head = true) by (destruct Hch; subst ch; reflexivity).
      assert (lacks ch [33] = true) by (destruct Hch; subst ch; reflexivity).
      rewrite H, H0. cbn [andb]. rewrite lacks_cons. unfold props. rewrite lacks_join.
      + destruct Hch; subst ch; reflexivity.
      + destruct Hch; subst ch; reflexivity.
      + apply Hlab; [tauto|exact Hpo].
    - apply forallb_forall. intros l Hin. apply in_flat_map in Hin. destruct Hin as [[o r] [Hin Hl]].
      assert (Ho : lacks ch o = true).
      { pose proof (Hlab ch ltac:(tauto) objs Hoo) as Hf. rewrite forallb_forall in Hf. apply Hf.
        eapply in_combine_l. exact Hin. }
      unfold wiki_group in Hl. cbn [fst snd In] in Hl.
      destruct Hl as [<-|[<-|[<-|[]]]].
      + destruct Hch; subst ch; reflexivity.
      + rewrite lacks_cons, Ho. destruct Hch; subst ch; reflexivity.
      + rewrite lacks_cons.
        assert (Hc : forallb (lacks ch) (wiki_cells props r) = true)
          by (apply lacks_wiki_cells; destruct Hch; subst ch; lia).
        destruct (wiki_cells props r) as [|c cs] eqn:Ec.
        * destruct Hch; subst ch; reflexivity.
        * rewrite lacks_join; [destruct Hch; subst ch; reflexivity|destruct Hch; subst ch; reflexivity|exact Hc]. }
  (* the text and its lines *)
  assert (Hsplit : split_on 10 (dump_wikitable objs props bools) = init ++ [[124; 125]]).
  { unfold dump_wikitable. rewrite wiki_lines_shape. fold init.
    rewrite print_lines_unlines.
    2:{ rewrite forallb_app, (Hinit 13) by tauto. reflexivity. }
    rewrite rstrip_unlines by (discriminate || reflexivity).
    apply split_on_unlines; [apply Hinit; tauto|reflexivity]. }
  unfold init in Hsplit. cbn [app] in Hsplit.
  rewrite (spec_read_wikitable_shape _ _ _ Hsplit). cbv zeta.
  assert (Hnames : split_on2 33 33 (join [33; 33] props) = props).
  { unfold props. apply split_on2_join. apply Hlab; [tauto|exact Hpo]. }
  rewrite Hnames.
  assert (Hpne : Forall (fun q : str => q <> []) props).
  { eapply Forall_impl; [|exact Hpo]. intros s Hs. apply wiki_ok_spec in Hs. tauto. }
  assert (Hg : forall obs, (forall o r, In (o, r) obs -> length r = length props) ->
            wiki_groups (length props) (flat_map (wiki_group props) obs ++ [[124; 125]])
            = Some (map (fun ob => (fst ob, snd ob)) obs)).
  { induction obs as [|[o r] obs IH]; intros Hall; [reflexivity|].
    cbn [flat_map]. unfold wiki_group at 1. cbn [fst snd app]. rewrite wiki_groups_cons. cbv zeta.
    assert (Hr : length r = length props) by (apply (Hall o r); left; reflexivity).
    destruct (padded_cells_good props r Hpne Hr) as [Hgood [_ Hplen]].
    rewrite wiki_cells_padded.
    destruct (padded props (map cell_X r)) as [|c cs] eqn:Ec.
    { unfold props in Hplen. discriminate. }
    rewrite split_on2_join.
    2:{ apply cells_good_forallb; [|exact Hgood]. unfold cell_good. tauto. }
    rewrite Hplen, Nat.eqb_refl. rewrite IH by (intros o' r' H; apply (Hall o' r'); right; exact H).
    rewrite <- Ec, padded_cells_blank by exact Hr. reflexivity. }
  rewrite Hg.
  2:{ intros o r Hin. rewrite Forall_forall in Hrows. apply Hrows. eapply in_combine_r. exact Hin. }
  rewrite !map_map. cbn [fst snd].
  change (map (fun x : str * list bool => fst x) (combine objs bools)) with (map fst (combine objs bools)).
  change (map (fun x : str * list bool => snd x) (combine objs bools)) with (map snd (combine objs bools)).
  rewrite map_fst_combine, map_snd_combine by (symmetry; exact Hlen || exact Hlen). reflexivity.
Qed.
