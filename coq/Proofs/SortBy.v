(** [sort_by] returns *the* strictly sorted permutation of its argument (when the keys are
    pairwise distinct); [rank_in] is the position in a duplicate-free list. *)
From Coq Require Import ZArith List Bool Lia ZifyBool Arith Sorted Permutation.
From Concepts Require Import Base.Res Base.PyInt Base.BitSet Spec.FCA Spec.Context
  Model.Matrices Model.ContextApi Model.Members Model.Lattice
  Proofs.LatticeFirst.
Import ListNotations.
Open Scope Z_scope.

(** * generic facts on strictly sorted lists *)

Section Strict.
  Context {A : Type} (R : A -> A -> Prop).
  Hypothesis R_irrefl : forall x, ~ R x x.
  Hypothesis R_trans : forall x y z, R x y -> R y z -> R x z.

  Lemma StronglySorted_app l1 l2 :
    StronglySorted R l1 -> StronglySorted R l2 ->
    (forall a b, In a l1 -> In b l2 -> R a b) -> StronglySorted R (l1 ++ l2).
  Proof.
    intros H1 H2 H. induction l1 as [|x l1 IH]; cbn [app]; [exact H2|].
    inversion H1 as [|x' l' Hs Hf]; subst. constructor.
    - apply IH; [exact Hs|]. intros a b Ha Hb. apply H; [right; exact Ha|exact Hb].
    - apply Forall_app. split; [exact Hf|].
      apply Forall_forall. intros b Hb. apply H; [left; reflexivity|exact Hb].
  Qed.

  Lemma StronglySorted_app_inv l1 l2 :
    StronglySorted R (l1 ++ l2) ->
    StronglySorted R l1 /\ StronglySorted R l2 /\ (forall a b, In a l1 -> In b l2 -> R a b).
  Proof.
    induction l1 as [|x l1 IH]; cbn [app]; intros H.
    - split; [constructor|]. split; [exact H|]. intros a b [].
    - inversion H as [|x' l' Hs Hf]; subst. destruct (IH Hs) as [S1 [S2 Hc]].
      apply Forall_app in Hf. destruct Hf as [F1 F2]. split; [constructor; assumption|].
      split; [exact S2|]. intros a b [<-|Ha] Hb.
      + rewrite Forall_forall in F2. apply F2. exact Hb.
      + apply Hc; assumption.
  Qed.

  Lemma StronglySorted_NoDup l : StronglySorted R l -> NoDup l.
  Proof.
    induction 1 as [|x l Hs IH Hf]; constructor; [|exact IH].
    intros Hin. rewrite Forall_forall in Hf. apply (R_irrefl x). apply Hf. exact Hin.
  Qed.

  (** uniqueness: two strictly sorted lists with the same elements are equal *)
  Theorem StronglySorted_unique l1 : forall l2,
    StronglySorted R l1 -> StronglySorted R l2 -> (forall x, In x l1 <-> In x l2) -> l1 = l2.
  Proof.
    induction l1 as [|a l1 IH]; intros l2 S1 S2 Hiff.
    - destruct l2 as [|b l2]; [reflexivity|]. exfalso. apply (proj2 (Hiff b)). left. reflexivity.
    - destruct l2 as [|b l2]; [exfalso; apply (proj1 (Hiff a)); left; reflexivity|].
      inversion S1 as [|a' l1' Hs1 Hf1]; subst. inversion S2 as [|b' l2' Hs2 Hf2]; subst.
      rewrite Forall_forall in Hf1, Hf2.
      assert (a = b) as ->.
      { destruct (proj1 (Hiff a) (or_introl eq_refl)) as [E|Ha]; [symmetry; exact E|].
        destruct (proj2 (Hiff b) (or_introl eq_refl)) as [E|Hb]; [exact E|].
        exfalso. apply (R_irrefl a). apply (R_trans a b a); [apply Hf1; exact Hb|apply Hf2; exact Ha]. }
      f_equal. apply IH; try assumption.
      intros x. split; intros Hx.
      + destruct (proj1 (Hiff x) (or_intror Hx)) as [E|H]; [|exact H].
        subst x. exfalso. apply (R_irrefl b). apply Hf1. exact Hx.
      + destruct (proj2 (Hiff x) (or_intror Hx)) as [E|H]; [|exact H].
        subst x. exfalso. apply (R_irrefl b). apply Hf2. exact Hx.
  Qed.

  Corollary StronglySorted_perm_unique l1 l2 :
    StronglySorted R l1 -> StronglySorted R l2 -> Permutation l1 l2 -> l1 = l2.
  Proof.
    intros S1 S2 P. apply StronglySorted_unique; try assumption.
    intros x. split; [apply Permutation_in; exact P|apply Permutation_in; symmetry; exact P].
  Qed.
End Strict.

Lemma StronglySorted_impl {A} (R1 R2 : A -> A -> Prop) l :
  (forall a b, In a l -> In b l -> R1 a b -> R2 a b) -> StronglySorted R1 l -> StronglySorted R2 l.
Proof.
  intros H S. induction S as [|x l Hs IH Hf]; constructor.
  - apply IH. intros a b Ha Hb. apply H; right; assumption.
  - rewrite Forall_forall in *. intros y Hy. apply H; [left; reflexivity|right; exact Hy|apply Hf; exact Hy].
Qed.

Lemma StronglySorted_map {A B} (f : A -> B) (R : B -> B -> Prop) l :
  StronglySorted (fun a b => R (f a) (f b)) l <-> StronglySorted R (map f l).
Proof.
  induction l as [|x l IH]; cbn [map].
  - split; intros _; constructor.
  - split; intros H; inversion H as [|x' l' Hs Hf]; subst; constructor.
    + apply IH. exact Hs.
    + rewrite Forall_forall in *. intros y Hy. apply in_map_iff in Hy. destruct Hy as [z [<- Hz]]. apply Hf. exact Hz.
    + apply IH. exact Hs.
    + rewrite Forall_forall in *. intros y Hy. apply Hf. apply in_map. exact Hy.
Qed.

(** * the order induced by a key function *)

Definition klt {A} (kf : A -> key) (a b : A) : Prop := key_ltb (kf a) (kf b) = true.

Lemma klt_irrefl {A} (kf : A -> key) x : ~ klt kf x x.
Proof. unfold klt. rewrite key_ltb_irrefl. discriminate. Qed.

Lemma klt_trans {A} (kf : A -> key) x y z : klt kf x y -> klt kf y z -> klt kf x z.
Proof. unfold klt. apply key_ltb_trans. Qed.

Lemma klt_total {A} (kf : A -> key) x y : kf x <> kf y -> klt kf x y \/ klt kf y x.
Proof. intros Hne. unfold klt. destruct (key_ltb_total (kf x) (kf y)) as [H|[H|H]]; auto; contradiction. Qed.

Lemma klt_sorted_keys_NoDup {A} (kf : A -> key) l : StronglySorted (klt kf) l -> NoDup (map kf l).
Proof.
  intros H. apply (StronglySorted_NoDup (fun a b => key_ltb a b = true)).
  - intros x. rewrite key_ltb_irrefl. discriminate.
  - apply (proj1 (StronglySorted_map kf (fun a b => key_ltb a b = true) l)). exact H.
Qed.

(** * insert_by / sort_by *)

Lemma insert_by_perm {A} (kf : A -> key) x l : Permutation (insert_by kf x l) (x :: l).
Proof.
  induction l as [|y l IH]; cbn [insert_by]; [apply Permutation_refl|].
  destruct (key_ltb (kf x) (kf y)); [apply Permutation_refl|].
  apply perm_trans with (y :: x :: l); [apply perm_skip; exact IH|apply perm_swap].
Qed.

Lemma insert_by_In {A} (kf : A -> key) x l y : In y (insert_by kf x l) <-> y = x \/ In y l.
Proof.
  split; intros H.
  - apply (Permutation_in _ (insert_by_perm kf x l)) in H. destruct H as [<-|H]; auto.
  - apply (Permutation_in _ (Permutation_sym (insert_by_perm kf x l))). destruct H as [->|H]; [left|right]; auto.
Qed.

Lemma insert_by_sorted {A} (kf : A -> key) x l :
  StronglySorted (klt kf) l -> (forall y, In y l -> kf y <> kf x) ->
  StronglySorted (klt kf) (insert_by kf x l).
Proof.
  intros S. induction S as [|y l Hs IH Hf]; intros Hd; cbn [insert_by].
  - constructor; constructor.
  - destruct (key_ltb (kf x) (kf y)) eqn:E.
    + constructor; [constructor; assumption|]. constructor; [exact E|].
      rewrite Forall_forall in *. intros z Hz. apply (klt_trans kf x y z); [exact E|apply Hf; exact Hz].
    + assert (Hyx : klt kf y x).
      { destruct (klt_total kf y x) as [H|H]; [apply Hd; left; reflexivity|exact H|].
        unfold klt in H. congruence. }
      constructor.
      * apply IH. intros z Hz. apply Hd. right. exact Hz.
      * apply Forall_forall. intros z Hz. apply insert_by_In in Hz. destruct Hz as [->|Hz]; [exact Hyx|].
        rewrite Forall_forall in Hf. apply Hf. exact Hz.
Qed.

Lemma sort_by_fold_perm {A} (kf : A -> key) l : forall acc,
  Permutation (fold_left (fun acc x => insert_by kf x acc) l acc) (l ++ acc).
Proof.
  induction l as [|x l IH]; intros acc; cbn [fold_left app]; [apply Permutation_refl|].
  apply perm_trans with (l ++ insert_by kf x acc); [apply IH|].
  apply perm_trans with (l ++ x :: acc); [apply Permutation_app_head, insert_by_perm|].
  apply Permutation_sym, Permutation_middle.
Qed.

Theorem sort_by_perm {A} (kf : A -> key) l : Permutation (sort_by kf l) l.
Proof. unfold sort_by. pose proof (sort_by_fold_perm kf l []) as H. rewrite app_nil_r in H. exact H. Qed.

Corollary sort_by_In {A} (kf : A -> key) l x : In x (sort_by kf l) <-> In x l.
Proof.
  split; [apply Permutation_in, sort_by_perm|apply Permutation_in, Permutation_sym, sort_by_perm].
Qed.

Corollary sort_by_length {A} (kf : A -> key) l : length (sort_by kf l) = length l.
Proof. apply Permutation_length, sort_by_perm. Qed.

Lemma sort_by_fold_sorted {A} (kf : A -> key) l : forall acc,
  StronglySorted (klt kf) acc -> NoDup (map kf (l ++ acc)) ->
  StronglySorted (klt kf) (fold_left (fun acc x => insert_by kf x acc) l acc).
Proof.
  induction l as [|x l IH]; intros acc S Hnd; cbn [fold_left]; [exact S|].
  cbn [app map] in Hnd. inversion Hnd as [|k ks Hnotin Hnd']; subst.
  apply IH.
  - apply insert_by_sorted; [exact S|]. intros y Hy E. apply Hnotin. rewrite <- E.
    apply in_map. apply in_or_app. right. exact Hy.
  - apply (Permutation_NoDup (l := map kf (x :: l ++ acc))); [|exact Hnd].
    apply Permutation_map. apply perm_trans with (l ++ x :: acc); [apply Permutation_middle|].
    apply Permutation_app_head, Permutation_sym, insert_by_perm.
Qed.

Theorem sort_by_sorted {A} (kf : A -> key) l :
  NoDup (map kf l) -> StronglySorted (klt kf) (sort_by kf l).
Proof.
  intros H. unfold sort_by. apply sort_by_fold_sorted; [constructor|]. rewrite app_nil_r. exact H.
Qed.

(** characterisation: any strictly sorted permutation of [l] is [sort_by kf l] *)
Theorem sort_by_unique {A} (kf : A -> key) l l' :
  Permutation l l' -> StronglySorted (klt kf) l' -> sort_by kf l = l'.
Proof.
  intros P S.
  assert (Hnd : NoDup (map kf l)).
  { apply (Permutation_NoDup (l := map kf l')); [apply Permutation_map, Permutation_sym, P|].
    apply klt_sorted_keys_NoDup. exact S. }
  apply (StronglySorted_perm_unique (klt kf) (klt_irrefl kf) (klt_trans kf)).
  - apply sort_by_sorted. exact Hnd.
  - exact S.
  - apply perm_trans with l; [apply sort_by_perm|exact P].
Qed.

Corollary sort_by_sorted_id {A} (kf : A -> key) l : StronglySorted (klt kf) l -> sort_by kf l = l.
Proof. intros S. apply sort_by_unique; [apply Permutation_refl|exact S]. Qed.

Corollary sort_by_idempotent {A} (kf : A -> key) l :
  NoDup (map kf l) -> sort_by kf (sort_by kf l) = sort_by kf l.
Proof. intros H. apply sort_by_sorted_id, sort_by_sorted, H. Qed.

(** the result does not depend on the order of the argument *)
Theorem sort_by_perm_invariant {A} (kf : A -> key) l l' :
  NoDup (map kf l) -> Permutation l l' -> sort_by kf l = sort_by kf l'.
Proof.
  intros Hnd P. symmetry. apply sort_by_unique.
  - apply perm_trans with l; [apply Permutation_sym, P|apply Permutation_sym, sort_by_perm].
  - apply sort_by_sorted. exact Hnd.
Qed.

(** with an injective key function (on the list) duplicate-freeness of the list is enough *)
Lemma NoDup_map_inj_in {A B} (f : A -> B) l :
  (forall x y, In x l -> In y l -> f x = f y -> x = y) -> NoDup l -> NoDup (map f l).
Proof.
  intros Hinj Hnd. induction Hnd as [|x l Hnotin Hnd IH]; cbn [map]; constructor.
  - intros Hin. apply in_map_iff in Hin. destruct Hin as [y [E Hy]].
    assert (y = x) by (apply Hinj; [right; exact Hy|left; reflexivity|exact E]). subst y. contradiction.
  - apply IH. intros a b Ha Hb. apply Hinj; right; assumption.
Qed.

Corollary sort_by_sorted_inj {A} (kf : A -> key) l :
  (forall x y, In x l -> In y l -> kf x = kf y -> x = y) -> NoDup l ->
  StronglySorted (klt kf) (sort_by kf l).
Proof. intros Hinj Hnd. apply sort_by_sorted, NoDup_map_inj_in; assumption. Qed.

(** sortedness read pairwise on positions *)
Lemma StronglySorted_nth {A} (R : A -> A -> Prop) l d :
  StronglySorted R l -> forall i j, (i < j)%nat -> (j < length l)%nat -> R (nth i l d) (nth j l d).
Proof.
  induction 1 as [|x l Hs IH Hf]; intros i j Hij Hj; cbn [length] in Hj; [lia|].
  destruct j as [|j]; [lia|]. destruct i as [|i]; cbn [nth].
  - rewrite Forall_forall in Hf. apply Hf. apply nth_In. lia.
  - apply IH; lia.
Qed.

(** * rank_in: position in a duplicate-free list *)

Fixpoint rank_go (i : nat) (l : list nat) (r : nat) : nat :=
  match l with [] => r | x :: l' => if Nat.eqb x i then r else rank_go i l' (S r) end.

Lemma rank_in_go order i : rank_in order i = rank_go i order O.
Proof. unfold rank_in. generalize O. induction order as [|x l IH]; intros r; cbn; [reflexivity|]. rewrite IH. reflexivity. Qed.

Lemma rank_go_shift i l : forall r, rank_go i l r = (r + rank_go i l O)%nat.
Proof.
  induction l as [|x l IH]; intros r; cbn [rank_go]; [lia|].
  destruct (Nat.eqb x i); [lia|]. rewrite (IH (S r)), (IH 1%nat). lia.
Qed.

Lemma rank_in_cons x l i :
  rank_in (x :: l) i = if Nat.eqb x i then O else S (rank_in l i).
Proof.
  rewrite !rank_in_go. cbn [rank_go]. destruct (Nat.eqb x i); [reflexivity|].
  rewrite rank_go_shift. reflexivity.
Qed.

Theorem rank_in_lt order i : In i order -> (rank_in order i < length order)%nat.
Proof.
  induction order as [|x l IH]; intros Hin; [destruct Hin|].
  rewrite rank_in_cons. cbn [length]. destruct (Nat.eqb_spec x i) as [->|Hne]; [lia|].
  destruct Hin as [E|Hin]; [contradiction|]. specialize (IH Hin). lia.
Qed.

Theorem rank_in_nth order i d : In i order -> nth (rank_in order i) order d = i.
Proof.
  induction order as [|x l IH]; intros Hin; [destruct Hin|].
  rewrite rank_in_cons. destruct (Nat.eqb_spec x i) as [->|Hne]; [reflexivity|].
  destruct Hin as [E|Hin]; [contradiction|]. cbn [nth]. apply IH. exact Hin.
Qed.

Theorem rank_in_nth_error order i : In i order -> nth_error order (rank_in order i) = Some i.
Proof.
  intros Hin. rewrite (nth_error_nth' order 0%nat (rank_in_lt order i Hin)).
  rewrite rank_in_nth by exact Hin. reflexivity.
Qed.

Theorem rank_in_of_nth order k d : NoDup order -> (k < length order)%nat ->
  rank_in order (nth k order d) = k.
Proof.
  intros Hnd. revert k. induction Hnd as [|x l Hnotin Hnd IH]; intros k Hk; cbn [length] in Hk; [lia|].
  rewrite rank_in_cons. destruct k as [|k]; cbn [nth].
  - rewrite Nat.eqb_refl. reflexivity.
  - destruct (Nat.eqb_spec x (nth k l d)) as [E|Hne].
    + exfalso. apply Hnotin. rewrite E. apply nth_In. lia.
    + f_equal. apply IH. lia.
Qed.

Theorem rank_in_inj order i j : In i order -> In j order -> rank_in order i = rank_in order j -> i = j.
Proof.
  intros Hi Hj E. rewrite <- (rank_in_nth order i 0%nat Hi), <- (rank_in_nth order j 0%nat Hj), E. reflexivity.
Qed.

Theorem rank_in_notin order i : ~ In i order -> rank_in order i = length order.
Proof.
  induction order as [|x l IH]; intros Hnotin; [reflexivity|].
  rewrite rank_in_cons. destruct (Nat.eqb_spec x i) as [->|Hne]; [exfalso; apply Hnotin; left; reflexivity|].
  cbn [length]. f_equal. apply IH. intros H. apply Hnotin. right. exact H.
Qed.

(** the rank in a sorted order is monotone in the key: [i] is ranked before [j] iff its key is smaller *)
Theorem rank_in_sort_by (kf : nat -> key) l i j :
  NoDup (map kf l) -> In i l -> In j l ->
  ((rank_in (sort_by kf l) i < rank_in (sort_by kf l) j)%nat <-> key_ltb (kf i) (kf j) = true).
Proof.
  intros Hnd Hi Hj.
  pose proof (sort_by_sorted kf l Hnd) as S.
  apply (proj2 (sort_by_In kf l i)) in Hi. apply (proj2 (sort_by_In kf l j)) in Hj.
  set (o := sort_by kf l) in *.
  assert (Hmono : forall a b, In a o -> In b o -> (rank_in o a < rank_in o b)%nat -> klt kf a b).
  { intros a b Ha Hb Hlt.
    pose proof (StronglySorted_nth (klt kf) o 0%nat S _ _ Hlt (rank_in_lt o b Hb)) as H.
    rewrite !rank_in_nth in H by assumption. exact H. }
  split; [apply Hmono; assumption|].
  intros Hk. destruct (Nat.lt_total (rank_in o i) (rank_in o j)) as [H|[H|H]]; [exact H| |].
  - apply rank_in_inj in H; try assumption. subst j. rewrite key_ltb_irrefl in Hk. discriminate.
  - apply Hmono in H; try assumption. exfalso. apply (klt_irrefl kf i). apply (klt_trans kf i j i); assumption.
Qed.
