(** Glue lemmas for the property files of the Definition machine (Properties/C13, C14, C17):
    small consequences of Proofs/Definition.v, DefFacts.v, DefOrder.v and IterUnion.v that
    recombine their results into the exact shape of a property clause.

    This file also DEFINES the store-level plain model used by the whole-history statement of
    C13 ([sput], [sstep], [sstep_total], [srun]): a list of plain tables ([sdef], value
    semantics) on which an operation acts through [sstep1] exactly as [step] acts on the
    store of definitions. *)
From Coq Require Import ZArith List Bool Lia ZifyBool Sorted Permutation Arith.
From Concepts Require Import Base.Res Base.PyInt Base.BitSet Spec.FCA Spec.Context Spec.LatticeSpec
  Model.Matrices Model.ContextApi Model.Members Model.Lattice Model.LatticeApi
  Proofs.LatticeBasics Proofs.LatticeFirst Proofs.BuildLattice Proofs.IterUnion.
From Concepts Require Import Model.Definition Spec.DefSpec
  Proofs.DefUnique Proofs.DefPairs Proofs.Definition Proofs.DefFacts Proofs.DefOrder.
Import ListNotations.

(** * C13 *)

(** a rejected call: the exception is reported and the store is unchanged *)
Lemma step_raise_unchanged s o e :
  step s o = Raise e -> fst (step_total s o) = s /\ snd (step_total s o) = Raise e.
Proof. intros H. rewrite (step_total_raise s o e H). split; reflexivity. Qed.

Lemma step_total_ok s o s' r : step s o = Ok (s', r) -> step_total s o = (s', Ok r).
Proof. intros H. unfold step_total. rewrite H. reflexivity. Qed.

(** the plain model decides the outcome of an in-place call ... *)
Lemma step_inplace_by_model s o h d :
  Forall Inv s -> op_handle o = Some h -> nth_error s h = Some d -> is_derive o = false ->
  match sstep1 (abs d) o (option_map abs (other_of s o)) with
  | Raise e => step s o = Raise e
  | Ok (a', r) => exists d', step s o = Ok (put s h d', r) /\ nth_error (put s h d') h = Some d' /\ Inv d' /\
                             obs_defn d' = obs_sdef a' /\ s_ok a' /\
                             (forall x p, memp (x, p) (d_pairs d') = s_cell a' x p)
  end.
Proof.
  intros HS Hh Hd D. pose proof (step_refines s o h d HS Hh Hd) as R.
  destruct (sstep1 (abs d) o (option_map abs (other_of s o))) as [[a' r']|e'];
    destruct (step s o) as [[s' r]|e]; try contradiction.
  - destruct R as [d' [Hs [Hi R]]]. unfold store_rel in R. rewrite D in R. destruct R as [-> ->].
    exists d'. split; [reflexivity|].
    split; [apply nth_error_put_same; apply nth_error_Some; congruence|].
    destruct (sim_pack a' d' Hs Hi) as [_ [Ho [Hk Hc]]].
    split; [exact Hi|]. split; [symmetry; exact Ho|]. split; [exact Hk|]. intros x p. symmetry. apply Hc.
  - cbv beta iota in R. subst. reflexivity.
Qed.

(** ... and of a derivation *)
Lemma step_derive_by_model s o h d :
  Forall Inv s -> op_handle o = Some h -> nth_error s h = Some d -> is_derive o = true ->
  match sstep1 (abs d) o (option_map abs (other_of s o)) with
  | Raise e => step s o = Raise e
  | Ok (a', _) => exists d', step s o = Ok (s ++ [d'], RHandle (length s)) /\
                             nth_error (s ++ [d']) (length s) = Some d' /\ Inv d' /\
                             obs_defn d' = obs_sdef a' /\ s_ok a' /\
                             (forall x p, memp (x, p) (d_pairs d') = s_cell a' x p)
  end.
Proof.
  intros HS Hh Hd D. pose proof (step_refines s o h d HS Hh Hd) as R.
  destruct (sstep1 (abs d) o (option_map abs (other_of s o))) as [[a' r']|e'];
    destruct (step s o) as [[s' r]|e]; try contradiction.
  - destruct R as [d' [Hs [Hi R]]]. unfold store_rel in R. rewrite D in R. destruct R as [-> [-> ->]].
    exists d'. split; [reflexivity|].
    split; [rewrite nth_error_app2, Nat.sub_diag; auto|].
    destruct (sim_pack a' d' Hs Hi) as [_ [Ho [Hk Hc]]].
    split; [exact Hi|]. split; [symmetry; exact Ho|]. split; [exact Hk|]. intros x p. symmetry. apply Hc.
  - cbv beta iota in R. subst. reflexivity.
Qed.

(** after any history, the next call agrees with the plain model applied to the current table *)
Lemma history_next_step ops o h d :
  let s := fold_left (fun s o => fst (step_total s o)) ops [] in
  op_handle o = Some h -> nth_error s h = Some d ->
  match step s o, sstep1 (abs d) o (option_map abs (other_of s o)) with
  | Ok (s', r), Ok (a', r') => exists d', sim a' d' /\ Inv d' /\ store_rel s o h s' r d' r'
  | Raise e, Raise e' => e = e'
  | _, _ => False
  end.
Proof. intros s Hh Hd. apply step_refines; auto. apply run_history. Qed.

(** new names are appended after the existing ones, in the order given, each once *)
Lemma append_new_prefix_gen l acc news :
  append_new (l ++ acc) news = l ++ append_new acc (filter (fun x => negb (memn x l)) news).
Proof.
  revert acc. induction news as [|x r IH]; intros acc; cbn [append_new filter]; [reflexivity|].
  rewrite memn_app. destruct (memn x l) eqn:El; cbn [negb orb].
  - apply IH.
  - cbn [append_new]. destruct (memn x acc) eqn:Ea.
    + apply IH.
    + rewrite <- app_assoc. apply IH.
Qed.

Lemma append_new_prefix l news :
  append_new l news = l ++ append_new [] (filter (fun x => negb (memn x l)) news).
Proof. rewrite <- (app_nil_r l) at 1. apply append_new_prefix_gen. Qed.

Lemma append_new_members l news :
  (forall y, In y (append_new l news) <-> In y l \/ In y news) /\ (NoDup l -> NoDup (append_new l news)).
Proof. split; [intros y; apply In_append_new|apply NoDup_append_new]. Qed.

(** readable per-operation facts *)
Lemma add_object_spec d x ps :
  Inv d ->
  Inv (d_add_object d x ps) /\
  objects_of (d_add_object d x ps) = append_new (objects_of d) [x] /\
  properties_of (d_add_object d x ps) = append_new (properties_of d) ps /\
  forall o p, memp (o, p) (d_pairs (d_add_object d x ps)) = (Nat.eqb o x && memn p ps) || memp (o, p) (d_pairs d).
Proof.
  intros H. pose proof (ref_add_object d 0%nat x ps H) as R. cbn [sstep1 refines] in R.
  destruct R as [_ [[H1 [H2 H3]] Hi]]. cbn [abs s_objs s_props s_cell] in *.
  split; [exact Hi|]. split; [symmetry; exact H1|]. split; [symmetry; exact H2|].
  intros o p. symmetry. apply H3.
Qed.

Lemma add_property_spec d x os :
  Inv d ->
  Inv (d_add_property d x os) /\
  objects_of (d_add_property d x os) = append_new (objects_of d) os /\
  properties_of (d_add_property d x os) = append_new (properties_of d) [x] /\
  forall o p, memp (o, p) (d_pairs (d_add_property d x os)) = (Nat.eqb p x && memn o os) || memp (o, p) (d_pairs d).
Proof.
  intros H. pose proof (ref_add_property d 0%nat x os H) as R. cbn [sstep1 refines] in R.
  destruct R as [_ [[H1 [H2 H3]] Hi]]. cbn [abs s_objs s_props s_cell] in *.
  split; [exact Hi|]. split; [symmetry; exact H1|]. split; [symmetry; exact H2|].
  intros o p. symmetry. apply H3.
Qed.

Lemma set_object_spec d x ps :
  Inv d ->
  Inv (d_set_object d x ps) /\
  objects_of (d_set_object d x ps) = append_new (objects_of d) [x] /\
  properties_of (d_set_object d x ps) = append_new (properties_of d) ps /\
  forall o p, memp (o, p) (d_pairs (d_set_object d x ps)) = if Nat.eqb o x then memn p ps else memp (o, p) (d_pairs d).
Proof.
  intros H. pose proof (ref_set_object d 0%nat x ps H) as R. cbn [sstep1 refines] in R.
  destruct R as [_ [[H1 [H2 H3]] Hi]]. cbn [abs s_objs s_props s_cell] in *.
  split; [exact Hi|]. split; [symmetry; exact H1|]. split; [symmetry; exact H2|].
  intros o p. symmetry. apply H3.
Qed.

Lemma set_property_spec d x os :
  Inv d ->
  Inv (d_set_property d x os) /\
  objects_of (d_set_property d x os) = append_new (objects_of d) os /\
  properties_of (d_set_property d x os) = append_new (properties_of d) [x] /\
  forall o p, memp (o, p) (d_pairs (d_set_property d x os)) = if Nat.eqb p x then memn o os else memp (o, p) (d_pairs d).
Proof.
  intros H. pose proof (ref_set_property d 0%nat x os H) as R. cbn [sstep1 refines] in R.
  destruct R as [_ [[H1 [H2 H3]] Hi]]. cbn [abs s_objs s_props s_cell] in *.
  split; [exact Hi|]. split; [symmetry; exact H1|]. split; [symmetry; exact H2|].
  intros o p. symmetry. apply H3.
Qed.

Lemma setitem_spec d x q v :
  Inv d ->
  Inv (d_setitem d x q v) /\
  objects_of (d_setitem d x q v) = append_new (objects_of d) [x] /\
  properties_of (d_setitem d x q v) = append_new (properties_of d) [q] /\
  forall o p, memp (o, p) (d_pairs (d_setitem d x q v)) = if Nat.eqb o x && Nat.eqb p q then v else memp (o, p) (d_pairs d).
Proof.
  intros H. pose proof (ref_setitem d 0%nat x q v H) as R. cbn [sstep1 refines] in R.
  destruct R as [_ [[H1 [H2 H3]] Hi]]. cbn [abs s_objs s_props s_cell] in *.
  split; [exact Hi|]. split; [symmetry; exact H1|]. split; [symmetry; exact H2|].
  intros o p. symmetry. apply H3.
Qed.

(** rejected calls, in readable form *)
Lemma rename_object_rejects s h d old new :
  Forall Inv s -> nth_error s h = Some d ->
  (In new (objects_of d) \/ ~ In old (objects_of d) -> step s (ORenameObject h old new) = Raise ValueError) /\
  (~ In new (objects_of d) -> In old (objects_of d) -> exists s', step s (ORenameObject h old new) = Ok (s', RNone)).
Proof.
  intros HS Hd.
  pose proof (step_inplace_by_model s (ORenameObject h old new) h d HS eq_refl Hd eq_refl) as R.
  cbn [sstep1 abs s_objs] in R. split.
  - intros Hc. destruct (memn new (objects_of d)) eqn:En; [exact R|].
    destruct (memn old (objects_of d)) eqn:Eo; cbn [negb] in R; [|exact R].
    apply memn_false in En. apply memn_In in Eo. tauto.
  - intros Hn Ho. apply memn_false in Hn. apply memn_In in Ho. rewrite Hn, Ho in R. cbn [negb] in R.
    destruct R as [d' [E _]]. eauto.
Qed.

Lemma rename_property_rejects s h d old new :
  Forall Inv s -> nth_error s h = Some d ->
  (In new (properties_of d) \/ ~ In old (properties_of d) -> step s (ORenameProperty h old new) = Raise ValueError) /\
  (~ In new (properties_of d) -> In old (properties_of d) -> exists s', step s (ORenameProperty h old new) = Ok (s', RNone)).
Proof.
  intros HS Hd.
  pose proof (step_inplace_by_model s (ORenameProperty h old new) h d HS eq_refl Hd eq_refl) as R.
  cbn [sstep1 abs s_props] in R. split.
  - intros Hc. destruct (memn new (properties_of d)) eqn:En; [exact R|].
    destruct (memn old (properties_of d)) eqn:Eo; cbn [negb] in R; [|exact R].
    apply memn_false in En. apply memn_In in Eo. tauto.
  - intros Hn Ho. apply memn_false in Hn. apply memn_In in Ho. rewrite Hn, Ho in R. cbn [negb] in R.
    destruct R as [d' [E _]]. eauto.
Qed.

Lemma remove_object_rejects s h d x :
  Forall Inv s -> nth_error s h = Some d ->
  (~ In x (objects_of d) -> step s (ORemoveObject h x) = Raise KeyError) /\
  (In x (objects_of d) -> exists s', step s (ORemoveObject h x) = Ok (s', RNone)).
Proof.
  intros HS Hd.
  pose proof (step_inplace_by_model s (ORemoveObject h x) h d HS eq_refl Hd eq_refl) as R.
  cbn [sstep1 abs s_objs] in R. split.
  - intros Hn. apply memn_false in Hn. rewrite Hn in R. exact R.
  - intros Hi. apply memn_In in Hi. rewrite Hi in R. destruct R as [d' [E _]]. eauto.
Qed.

Lemma remove_property_rejects s h d x :
  Forall Inv s -> nth_error s h = Some d ->
  (~ In x (properties_of d) -> step s (ORemoveProperty h x) = Raise KeyError) /\
  (In x (properties_of d) -> exists s', step s (ORemoveProperty h x) = Ok (s', RNone)).
Proof.
  intros HS Hd.
  pose proof (step_inplace_by_model s (ORemoveProperty h x) h d HS eq_refl Hd eq_refl) as R.
  cbn [sstep1 abs s_props] in R. split.
  - intros Hn. apply memn_false in Hn. rewrite Hn in R. exact R.
  - intros Hi. apply memn_In in Hi. rewrite Hi in R. destruct R as [d' [E _]]. eauto.
Qed.

(** * C14 *)

(** the triple is a function of the two name lists and the membership of cells *)
Lemma obs_by_cells d1 d2 :
  objects_of d1 = objects_of d2 -> properties_of d1 = properties_of d2 ->
  (forall o p, In o (objects_of d1) -> In p (properties_of d1) -> memp (o, p) (d_pairs d1) = memp (o, p) (d_pairs d2)) ->
  obs_defn d1 = obs_defn d2.
Proof.
  intros Ho Hp Hc. unfold obs_defn, bools_of. rewrite <- Ho, <- Hp. f_equal.
  apply map_ext_in. intros o Hin. apply map_ext_in. intros p Hip. apply Hc; auto.
Qed.

Lemma get_some s h d : nth_error s h = Some d -> get s h = Ok d.
Proof. intros H. unfold get. rewrite H. reflexivity. Qed.

Lemma copy_step s h d :
  nth_error s h = Some d -> step s (DCopy h) = Ok (s ++ [d], RHandle (length s)).
Proof. intros H. cbn [step]. rewrite (get_some s h d H). reflexivity. Qed.

Lemma transposed_step s h d :
  Forall Inv s -> nth_error s h = Some d ->
  exists d', step s (DTransposed h) = Ok (s ++ [d'], RHandle (length s)) /\ Inv d' /\
             objects_of d' = properties_of d /\ properties_of d' = objects_of d /\
             forall o p, memp (o, p) (d_pairs d') = memp (p, o) (d_pairs d).
Proof.
  intros HS H. exists (d_transposed d). cbn [step]. rewrite (get_some s h d H).
  split; [reflexivity|]. split; [apply transposed_Inv; eapply Forall_nth_error; eauto|].
  split; [reflexivity|]. split; [reflexivity|]. intros o p. apply transposed_cell.
Qed.

Lemma inverted_step s h d :
  Forall Inv s -> nth_error s h = Some d ->
  exists d', step s (DInverted h) = Ok (s ++ [d'], RHandle (length s)) /\ Inv d' /\
             objects_of d' = objects_of d /\ properties_of d' = properties_of d /\
             forall o p, memp (o, p) (d_pairs d') =
                         memn o (objects_of d) && memn p (properties_of d) && negb (memp (o, p) (d_pairs d)).
Proof.
  intros HS H. exists (d_inverted d). cbn [step]. rewrite (get_some s h d H).
  split; [reflexivity|]. split; [apply inverted_Inv; eapply Forall_nth_error; eauto|].
  split; [reflexivity|]. split; [reflexivity|]. intros o p. apply inverted_cell.
Qed.

Lemma rebuild_step s h d :
  Forall Inv s -> nth_error s h = Some d ->
  exists d', step s (DRebuild h) = Ok (s ++ [d'], RHandle (length s)) /\ Inv d' /\ obs_defn d' = obs_defn d.
Proof.
  intros HS H. destruct (rebuild_obs d (Forall_nth_error Inv s h d HS H)) as [d' [E [Hi Ho]]].
  exists d'. cbn [step]. rewrite (get_some s h d H). cbn [bind]. rewrite E. cbn [derive bind]. auto.
Qed.

(** when do two tables conflict: a shared cell on which they differ *)
Lemma s_conflict_iff a b :
  s_conflict a b = true <->
  exists o p, In o (s_objs a) /\ In o (s_objs b) /\ In p (s_props a) /\ In p (s_props b) /\ s_cell a o p <> s_cell b o p.
Proof.
  unfold s_conflict. rewrite existsb_exists. split.
  - intros [o [Ho H]]. apply andb_true_iff in H. destruct H as [Hob H]. apply existsb_exists in H.
    destruct H as [p [Hp H]]. apply andb_true_iff in H. destruct H as [Hpb Hx].
    exists o, p. apply memn_In in Hob, Hpb. repeat split; auto.
    intros E. rewrite E in Hx. rewrite xorb_nilpotent in Hx. discriminate.
  - intros [o [p [Ho [Hob [Hp [Hpb Hne]]]]]]. exists o. split; [exact Ho|].
    apply andb_true_iff. split; [apply memn_In; exact Hob|]. apply existsb_exists. exists p. split; [exact Hp|].
    apply andb_true_iff. split; [apply memn_In; exact Hpb|].
    destruct (s_cell a o p), (s_cell b o p); try reflexivity; exfalso; apply Hne; reflexivity.
Qed.

Lemma conflict_defn_iff d e :
  s_conflict (abs d) (abs e) = true <->
  exists o p, In o (objects_of d) /\ In o (objects_of e) /\ In p (properties_of d) /\ In p (properties_of e) /\
              memp (o, p) (d_pairs d) <> memp (o, p) (d_pairs e).
Proof. apply s_conflict_iff. Qed.

Lemma union_step s h k ig d e :
  Forall Inv s -> nth_error s h = Some d -> nth_error s k = Some e ->
  if negb ig && s_conflict (abs d) (abs e) then step s (DUnion h k ig) = Raise ValueError
  else exists d', step s (DUnion h k ig) = Ok (s ++ [d'], RHandle (length s)) /\ Inv d' /\
                  objects_of d' = append_new (objects_of d) (objects_of e) /\
                  properties_of d' = append_new (properties_of d) (properties_of e) /\
                  forall o p, memp (o, p) (d_pairs d') = memp (o, p) (d_pairs d) || memp (o, p) (d_pairs e).
Proof.
  intros HS Hd He. pose proof (Forall_nth_error Inv s h d HS Hd) as Id. pose proof (Forall_nth_error Inv s k e HS He) as Ie.
  cbn [step]. rewrite (get_some s h d Hd), (get_some s k e He). cbn [bind]. unfold d_copy.
  pose proof (union_core d e ig Id Ie) as R.
  destruct (negb ig && s_conflict (abs d) (abs e)); destruct (d_union_update d e ig) as [d'|ex] eqn:E;
    cbn [bind refines] in R; try contradiction.
  - subst. reflexivity.
  - exists d'. split; [reflexivity|]. destruct R as [_ [[H1 [H2 H3]] Hi]]. cbn [s_objs s_props s_cell] in *.
    split; [exact Hi|]. split; [symmetry; exact H1|]. split; [symmetry; exact H2|]. intros o p. symmetry. apply H3.
Qed.

Lemma intersection_step s h k ig d e :
  Forall Inv s -> nth_error s h = Some d -> nth_error s k = Some e ->
  if negb ig && s_conflict (abs d) (abs e) then step s (DIntersection h k ig) = Raise ValueError
  else exists d', step s (DIntersection h k ig) = Ok (s ++ [d'], RHandle (length s)) /\ Inv d' /\
                  objects_of d' = filter (fun x => memn x (objects_of e)) (objects_of d) /\
                  properties_of d' = filter (fun x => memn x (properties_of e)) (properties_of d) /\
                  forall o p, memp (o, p) (d_pairs d') = memp (o, p) (d_pairs d) && memp (o, p) (d_pairs e).
Proof.
  intros HS Hd He. pose proof (Forall_nth_error Inv s h d HS Hd) as Id. pose proof (Forall_nth_error Inv s k e HS He) as Ie.
  cbn [step]. rewrite (get_some s h d Hd), (get_some s k e He). cbn [bind]. unfold d_copy.
  pose proof (intersection_core d e ig Id Ie) as R.
  destruct (negb ig && s_conflict (abs d) (abs e)); destruct (d_intersection_update d e ig) as [d'|ex] eqn:E;
    cbn [bind refines] in R; try contradiction.
  - subst. reflexivity.
  - exists d'. split; [reflexivity|]. destruct R as [_ [[H1 [H2 H3]] Hi]]. cbn [s_objs s_props s_cell] in *.
    split; [exact Hi|]. split; [symmetry; exact H1|]. split; [symmetry; exact H2|]. intros o p. symmetry. apply H3.
Qed.

(** the in-place forms |= and &= : same table, stored under the left handle *)
Lemma union_update_step s h k ig d e :
  Forall Inv s -> nth_error s h = Some d -> nth_error s k = Some e ->
  if negb ig && s_conflict (abs d) (abs e) then step s (OUnionUpdate h k ig) = Raise ValueError
  else exists d', step s (OUnionUpdate h k ig) = Ok (put s h d', RNone) /\ Inv d' /\
                  objects_of d' = append_new (objects_of d) (objects_of e) /\
                  properties_of d' = append_new (properties_of d) (properties_of e) /\
                  forall o p, memp (o, p) (d_pairs d') = memp (o, p) (d_pairs d) || memp (o, p) (d_pairs e).
Proof.
  intros HS Hd He. pose proof (Forall_nth_error Inv s h d HS Hd) as Id. pose proof (Forall_nth_error Inv s k e HS He) as Ie.
  cbn [step]. rewrite (get_some s h d Hd), (get_some s k e He). cbn [bind]. unfold upd.
  pose proof (union_core d e ig Id Ie) as R.
  destruct (negb ig && s_conflict (abs d) (abs e)); destruct (d_union_update d e ig) as [d'|ex] eqn:E;
    cbn [bind refines] in R; try contradiction.
  - subst. reflexivity.
  - exists d'. split; [reflexivity|]. destruct R as [_ [[H1 [H2 H3]] Hi]]. cbn [s_objs s_props s_cell] in *.
    split; [exact Hi|]. split; [symmetry; exact H1|]. split; [symmetry; exact H2|]. intros o p. symmetry. apply H3.
Qed.

Lemma intersection_update_step s h k ig d e :
  Forall Inv s -> nth_error s h = Some d -> nth_error s k = Some e ->
  if negb ig && s_conflict (abs d) (abs e) then step s (OIntersectionUpdate h k ig) = Raise ValueError
  else exists d', step s (OIntersectionUpdate h k ig) = Ok (put s h d', RNone) /\ Inv d' /\
                  objects_of d' = filter (fun x => memn x (objects_of e)) (objects_of d) /\
                  properties_of d' = filter (fun x => memn x (properties_of e)) (properties_of d) /\
                  forall o p, memp (o, p) (d_pairs d') = memp (o, p) (d_pairs d) && memp (o, p) (d_pairs e).
Proof.
  intros HS Hd He. pose proof (Forall_nth_error Inv s h d HS Hd) as Id. pose proof (Forall_nth_error Inv s k e HS He) as Ie.
  cbn [step]. rewrite (get_some s h d Hd), (get_some s k e He). cbn [bind]. unfold upd.
  pose proof (intersection_core d e ig Id Ie) as R.
  destruct (negb ig && s_conflict (abs d) (abs e)); destruct (d_intersection_update d e ig) as [d'|ex] eqn:E;
    cbn [bind refines] in R; try contradiction.
  - subst. reflexivity.
  - exists d'. split; [reflexivity|]. destruct R as [_ [[H1 [H2 H3]] Hi]]. cbn [s_objs s_props s_cell] in *.
    split; [exact Hi|]. split; [symmetry; exact H1|]. split; [symmetry; exact H2|]. intros o p. symmetry. apply H3.
Qed.

(** take: a requested name that is not in the definition *)
Definition take_unknown (sel : option (list nat)) (items : list nat) : Prop :=
  exists l x, sel = Some l /\ In x l /\ ~ In x items.

Definition take_bad (sel : option (list nat)) (items : list nat) : bool :=
  match sel with Some (y :: r) => negb (forallb (fun x => memn x items) (y :: r)) | _ => false end.

Lemma take_bad_iff sel items : take_bad sel items = true <-> take_unknown sel items.
Proof.
  unfold take_bad, take_unknown. destruct sel as [[|y r]|].
  - split; [discriminate|]. intros [l [x [[= <-] [[] _]]]].
  - rewrite negb_true_iff. split.
    + intros H. exists (y :: r).
      assert (Hex : exists x, In x (y :: r) /\ ~ In x items).
      { revert H. generalize (y :: r) as l. induction l as [|z l IH]; [discriminate|].
        cbn [forallb]. destruct (memn z items) eqn:Ez; cbn [andb].
        - intros H. destruct (IH H) as [x [Hx Hn]]. exists x. split; [right; exact Hx|exact Hn].
        - intros _. exists z. split; [left; reflexivity|]. apply memn_false. exact Ez. }
      destruct Hex as [x [Hx Hn]]. exists x. auto.
    + intros [l [x [[= <-] [Hx Hn]]]].
      destruct (forallb (fun x0 => memn x0 items) (y :: r)) eqn:E; [|reflexivity].
      rewrite forallb_forall in E. apply E in Hx. apply memn_In in Hx. contradiction.
  - split; [discriminate|]. intros [l [x [[=] _]]].
Qed.

Lemma take_step s h objs props reorder d :
  Forall Inv s -> nth_error s h = Some d ->
  (take_unknown objs (objects_of d) \/ take_unknown props (properties_of d) ->
   step s (DTake h objs props reorder) = Raise KeyError) /\
  (~ (take_unknown objs (objects_of d) \/ take_unknown props (properties_of d)) ->
   exists d', step s (DTake h objs props reorder) = Ok (s ++ [d'], RHandle (length s)) /\ Inv d' /\
              objects_of d' = take_sel objs reorder (objects_of d) /\
              properties_of d' = take_sel props reorder (properties_of d) /\
              forall o p, memp (o, p) (d_pairs d') =
                          memn o (objects_of d') && memn p (properties_of d') && memp (o, p) (d_pairs d)).
Proof.
  intros HS Hd.
  pose proof (step_derive_by_model s (DTake h objs props reorder) h d HS eq_refl Hd eq_refl) as R.
  cbn [sstep1 option_map other_of op_other abs s_objs s_props s_cell] in R.
  change (match objs with Some (y :: r) => negb (forallb (fun x => memn x (objects_of d)) (y :: r)) | _ => false end)
    with (take_bad objs (objects_of d)) in R.
  change (match props with Some (y :: r) => negb (forallb (fun x => memn x (properties_of d)) (y :: r)) | _ => false end)
    with (take_bad props (properties_of d)) in R.
  fold (take_sel objs reorder (objects_of d)) in R. fold (take_sel props reorder (properties_of d)) in R.
  rewrite <- !take_bad_iff, <- orb_true_iff. split.
  - intros Hb. rewrite Hb in R. exact R.
  - intros Hb. apply not_true_is_false in Hb. rewrite Hb in R.
    destruct R as [d' [E [_ [Hi [Ho [_ Hc]]]]]]. exists d'. split; [exact E|]. split; [exact Hi|].
    unfold obs_defn, obs_sdef in Ho. cbn [s_objs s_props] in Ho. injection Ho as Ho1 Ho2 _.
    split; [exact Ho1|]. split; [exact Ho2|]. intros o p. rewrite Hc. cbn [s_cell]. rewrite Ho1, Ho2. reflexivity.
Qed.

(** involutions, at the level of the machine *)
Lemma nth_error_snoc {A} (l : list A) x : nth_error (l ++ [x]) (length l) = Some x.
Proof. rewrite nth_error_app2 by lia. rewrite Nat.sub_diag. reflexivity. Qed.

Lemma transposed_twice s h d :
  nth_error s h = Some d ->
  exists s1, step s (DTransposed h) = Ok (s1, RHandle (length s)) /\
             step s1 (DTransposed (length s)) = Ok (s1 ++ [d], RHandle (length s1)).
Proof.
  intros H. exists (s ++ [d_transposed d]). cbn [step]. rewrite (get_some s h d H). split; [reflexivity|].
  rewrite (get_some _ _ _ (nth_error_snoc s (d_transposed d))). cbn [bind derive]. rewrite transposed_transposed. reflexivity.
Qed.

Lemma inverted_twice s h d :
  Forall Inv s -> nth_error s h = Some d ->
  exists s1 d2, step s (DInverted h) = Ok (s1, RHandle (length s)) /\
                step s1 (DInverted (length s)) = Ok (s1 ++ [d2], RHandle (length s1)) /\
                obs_defn d2 = obs_defn d.
Proof.
  intros HS H. exists (s ++ [d_inverted d]), (d_inverted (d_inverted d)). cbn [step]. rewrite (get_some s h d H).
  split; [reflexivity|]. rewrite (get_some _ _ _ (nth_error_snoc s (d_inverted d))). split; [reflexivity|].
  apply inverted_inverted_obs. eapply Forall_nth_error; eauto.
Qed.

(** non-interference *)
Lemma derive_keeps_handles s o s' r :
  is_derive o = true -> step s o = Ok (s', r) ->
  r = RHandle (length s) /\ length s' = S (length s) /\
  forall k, (k < length s)%nat -> nth_error s' k = nth_error s k.
Proof.
  intros D E. pose proof (step_frame s o s' r E) as F. rewrite D in F. destruct F as [d' [-> ->]].
  split; [reflexivity|]. split; [rewrite app_length; cbn; lia|]. intros k Hk. apply nth_error_app1. exact Hk.
Qed.

Lemma inplace_keeps_others s o s' r :
  is_derive o = false -> step s o = Ok (s', r) ->
  length s' = length s /\ forall k, op_handle o <> Some k -> nth_error s' k = nth_error s k.
Proof.
  intros D E. pose proof (step_frame s o s' r E) as F. rewrite D in F. destruct F as [h [d' [Hh [_ ->]]]].
  split; [apply put_length|]. intros k Hk. apply nth_error_put_other. intros ->. apply Hk. exact Hh.
Qed.

Lemma derive_then_edit s o1 s1 n o2 s2 r2 :
  is_derive o1 = true -> step s o1 = Ok (s1, RHandle n) ->
  is_derive o2 = false -> step s1 o2 = Ok (s2, r2) ->
  n = length s /\
  (op_handle o2 = Some n -> forall k, (k < length s)%nat -> nth_error s2 k = nth_error s k) /\
  (op_handle o2 <> Some n -> nth_error s2 n = nth_error s1 n).
Proof.
  intros D1 E1 D2 E2. destruct (derive_keeps_handles s o1 s1 _ D1 E1) as [Hr [Hl Hk]].
  injection Hr as ->. destruct (inplace_keeps_others s1 o2 s2 r2 D2 E2) as [_ Ho].
  split; [reflexivity|]. split.
  - intros Hh k Hlt. rewrite Ho; [apply Hk; exact Hlt|]. rewrite Hh. intros [= <-]. lia.
  - intros Hh. apply Ho. exact Hh.
Qed.

Lemma step_total_length_le s o : (length s <= length (fst (step_total s o)))%nat.
Proof.
  unfold step_total. destruct (step s o) as [[s' r]|e] eqn:E; cbn [fst]; [|lia].
  rewrite (step_length s o s' r E). destruct (is_derive o); lia.
Qed.

Lemma step_total_frame s o k :
  (k < length s)%nat -> (is_derive o = false -> op_handle o <> Some k) ->
  nth_error (fst (step_total s o)) k = nth_error s k.
Proof.
  intros Hk Hne. unfold step_total. destruct (step s o) as [[s' r]|e] eqn:E; cbn [fst]; [|reflexivity].
  eapply step_old_handles; eauto.
Qed.

Lemma history_frame ops s k :
  (k < length s)%nat -> Forall (fun o => is_derive o = false -> op_handle o <> Some k) ops ->
  nth_error (fold_left (fun s o => fst (step_total s o)) ops s) k = nth_error s k.
Proof.
  revert s. induction ops as [|o ops IH]; intros s Hk HF; cbn [fold_left]; [reflexivity|].
  inversion HF as [|o' ops' Ho Hops]; subst. rewrite IH; auto.
  - apply step_total_frame; auto.
  - pose proof (step_total_length_le s o). lia.
Qed.

(** * C17 *)

Lemma deq_trans d1 d2 d3 : deq d1 d2 -> deq d2 d3 -> deq d1 d3.
Proof.
  intros [A1 [B1 C1]] [A2 [B2 C2]]. split; [eapply ueq_trans; eauto|]. split; [eapply ueq_trans; eauto|].
  eapply perm_trans; eauto.
Qed.

Lemma Forall2_deq_refl s : Forall2 deq s s.
Proof. induction s; constructor; auto using deq_refl. Qed.

Lemma Forall2_deq_sym s1 s2 : Forall2 deq s1 s2 -> Forall2 deq s2 s1.
Proof. induction 1; constructor; auto using deq_sym. Qed.

Lemma Forall2_deq_trans s1 s2 s3 : Forall2 deq s1 s2 -> Forall2 deq s2 s3 -> Forall2 deq s1 s3.
Proof.
  intros H. revert s3. induction H as [|a b l l' Hab Hl IH]; intros s3 H2; inversion H2; subst; constructor.
  - eapply deq_trans; eauto.
  - apply IH. assumption.
Qed.

(** a run in which, before every call, all the sets of all definitions may be re-ordered
    arbitrarily ([shuffle i] is applied to the store before the i-th call; e.g. a rehash on resize,
    or a different process with another hash seed taking over) *)
Fixpoint run_shuffled (shuffle : nat -> store -> store) (i : nat) (ops : list op) (s : store)
  : store * list (res ret) :=
  match ops with
  | [] => (shuffle i s, [])
  | o :: r => let t := step_total (shuffle i s) o in
              let sr := run_shuffled shuffle (S i) r (fst t) in (fst sr, snd t :: snd sr)
  end.

Lemma run_shuffled_same shuffle :
  (forall i s, Forall2 deq s (shuffle i s)) ->
  forall ops i s1 s2, Forall2 deq s1 s2 ->
  snd (run ops s1) = snd (run_shuffled shuffle i ops s2) /\
  Forall2 deq (fst (run ops s1)) (fst (run_shuffled shuffle i ops s2)) /\
  map obs_defn (fst (run ops s1)) = map obs_defn (fst (run_shuffled shuffle i ops s2)).
Proof.
  intros Hsh. induction ops as [|o ops IH]; intros i s1 s2 H12; cbn [run run_shuffled fst snd].
  - pose proof (Forall2_deq_trans _ _ _ H12 (Hsh i s2)) as H. split; [reflexivity|]. split; [exact H|].
    apply Forall2_deq_obs. exact H.
  - pose proof (Forall2_deq_trans _ _ _ H12 (Hsh i s2)) as H.
    destruct (step_total_order s1 (shuffle i s2) o H) as [Hs Hr].
    destruct (IH (S i) _ _ Hs) as [I1 [I2 I3]]. rewrite Hr, I1. auto.
Qed.

(** two lists sorted by a strict key order with the same members are equal *)
Lemma sorted_key_unique (f : nat -> nat) l1 l2 :
  StronglySorted (fun a b => (f a < f b)%nat) l1 -> StronglySorted (fun a b => (f a < f b)%nat) l2 ->
  (forall x, In x l1 <-> In x l2) -> l1 = l2.
Proof.
  revert l2. induction l1 as [|a l1 IH]; intros l2 S1 S2 Hm.
  - destruct l2 as [|b l2]; [reflexivity|]. destruct (proj2 (Hm b) (or_introl eq_refl)).
  - destruct l2 as [|b l2]; [destruct (proj1 (Hm a) (or_introl eq_refl))|].
    inversion S1 as [|? ? S1' F1]; subst. inversion S2 as [|? ? S2' F2]; subst.
    rewrite Forall_forall in F1, F2.
    assert (a = b) as ->.
    { destruct (proj1 (Hm a) (or_introl eq_refl)) as [E|Ha]; [auto|].
      destruct (proj2 (Hm b) (or_introl eq_refl)) as [E|Hb]; [auto|].
      pose proof (F1 _ Hb). pose proof (F2 _ Ha). lia. }
    f_equal. apply IH; auto. intros x. split; intros Hx.
    + destruct (proj1 (Hm x) (or_intror Hx)) as [E|H]; [|exact H]. subst. pose proof (F1 _ Hx). lia.
    + destruct (proj2 (Hm x) (or_intror Hx)) as [E|H]; [|exact H]. subst. pose proof (F2 _ Hx). lia.
Qed.

Lemma existsb_same_members {A} (f : A -> bool) l1 l2 :
  (forall x, In x l1 <-> In x l2) -> existsb f l1 = existsb f l2.
Proof.
  intros H. apply eq_iff_eq_true. rewrite !existsb_exists. split; intros [x [Hx Hf]]; exists x; split; auto; apply H; auto.
Qed.

(** upset_union / downset_union depend only on the SET of seeds (not on order or multiplicity) *)
Lemma upset_union_seed_order c L cs1 cs2 fuel1 fuel2 :
  lattice_ok c L ->
  (forall i, In i cs1 -> (i < length (l_concepts L))%nat) ->
  (forall i, In i cs1 <-> In i cs2) ->
  (length cs1 + edges_up L <= fuel1)%nat -> (length cs2 + edges_up L <= fuel2)%nat ->
  upset_union fuel1 L cs1 = upset_union fuel2 L cs2.
Proof.
  intros OK H1 Hm F1 F2.
  assert (H2 : forall i, In i cs2 -> (i < lat_size L)%nat) by (intros i Hi; apply H1, Hm, Hi).
  rewrite (upset_union_spec c L OK cs1 H1 fuel1 F1), (upset_union_spec c L OK cs2 H2 fuel2 F2).
  f_equal. apply filter_ext. intros j. apply existsb_same_members. exact Hm.
Qed.

Lemma downset_union_seed_order c L cs1 cs2 fuel1 fuel2 :
  lattice_ok c L ->
  (forall i, In i cs1 -> (i < length (l_concepts L))%nat) ->
  (forall i, In i cs1 <-> In i cs2) ->
  (length cs1 + edges_down L <= fuel1)%nat -> (length cs2 + edges_down L <= fuel2)%nat ->
  downset_union fuel1 L cs1 = downset_union fuel2 L cs2.
Proof.
  intros OK H1 Hm F1 F2.
  assert (H2 : forall i, In i cs2 -> (i < lat_size L)%nat) by (intros i Hi; apply H1, Hm, Hi).
  destruct (downset_union_spec c L OK cs1 H1 fuel1 F1) as [o1 [E1 [S1 [_ M1]]]].
  destruct (downset_union_spec c L OK cs2 H2 fuel2 F2) as [o2 [E2 [S2 [_ M2]]]].
  rewrite E1, E2. f_equal. apply (sorted_key_unique (fun a => c_dindex (get_concept L a))); auto.
  intros j. rewrite M1, M2. split; intros [Hj [i [Hi Hs]]]; (split; [exact Hj|]); exists i; (split; [apply Hm; exact Hi|exact Hs]).
Qed.

(** * C13, whole histories: the store-level plain model *)

(** a store of plain tables; an operation acts on it through [sstep1] exactly as [step] acts on the
    store of definitions: in-place operations replace the addressed table, derivations append a new
    table and return its position; a rejected call leaves the store unchanged *)
Fixpoint sput (S : list sdef) (h : nat) (a : sdef) : list sdef :=
  match S, h with
  | [], _ => []
  | _ :: r, O => a :: r
  | x :: r, Datatypes.S h' => x :: sput r h' a
  end.

Definition s_empty : sdef := mkS [] [] (fun _ _ => false).

Definition sother_of (S : list sdef) (o : op) : option sdef :=
  match op_other o with Some k => nth_error S k | None => None end.

Definition sfinish (S : list sdef) (o : op) (h : nat) (r : res (sdef * ret)) : res (list sdef * ret) :=
  do '(a', r') <- r ;;
  if is_derive o then Ok (S ++ [a'], RHandle (length S)) else Ok (sput S h a', r').

Definition sstep (S : list sdef) (o : op) : res (list sdef * ret) :=
  match op_handle o with
  | Some h => match nth_error S h with
              | None => Raise IndexError
              | Some a => sfinish S o h (sstep1 a o (sother_of S o))
              end
  | None => sfinish S o 0 (sstep1 s_empty o None)
  end.

Definition sstep_total (S : list sdef) (o : op) : list sdef * res ret :=
  match sstep S o with
  | Ok (S', r) => (S', Ok r)
  | Raise e => (S, Raise e)
  end.

Fixpoint srun (ops : list op) (S : list sdef) : list sdef * list (res ret) :=
  match ops with
  | [] => (S, [])
  | o :: r => let sr := srun r (fst (sstep_total S o)) in (fst sr, snd (sstep_total S o) :: snd sr)
  end.

(** extensional equality of plain tables *)
Definition seq_sdef (a b : sdef) : Prop :=
  s_objs a = s_objs b /\ s_props a = s_props b /\ forall o p, s_cell a o p = s_cell b o p.

Definition oseq (x y : option sdef) : Prop :=
  match x, y with Some a, Some b => seq_sdef a b | None, None => True | _, _ => False end.

Lemma seq_sdef_refl a : seq_sdef a a.
Proof. repeat split. Qed.

Lemma sim_seq a d : sim a d <-> seq_sdef a (abs d).
Proof. unfold sim, seq_sdef. cbn [abs s_objs s_props s_cell]. tauto. Qed.

Lemma seq_sim a b d : seq_sdef a b -> sim b d -> sim a d.
Proof. intros [A [B C]] [A' [B' C']]. split; [congruence|]. split; [congruence|]. intros o p. rewrite C. apply C'. Qed.

Lemma empty_filter_ext (c1 c2 : nat -> nat -> bool) ps os :
  (forall o p, c1 o p = c2 o p) ->
  filter (fun o' => negb (existsb (fun p' => c1 o' p') ps)) os = filter (fun o' => negb (existsb (fun p' => c2 o' p') ps)) os.
Proof. intros H. apply filter_ext. intros o. f_equal. apply existsb_ext'. intros p _. apply H. Qed.

Lemma empty_filter_ext' (c1 c2 : nat -> nat -> bool) ps os :
  (forall o p, c1 o p = c2 o p) ->
  filter (fun p' => negb (existsb (fun o' => c1 o' p') os)) ps = filter (fun p' => negb (existsb (fun o' => c2 o' p') os)) ps.
Proof. intros H. apply filter_ext. intros p. f_equal. apply existsb_ext'. intros o _. apply H. Qed.

Lemma s_conflict_ext a a' b b' : seq_sdef a a' -> seq_sdef b b' -> s_conflict a b = s_conflict a' b'.
Proof.
  intros [A1 [A2 A3]] [B1 [B2 B3]]. unfold s_conflict. rewrite <- A1, <- A2, <- B1, <- B2.
  apply existsb_ext'. intros o _. f_equal. apply existsb_ext'. intros p _. rewrite A3, B3. reflexivity.
Qed.

Definition rel_sres (m1 m2 : res (sdef * ret)) : Prop :=
  match m1, m2 with
  | Ok (a', r), Ok (b', r') => r = r' /\ seq_sdef a' b'
  | Raise e, Raise e' => e = e'
  | _, _ => False
  end.

Lemma rel_sres_ok a b r : seq_sdef a b -> rel_sres (Ok (a, r)) (Ok (b, r)).
Proof. intros H. split; [reflexivity|exact H]. Qed.

Ltac seq_cells Hc := split; [reflexivity|]; split; [reflexivity|]; intros ? ?; cbn [s_cell]; rewrite ?Hc; reflexivity.

(** [sstep1] respects extensional equality of its operands *)
Lemma sstep1_ext a b o x y : seq_sdef a b -> oseq x y -> rel_sres (sstep1 a o x) (sstep1 b o y).
Proof.
  intros Hab Hxy. destruct a as [ao ap ac], b as [bo bp bc]. destruct Hab as [Ho [Hp Hc]].
  cbn [s_objs s_props s_cell] in Ho, Hp, Hc. subst bo bp.
  destruct o; cbn [sstep1 s_objs s_props s_cell].
  - apply rel_sres_ok. seq_cells Hc.
  - reflexivity.
  - destruct (memn new ao); [reflexivity|]. destruct (negb (memn old ao)); [reflexivity|]. apply rel_sres_ok. seq_cells Hc.
  - destruct (memn new ap); [reflexivity|]. destruct (negb (memn old ap)); [reflexivity|]. apply rel_sres_ok. seq_cells Hc.
  - destruct (s_move ao o i); cbn [bind]; [|reflexivity]. apply rel_sres_ok. seq_cells Hc.
  - destruct (s_move ap p i); cbn [bind]; [|reflexivity]. apply rel_sres_ok. seq_cells Hc.
  - apply rel_sres_ok. seq_cells Hc.
  - apply rel_sres_ok. seq_cells Hc.
  - destruct (memn o ao); [|reflexivity]. apply rel_sres_ok. seq_cells Hc.
  - destruct (memn p ap); [|reflexivity]. apply rel_sres_ok. seq_cells Hc.
  - rewrite (empty_filter_ext ac bc ap ao Hc). apply rel_sres_ok. seq_cells Hc.
  - rewrite (empty_filter_ext' ac bc ap ao Hc). apply rel_sres_ok. seq_cells Hc.
  - apply rel_sres_ok. seq_cells Hc.
  - apply rel_sres_ok. seq_cells Hc.
  - destruct x as [x|], y as [y|]; cbn [oseq] in Hxy; try contradiction; [|reflexivity].
    rewrite (s_conflict_ext (mkS ao ap ac) (mkS ao ap bc) x y) by (auto; repeat split; auto).
    destruct (negb ignore && s_conflict (mkS ao ap bc) y); [reflexivity|]. destruct Hxy as [X1 [X2 X3]].
    split; [reflexivity|]. cbn [s_objs s_props s_cell]. rewrite X1, X2. split; [reflexivity|]. split; [reflexivity|].
    intros o' p'. cbn [s_cell]. rewrite Hc, X3. reflexivity.
  - destruct x as [x|], y as [y|]; cbn [oseq] in Hxy; try contradiction; [|reflexivity].
    rewrite (s_conflict_ext (mkS ao ap ac) (mkS ao ap bc) x y) by (auto; repeat split; auto).
    destruct (negb ignore && s_conflict (mkS ao ap bc) y); [reflexivity|]. destruct Hxy as [X1 [X2 X3]].
    split; [reflexivity|]. cbn [s_objs s_props s_cell]. rewrite X1, X2. split; [reflexivity|]. split; [reflexivity|].
    intros o' p'. cbn [s_cell]. rewrite Hc, X3. reflexivity.
  - apply rel_sres_ok. seq_cells Hc.
  - apply rel_sres_ok. seq_cells Hc.
  - apply rel_sres_ok. seq_cells Hc.
  - destruct x as [x|], y as [y|]; cbn [oseq] in Hxy; try contradiction; [|reflexivity].
    rewrite (s_conflict_ext (mkS ao ap ac) (mkS ao ap bc) x y) by (auto; repeat split; auto).
    destruct (negb ignore && s_conflict (mkS ao ap bc) y); [reflexivity|]. destruct Hxy as [X1 [X2 X3]].
    split; [reflexivity|]. cbn [s_objs s_props s_cell]. rewrite X1, X2. split; [reflexivity|]. split; [reflexivity|].
    intros o' p'. cbn [s_cell]. rewrite Hc, X3. reflexivity.
  - destruct x as [x|], y as [y|]; cbn [oseq] in Hxy; try contradiction; [|reflexivity].
    rewrite (s_conflict_ext (mkS ao ap ac) (mkS ao ap bc) x y) by (auto; repeat split; auto).
    destruct (negb ignore && s_conflict (mkS ao ap bc) y); [reflexivity|]. destruct Hxy as [X1 [X2 X3]].
    split; [reflexivity|]. cbn [s_objs s_props s_cell]. rewrite X1, X2. split; [reflexivity|]. split; [reflexivity|].
    intros o' p'. cbn [s_cell]. rewrite Hc, X3. reflexivity.
  - match goal with |- rel_sres (if ?c then _ else _) _ => destruct c end; [reflexivity|].
    apply rel_sres_ok. seq_cells Hc.
  - apply rel_sres_ok. seq_cells Hc.
  - destruct (s_new objs props bools); cbn [bind]; [|reflexivity]. apply rel_sres_ok. apply seq_sdef_refl.
Qed.

Lemma Forall2_sim_nth S s h :
  Forall2 sim S s ->
  match nth_error S h, nth_error s h with
  | Some a, Some d => sim a d
  | None, None => True
  | _, _ => False
  end.
Proof. intros H. revert h. induction H as [|a d S s Had H IH]; intros [|h]; cbn [nth_error]; auto. apply IH. Qed.

Lemma Forall2_sim_put S s h a d : Forall2 sim S s -> sim a d -> Forall2 sim (sput S h a) (put s h d).
Proof. intros H Had. revert h. induction H as [|a0 d0 S s H0 H IH]; intros [|h]; cbn [sput put]; constructor; auto. Qed.

Lemma Forall2_sim_other S s o : Forall2 sim S s -> oseq (sother_of S o) (option_map abs (other_of s o)).
Proof.
  intros H. unfold sother_of, other_of. destruct (op_other o) as [k|]; [|exact I].
  pose proof (Forall2_sim_nth S s k H) as Hk. destruct (nth_error S k), (nth_error s k); cbn [option_map oseq]; auto.
Qed.

(** one call: same return value or exception, and again related stores *)
Theorem sstep_sim S s o :
  Forall2 sim S s -> Forall Inv s ->
  match step s o, sstep S o with
  | Ok (s', r), Ok (S', r') => r = r' /\ Forall2 sim S' s' /\ Forall Inv s'
  | Raise e, Raise e' => e = e'
  | _, _ => False
  end.
Proof.
  intros HR HS. pose proof (Forall2_len _ _ _ HR) as Hlen.
  assert (G : forall h m sp, rel_sres sp m ->
            forall (R : match step s o, m with
                        | Ok (s', r), Ok (a', r') => exists d', sim a' d' /\ Inv d' /\ store_rel s o h s' r d' r'
                        | Raise e, Raise e' => e = e'
                        | _, _ => False
                        end),
            match step s o, sfinish S o h sp with
            | Ok (s', r), Ok (S', r') => r = r' /\ Forall2 sim S' s'
            | Raise e, Raise e' => e = e'
            | _, _ => False
            end).
  { intros h m sp Hrel R. unfold sfinish.
    destruct sp as [[a1 r1]|e1], m as [[a2 r2]|e2]; cbn [rel_sres] in Hrel; try contradiction; cbn [bind].
    - destruct Hrel as [-> Hseq]. destruct (step s o) as [[s' r]|e]; [|contradiction].
      destruct R as [d' [Hs [Hi R]]]. unfold store_rel in R. destruct (is_derive o).
      + destruct R as [-> [-> _]]. split; [rewrite Hlen; reflexivity|].
        apply Forall2_app; [exact HR|]. constructor; [|constructor]. eapply seq_sim; eauto.
      + destruct R as [-> ->]. split; [reflexivity|]. apply Forall2_sim_put; [exact HR|]. eapply seq_sim; eauto.
    - subst e2. destruct (step s o) as [[s' r]|e]; [contradiction|exact R]. }
  assert (Main : match step s o, sstep S o with
                 | Ok (s', r), Ok (S', r') => r = r' /\ Forall2 sim S' s'
                 | Raise e, Raise e' => e = e'
                 | _, _ => False
                 end).
  { unfold sstep. destruct (op_handle o) as [h|] eqn:Hh.
    - pose proof (Forall2_sim_nth S s h HR) as Hn.
      destruct (nth_error S h) as [a|] eqn:Ea, (nth_error s h) as [d|] eqn:Ed; try contradiction.
      + apply (G h (sstep1 (abs d) o (option_map abs (other_of s o)))); [|apply step_refines; auto].
        apply sstep1_ext; [apply sim_seq; exact Hn|apply Forall2_sim_other; exact HR].
      + rewrite (step_bad_handle s o h Hh Ed). reflexivity.
    - apply (G 0%nat (sstep1 s_empty o None)); [|apply step_refines_nohandle; exact Hh].
      apply sstep1_ext; [apply seq_sdef_refl|exact I]. }
  destruct (step s o) as [[s' r]|e] eqn:E; destruct (sstep S o) as [[S' r']|e']; try exact Main.
  destruct Main as [-> HF]. split; [reflexivity|]. split; [exact HF|]. eapply step_Inv; eauto.
Qed.

Lemma sstep_total_sim S s o :
  Forall2 sim S s -> Forall Inv s ->
  snd (step_total s o) = snd (sstep_total S o) /\
  Forall2 sim (fst (sstep_total S o)) (fst (step_total s o)) /\ Forall Inv (fst (step_total s o)).
Proof.
  intros HR HS. pose proof (sstep_sim S s o HR HS) as H. unfold step_total, sstep_total.
  destruct (step s o) as [[s' r]|e], (sstep S o) as [[S' r']|e']; try contradiction; cbn [fst snd].
  - destruct H as [-> [H1 H2]]. auto.
  - subst. auto.
Qed.

Lemma Forall2_sim_obs S s : Forall2 sim S s -> map obs_defn s = map obs_sdef S.
Proof. induction 1 as [|a d S s H _ IH]; cbn [map]; [reflexivity|]. rewrite IH, (sim_obs a d H). reflexivity. Qed.

(** whole histories: the machine and the plain model produce the same list of return values /
    exceptions and stores with equal observations; the invariant holds at the end *)
Theorem run_matches_plain_model ops : forall S s,
  Forall2 sim S s -> Forall Inv s ->
  snd (run ops s) = snd (srun ops S) /\
  Forall2 sim (fst (srun ops S)) (fst (run ops s)) /\
  map obs_defn (fst (run ops s)) = map obs_sdef (fst (srun ops S)) /\
  Forall Inv (fst (run ops s)).
Proof.
  induction ops as [|o ops IH]; intros S s HR HS; cbn [run srun fst snd].
  - split; [reflexivity|]. split; [exact HR|]. split; [apply Forall2_sim_obs; exact HR|exact HS].
  - destruct (sstep_total_sim S s o HR HS) as [Hr [HR' HS']].
    destruct (IH _ _ HR' HS') as [I1 [I2 [I3 I4]]]. rewrite Hr, I1. auto.
Qed.

Lemma run_fst ops s : fst (run ops s) = fold_left (fun s o => fst (step_total s o)) ops s.
Proof. revert s. induction ops as [|o ops IH]; intros s; cbn [run fold_left fst]; [reflexivity|apply IH]. Qed.

Lemma run_app ops1 ops2 s :
  run (ops1 ++ ops2) s = (fst (run ops2 (fst (run ops1 s))), snd (run ops1 s) ++ snd (run ops2 (fst (run ops1 s)))).
Proof.
  revert s. induction ops1 as [|o ops1 IH]; intros s; cbn [app run fst snd].
  - destruct (run ops2 s); reflexivity.
  - rewrite IH. reflexivity.
Qed.

Lemma srun_app ops1 ops2 S :
  srun (ops1 ++ ops2) S = (fst (srun ops2 (fst (srun ops1 S))), snd (srun ops1 S) ++ snd (srun ops2 (fst (srun ops1 S)))).
Proof.
  revert S. induction ops1 as [|o ops1 IH]; intros S; cbn [app srun fst snd].
  - destruct (srun ops2 S); reflexivity.
  - rewrite IH. reflexivity.
Qed.

(** from the empty store: every history, hence every prefix of every history *)
Corollary history_matches_plain_model ops :
  snd (run ops []) = snd (srun ops []) /\
  map obs_defn (fst (run ops [])) = map obs_sdef (fst (srun ops [])) /\
  Forall Inv (fst (run ops [])).
Proof.
  destruct (run_matches_plain_model ops [] [] (Forall2_nil _) (Forall_nil _)) as [H1 [_ [H3 H4]]]. auto.
Qed.

Corollary history_prefix_matches_plain_model ops1 ops2 :
  map obs_defn (fst (run ops1 [])) = map obs_sdef (fst (srun ops1 [])) /\
  snd (run ops1 []) = snd (srun ops1 []) /\
  snd (run (ops1 ++ ops2) []) = snd (srun (ops1 ++ ops2) []).
Proof.
  destruct (history_matches_plain_model ops1) as [H1 [H2 _]].
  destruct (history_matches_plain_model (ops1 ++ ops2)) as [H3 _]. auto.
Qed.

(** end to end: [L] is the value returned by the model of Context.lattice *)
Lemma union_seed_order_built fuel dfuel c L cs1 cs2 fuel1 fuel2 :
  wf_ctx c -> (Nat.max (nG c) (nM c) <= dfuel)%nat -> build_lattice fuel dfuel (relation_new c) = Ok L ->
  (forall i, In i cs1 -> (i < length (l_concepts L))%nat) ->
  (forall i, In i cs1 <-> In i cs2) ->
  (length cs1 + edges_up L <= fuel1)%nat -> (length cs2 + edges_up L <= fuel2)%nat ->
  (length cs1 + edges_down L <= fuel1)%nat -> (length cs2 + edges_down L <= fuel2)%nat ->
  upset_union fuel1 L cs1 = upset_union fuel2 L cs2 /\ downset_union fuel1 L cs1 = downset_union fuel2 L cs2.
Proof.
  intros Hwf Hd HB H1 Hm U1 U2 D1 D2.
  pose proof (build_lattice_ok fuel dfuel c L Hwf Hd HB) as OK.
  split; [exact (upset_union_seed_order c L cs1 cs2 fuel1 fuel2 OK H1 Hm U1 U2)
         |exact (downset_union_seed_order c L cs1 cs2 fuel1 fuel2 OK H1 Hm D1 D2)].
Qed.

(** * C17 witness: one particular re-ordering of all the sets of a definition *)
Definition rev_sets (d : defn) : defn :=
  mkD (mkU (rev (u_seen (d_objs d))) (u_items (d_objs d)))
      (mkU (rev (u_seen (d_props d))) (u_items (d_props d)))
      (rev (d_pairs d)).

Lemma rev_sets_deq d : deq d (rev_sets d).
Proof.
  unfold deq, ueq, rev_sets. cbn [d_objs d_props d_pairs u_seen u_items].
  repeat split; try reflexivity; apply Permutation_rev.
Qed.

Lemma map_rev_sets_deq s : Forall2 deq s (map rev_sets s).
Proof. induction s; cbn [map]; constructor; auto using rev_sets_deq. Qed.
