(** C17: the Definition machine never depends on the iteration order of the Python sets
    [_seen] and [_pairs].  Two stores whose definitions have equal ordered items and
    [Permutation]-related [u_seen] / [d_pairs] lists give, for every operation, the same
    return value or exception, equal observations, and again related stores.
    No invariant is needed. *)
From Coq Require Import ZArith List Bool Lia ZifyBool Permutation Arith.
From Concepts Require Import Base.Res Model.Definition Spec.DefSpec Proofs.DefUnique Proofs.DefPairs Proofs.Definition.
Import ListNotations.

(** * list facts *)
Lemma Permutation_filter {A} (f : A -> bool) l l' : Permutation l l' -> Permutation (filter f l) (filter f l').
Proof.
  induction 1 as [|x l l' P IH|x y l|l l' l'' P1 IH1 P2 IH2]; cbn; auto.
  - destruct (f x); auto.
  - destruct (f x), (f y); auto using perm_swap.
  - eapply perm_trans; eauto.
Qed.

Lemma existsb_perm {A} (f : A -> bool) l l' : Permutation l l' -> existsb f l = existsb f l'.
Proof.
  induction 1 as [|x l l' P IH|x y l|l l' l'' P1 IH1 P2 IH2]; cbn; auto.
  - rewrite IH; auto.
  - rewrite !orb_assoc, (orb_comm (f y)); auto.
  - congruence.
Qed.

Lemma perm_addp x a1 a2 : Permutation a1 a2 -> Permutation (addp x a1) (addp x a2).
Proof.
  intros P. unfold addp. rewrite (memp_perm x _ _ P). destruct (memp x a2); auto.
  apply Permutation_app_tail; auto.
Qed.

Lemma perm_removep x a1 a2 : Permutation a1 a2 -> Permutation (removep x a1) (removep x a2).
Proof. apply Permutation_filter. Qed.

Lemma perm_fold {X} (f : list (nat * nat) -> X -> list (nat * nat)) xs a1 a2 :
  (forall a1 a2 x, Permutation a1 a2 -> Permutation (f a1 x) (f a2 x)) ->
  Permutation a1 a2 -> Permutation (fold_left f xs a1) (fold_left f xs a2).
Proof.
  intros Hf. revert a1 a2; induction xs as [|x r IH]; intros a1 a2 P; cbn [fold_left]; auto.
Qed.

(** folding addp over a list: the accumulator followed by the (deduplicated) new elements *)
Lemma fold_addp_decomp l acc :
  exists N, fold_left (fun acc x => addp x acc) l acc = acc ++ N /\ NoDup N /\
            forall y, In y N <-> In y l /\ ~ In y acc.
Proof.
  revert acc; induction l as [|x r IH]; intros acc; cbn [fold_left].
  - exists []. rewrite app_nil_r. repeat split; auto; try constructor; cbn; tauto.
  - unfold addp at 2. destruct (memp x acc) eqn:E.
    + apply memp_In in E. destruct (IH acc) as [N [H1 [H2 H3]]]. exists N.
      split; auto. split; auto. intros y. rewrite H3. cbn [In]. split.
      * intros [Ha Hb]. split; auto.
      * intros [[<-|Ha] Hb]; [tauto|auto].
    + apply memp_false in E. destruct (IH (acc ++ [x])) as [N [H1 [H2 H3]]]. exists (x :: N).
      split; [rewrite H1, <- app_assoc; reflexivity|]. split.
      * constructor; auto. rewrite H3, In_snoc. tauto.
      * intros y. cbn [In]. rewrite H3, In_snoc. split.
        -- intros [<-|[Ha Hb]]; [tauto|]. tauto.
        -- intros [[<-|Ha] Hb]; auto. destruct (pair_eq_dec y x) as [->|Hne]; [left; auto|].
           right. split; auto. intros [H|H]; auto.
Qed.

Lemma perm_fold_addp l1 l2 a1 a2 :
  Permutation l1 l2 -> Permutation a1 a2 ->
  Permutation (fold_left (fun acc x => addp x acc) l1 a1) (fold_left (fun acc x => addp x acc) l2 a2).
Proof.
  intros Pl Pa. destruct (fold_addp_decomp l1 a1) as [N1 [E1 [D1 M1]]].
  destruct (fold_addp_decomp l2 a2) as [N2 [E2 [D2 M2]]]. rewrite E1, E2.
  apply Permutation_app; auto. apply NoDup_Permutation; auto.
  intros y. rewrite M1, M2. split; intros [Ha Hb]; split.
  - eapply Permutation_in; eauto.
  - intros H. apply Hb. eapply Permutation_in; [apply Permutation_sym|]; eauto.
  - eapply Permutation_in; [apply Permutation_sym|]; eauto.
  - intros H. apply Hb. eapply Permutation_in; eauto.
Qed.

(** * relations *)
Definition ueq (u1 u2 : unique) : Prop := u_items u1 = u_items u2 /\ Permutation (u_seen u1) (u_seen u2).
Definition deq (d1 d2 : defn) : Prop :=
  ueq (d_objs d1) (d_objs d2) /\ ueq (d_props d1) (d_props d2) /\ Permutation (d_pairs d1) (d_pairs d2).

Definition rres {A} (R : A -> A -> Prop) (m1 m2 : res A) : Prop :=
  match m1, m2 with
  | Ok a, Ok b => R a b
  | Raise e1, Raise e2 => e1 = e2
  | _, _ => False
  end.

Lemma rres_bind {A B} (RA : A -> A -> Prop) (RB : B -> B -> Prop) m1 m2 f1 f2 :
  rres RA m1 m2 -> (forall a b, RA a b -> rres RB (f1 a) (f2 b)) -> rres RB (bind m1 f1) (bind m2 f2).
Proof. destruct m1, m2; cbn; auto; tauto. Qed.

Lemma ueq_refl u : ueq u u.
Proof. split; auto. Qed.

Lemma deq_refl d : deq d d.
Proof. repeat split; auto. Qed.

Lemma ueq_sym u1 u2 : ueq u1 u2 -> ueq u2 u1.
Proof. intros [E P]. split; auto using Permutation_sym. Qed.

Lemma deq_sym d1 d2 : deq d1 d2 -> deq d2 d1.
Proof.
  intros [H1 [H2 H3]]. split; [apply ueq_sym; auto|]. split; [apply ueq_sym; auto|]. apply Permutation_sym; auto.
Qed.

Lemma ueq_trans u1 u2 u3 : ueq u1 u2 -> ueq u2 u3 -> ueq u1 u3.
Proof. intros [E P] [E' P']. split; [congruence|eapply perm_trans; eauto]. Qed.

Lemma ueq_contains u1 u2 x : ueq u1 u2 -> u_contains u1 x = u_contains u2 x.
Proof. intros [_ P]. apply memn_perm; auto. Qed.

Lemma deq_memp d1 d2 x : deq d1 d2 -> memp x (d_pairs d1) = memp x (d_pairs d2).
Proof. intros [_ [_ P]]. apply memp_perm; auto. Qed.

Lemma deq_objects d1 d2 : deq d1 d2 -> objects_of d1 = objects_of d2.
Proof. intros [[E _] _]. exact E. Qed.

Lemma deq_properties d1 d2 : deq d1 d2 -> properties_of d1 = properties_of d2.
Proof. intros [_ [[E _] _]]. exact E. Qed.

Lemma deq_bools d1 d2 : deq d1 d2 -> bools_of d1 = bools_of d2.
Proof.
  intros H. unfold bools_of. rewrite (deq_objects _ _ H), (deq_properties _ _ H).
  apply map_ext. intros o. apply map_ext. intros p. apply deq_memp; auto.
Qed.

(** equal observations *)
Lemma deq_obs d1 d2 : deq d1 d2 -> obs_defn d1 = obs_defn d2.
Proof.
  intros H. unfold obs_defn. rewrite (deq_objects _ _ H), (deq_properties _ _ H), (deq_bools _ _ H). reflexivity.
Qed.

(** * tools.Unique *)
Lemma ueq_add u1 u2 x : ueq u1 u2 -> ueq (u_add u1 x) (u_add u2 x).
Proof.
  intros [E P]. unfold u_add. rewrite (memn_perm x _ _ P). destruct (memn x (u_seen u2)); split; auto; cbn [u_items u_seen].
  - rewrite E; auto.
  - apply Permutation_app_tail; auto.
Qed.

Lemma ueq_ior u1 u2 l : ueq u1 u2 -> ueq (u_ior u1 l) (u_ior u2 l).
Proof.
  unfold u_ior. revert u1 u2; induction l as [|x r IH]; intros u1 u2 H; cbn [fold_left]; auto.
  apply IH, ueq_add, H.
Qed.

Lemma ueq_discard u1 u2 x : ueq u1 u2 -> ueq (u_discard u1 x) (u_discard u2 x).
Proof.
  intros [E P]. unfold u_discard. rewrite (memn_perm x _ _ P). destruct (memn x (u_seen u2)); split; auto; cbn [u_items u_seen].
  - rewrite E; auto.
  - apply Permutation_filter; auto.
Qed.

Lemma ueq_fold_discard l u1 u2 : ueq u1 u2 -> ueq (fold_left u_discard l u1) (fold_left u_discard l u2).
Proof.
  revert u1 u2; induction l as [|x r IH]; intros u1 u2 H; cbn [fold_left]; auto.
  apply IH, ueq_discard, H.
Qed.

Lemma ueq_iand u1 u2 o1 o2 :
  ueq u1 u2 -> (forall x, memn x o1 = memn x o2) -> ueq (u_iand u1 o1) (u_iand u2 o2).
Proof.
  intros H Ho. unfold u_iand. destruct H as [E P]. rewrite E.
  rewrite (filter_ext (fun x => negb (memn x o1)) (fun x => negb (memn x o2))) by (intros x; rewrite Ho; auto).
  apply ueq_fold_discard. split; auto.
Qed.

Lemma ueq_remove u1 u2 x : ueq u1 u2 -> rres ueq (u_remove u1 x) (u_remove u2 x).
Proof.
  intros H. unfold u_remove. rewrite (ueq_contains _ _ x H). destruct (u_contains u2 x); cbn; auto.
  apply ueq_discard; auto.
Qed.

Lemma ueq_for_remove l u1 u2 : ueq u1 u2 -> rres ueq (for_fold u_remove l u1) (for_fold u_remove l u2).
Proof.
  revert u1 u2; induction l as [|x r IH]; intros u1 u2 H; cbn [for_fold]; auto.
  eapply rres_bind; [apply ueq_remove; eauto|]. intros a b Hab. apply IH; auto.
Qed.

Lemma ueq_replace u1 u2 old new : ueq u1 u2 -> rres ueq (u_replace u1 old new) (u_replace u2 old new).
Proof.
  intros [E P]. unfold u_replace. rewrite !(memn_perm _ _ _ P), E.
  destruct (memn new (u_seen u2)); cbn; auto.
  destruct (list_index old (u_items u2) 0); cbn; auto.
  destruct (memn old (u_seen u2)); cbn; auto.
  split; cbn [u_items u_seen]; auto. apply Permutation_app_tail, Permutation_filter; auto.
Qed.

Lemma ueq_move u1 u2 x i : ueq u1 u2 -> rres ueq (u_move u1 x i) (u_move u2 x i).
Proof.
  intros [E P]. unfold u_move. rewrite E.
  destruct (list_index x (u_items u2) 0); cbn; auto.
  destruct (Z.of_nat n =? i)%Z; cbn; split; auto.
Qed.

(** * definitions *)
Definition rel_res (m1 m2 : res (defn * ret)) : Prop :=
  rres (fun x y => deq (fst x) (fst y) /\ snd x = snd y) m1 m2.

Lemma rel_ok d1 d2 r : deq d1 d2 -> rel_res (Ok (d1, r)) (Ok (d2, r)).
Proof. intros H. cbn. auto. Qed.

Lemma rel_lift m1 m2 :
  rres deq m1 m2 -> rel_res (do d' <- m1 ;; Ok (d', RNone)) (do d' <- m2 ;; Ok (d', RNone)).
Proof. destruct m1, m2; cbn; auto. Qed.

Lemma deq_setitem d1 d2 x p v : deq d1 d2 -> deq (d_setitem d1 x p v) (d_setitem d2 x p v).
Proof.
  intros [Ho [Hp Hq]]. unfold d_setitem. split; [apply ueq_add; auto|]. split; [apply ueq_add; auto|].
  cbn [d_pairs]. destruct v; [apply perm_addp|apply perm_removep]; auto.
Qed.

Lemma deq_rename_object d1 d2 old new :
  deq d1 d2 -> rres deq (d_rename_object d1 old new) (d_rename_object d2 old new).
Proof.
  intros H. pose proof H as [Ho [Hp Hq]]. unfold d_rename_object.
  eapply rres_bind; [apply ueq_replace; eauto|]. intros a b Hab. cbn [rres].
  split; [exact Hab|]. split; [exact Hp|]. cbn [d_pairs].
  rewrite (deq_properties _ _ H).
  rewrite (filter_ext (fun p => memp (old, p) (d_pairs d1)) (fun p => memp (old, p) (d_pairs d2)))
    by (intros p; apply deq_memp; auto).
  apply perm_fold; [intros; apply perm_addp; auto|]. apply perm_fold; [intros; apply perm_removep; auto|]. auto.
Qed.

Lemma deq_rename_property d1 d2 old new :
  deq d1 d2 -> rres deq (d_rename_property d1 old new) (d_rename_property d2 old new).
Proof.
  intros H. pose proof H as [Ho [Hp Hq]]. unfold d_rename_property.
  eapply rres_bind; [apply ueq_replace; eauto|]. intros a b Hab. cbn [rres].
  split; [exact Ho|]. split; [exact Hab|]. cbn [d_pairs].
  rewrite (deq_objects _ _ H).
  rewrite (filter_ext (fun o => memp (o, old) (d_pairs d1)) (fun o => memp (o, old) (d_pairs d2)))
    by (intros p; apply deq_memp; auto).
  apply perm_fold; [intros; apply perm_addp; auto|]. apply perm_fold; [intros; apply perm_removep; auto|]. auto.
Qed.

Lemma deq_move_object d1 d2 x i : deq d1 d2 -> rres deq (d_move_object d1 x i) (d_move_object d2 x i).
Proof.
  intros [Ho [Hp Hq]]. unfold d_move_object. eapply rres_bind; [apply ueq_move; eauto|].
  intros a b Hab. cbn. repeat split; auto; first [apply Hab|apply Hp].
Qed.

Lemma deq_move_property d1 d2 x i : deq d1 d2 -> rres deq (d_move_property d1 x i) (d_move_property d2 x i).
Proof.
  intros [Ho [Hp Hq]]. unfold d_move_property. eapply rres_bind; [apply ueq_move; eauto|].
  intros a b Hab. cbn. repeat split; auto; first [apply Hab|apply Ho].
Qed.

Lemma deq_add_object d1 d2 x ps : deq d1 d2 -> deq (d_add_object d1 x ps) (d_add_object d2 x ps).
Proof.
  intros [Ho [Hp Hq]]. unfold d_add_object. split; [apply ueq_add; auto|]. split; [apply ueq_ior; auto|].
  cbn [d_pairs]. apply perm_fold; auto. intros; apply perm_addp; auto.
Qed.

Lemma deq_add_property d1 d2 x os : deq d1 d2 -> deq (d_add_property d1 x os) (d_add_property d2 x os).
Proof.
  intros [Ho [Hp Hq]]. unfold d_add_property. split; [apply ueq_ior; auto|]. split; [apply ueq_add; auto|].
  cbn [d_pairs]. apply perm_fold; auto. intros; apply perm_addp; auto.
Qed.

Lemma deq_remove_object d1 d2 x : deq d1 d2 -> rres deq (d_remove_object d1 x) (d_remove_object d2 x).
Proof.
  intros H. pose proof H as [Ho [Hp Hq]]. unfold d_remove_object.
  eapply rres_bind; [apply ueq_remove; eauto|]. intros a b Hab. cbn [rres].
  split; [exact Hab|]. split; [exact Hp|]. cbn [d_pairs]. rewrite (deq_properties _ _ H).
  apply perm_fold; auto. intros; apply perm_removep; auto.
Qed.

Lemma deq_remove_property d1 d2 x : deq d1 d2 -> rres deq (d_remove_property d1 x) (d_remove_property d2 x).
Proof.
  intros H. pose proof H as [Ho [Hp Hq]]. unfold d_remove_property.
  eapply rres_bind; [apply ueq_remove; eauto|]. intros a b Hab. cbn [rres].
  split; [exact Ho|]. split; [exact Hab|]. cbn [d_pairs]. rewrite (deq_objects _ _ H).
  apply perm_fold; auto. intros; apply perm_removep; auto.
Qed.

Lemma deq_remove_empty_objects d1 d2 :
  deq d1 d2 ->
  rel_res (do '(d', l) <- d_remove_empty_objects d1 ;; Ok (d', RNames l))
          (do '(d', l) <- d_remove_empty_objects d2 ;; Ok (d', RNames l)).
Proof.
  intros H. pose proof H as [Ho [Hp Hq]]. unfold d_remove_empty_objects. rewrite (deq_objects _ _ H).
  rewrite (filter_ext (fun o => negb (existsb (fun pr => Nat.eqb (fst pr) o) (d_pairs d1)))
                      (fun o => negb (existsb (fun pr => Nat.eqb (fst pr) o) (d_pairs d2))))
    by (intros o; f_equal; apply existsb_perm; auto).
  set (empty := filter _ (objects_of d2)).
  pose proof (ueq_for_remove empty _ _ Ho) as R.
  destruct (for_fold u_remove empty (d_objs d1)) as [a|e1]; destruct (for_fold u_remove empty (d_objs d2)) as [b|e2];
    cbn in R |- *; auto.
  split; auto. repeat split; auto; first [apply R|apply Hp].
Qed.

Lemma deq_remove_empty_properties d1 d2 :
  deq d1 d2 ->
  rel_res (do '(d', l) <- d_remove_empty_properties d1 ;; Ok (d', RNames l))
          (do '(d', l) <- d_remove_empty_properties d2 ;; Ok (d', RNames l)).
Proof.
  intros H. pose proof H as [Ho [Hp Hq]]. unfold d_remove_empty_properties. rewrite (deq_properties _ _ H).
  rewrite (filter_ext (fun p => negb (existsb (fun pr => Nat.eqb (snd pr) p) (d_pairs d1)))
                      (fun p => negb (existsb (fun pr => Nat.eqb (snd pr) p) (d_pairs d2))))
    by (intros o; f_equal; apply existsb_perm; auto).
  set (empty := filter _ (properties_of d2)).
  pose proof (ueq_for_remove empty _ _ Hp) as R.
  destruct (for_fold u_remove empty (d_props d1)) as [a|e1]; destruct (for_fold u_remove empty (d_props d2)) as [b|e2];
    cbn in R |- *; auto.
  split; auto. repeat split; auto; first [apply R|apply Ho].
Qed.

Lemma deq_set_object d1 d2 x ps : deq d1 d2 -> deq (d_set_object d1 x ps) (d_set_object d2 x ps).
Proof.
  intros [Ho [Hp Hq]]. unfold d_set_object.
  pose proof (ueq_ior _ _ (u_items (u_new ps)) Hp) as Hi.
  split; [apply ueq_add; auto|]. split; [exact Hi|]. cbn [d_pairs].
  destruct Hi as [-> _]. apply perm_fold; auto.
  intros a1 a2 p P. destruct (u_contains (u_new ps) p); [apply perm_addp|apply perm_removep]; auto.
Qed.

Lemma deq_set_property d1 d2 x os : deq d1 d2 -> deq (d_set_property d1 x os) (d_set_property d2 x os).
Proof.
  intros [Ho [Hp Hq]]. unfold d_set_property.
  pose proof (ueq_ior _ _ (u_items (u_new os)) Ho) as Hi.
  split; [exact Hi|]. split; [apply ueq_add; auto|]. cbn [d_pairs].
  destruct Hi as [-> _]. apply perm_fold; auto.
  intros a1 a2 p P. destruct (u_contains (u_new os) p); [apply perm_addp|apply perm_removep]; auto.
Qed.

Lemma flat_map_ext' {A B} (f g : A -> list B) l : (forall x, f x = g x) -> flat_map f l = flat_map g l.
Proof. intros H. induction l as [|x r IH]; cbn; auto. rewrite H, IH; auto. Qed.

Lemma conflicts_eq d1 d2 e1 e2 : deq d1 d2 -> deq e1 e2 -> conflicts d1 e1 = conflicts d2 e2.
Proof.
  intros Hd He. unfold conflicts. rewrite (deq_objects _ _ He), (deq_properties _ _ He).
  destruct Hd as [Ho [Hp Hq]].
  rewrite (filter_ext (fun o => u_contains (d_objs d1) o) (fun o => u_contains (d_objs d2) o))
    by (intros o; apply ueq_contains; auto).
  rewrite (filter_ext (fun p => u_contains (d_props d1) p) (fun p => u_contains (d_props d2) p))
    by (intros o; apply ueq_contains; auto).
  apply flat_map_ext'. intros o. apply flat_map_ext'. intros p.
  rewrite (memp_perm _ _ _ Hq), (deq_memp _ _ _ He). reflexivity.
Qed.

Lemma deq_union_update d1 d2 e1 e2 ig :
  deq d1 d2 -> deq e1 e2 -> rres deq (d_union_update d1 e1 ig) (d_union_update d2 e2 ig).
Proof.
  intros Hd He. unfold d_union_update. rewrite (conflicts_eq _ _ _ _ Hd He).
  destruct (negb ig && negb _); cbn [rres]; auto.
  rewrite (deq_objects _ _ He), (deq_properties _ _ He). destruct Hd as [Ho [Hp Hq]].
  split; [apply ueq_ior; auto|]. split; [apply ueq_ior; auto|]. cbn [d_pairs].
  apply perm_fold_addp; auto. apply He.
Qed.

Lemma deq_intersection_update d1 d2 e1 e2 ig :
  deq d1 d2 -> deq e1 e2 -> rres deq (d_intersection_update d1 e1 ig) (d_intersection_update d2 e2 ig).
Proof.
  intros Hd He. unfold d_intersection_update. rewrite (conflicts_eq _ _ _ _ Hd He).
  destruct (negb ig && negb _); cbn [rres]; auto.
  destruct Hd as [Ho [Hp Hq]]. pose proof He as [Ho' [Hp' Hq']].
  split; [apply ueq_iand; auto; intros x; apply memn_perm, Ho'|].
  split; [apply ueq_iand; auto; intros x; apply memn_perm, Hp'|]. cbn [d_pairs].
  rewrite (filter_ext (fun x => memp x (d_pairs e1)) (fun x => memp x (d_pairs e2))) by (intros x; apply memp_perm; auto).
  apply Permutation_filter; auto.
Qed.

Lemma deq_transposed d1 d2 : deq d1 d2 -> deq (d_transposed d1) (d_transposed d2).
Proof.
  intros [Ho [Hp Hq]]. unfold d_transposed. split; auto. split; auto. cbn [d_pairs]. apply Permutation_map; auto.
Qed.

Lemma deq_inverted d1 d2 : deq d1 d2 -> deq (d_inverted d1) (d_inverted d2).
Proof.
  intros H. pose proof H as [Ho [Hp Hq]]. unfold d_inverted. split; auto. split; auto. cbn [d_pairs].
  rewrite (deq_objects _ _ H), (deq_properties _ _ H).
  erewrite flat_map_ext'; [apply Permutation_refl|]. intros o. apply flat_map_ext'. intros p.
  rewrite (memp_perm _ _ _ Hq). reflexivity.
Qed.

Lemma ueq_take u1 u2 sel reorder : ueq u1 u2 -> ueq (take_u sel reorder u1) (take_u sel reorder u2).
Proof.
  intros H. unfold take_u. destruct reorder, sel as [l|]; auto using ueq_refl.
  apply ueq_iand; auto.
Qed.

Lemma deq_take d1 d2 objs props reorder :
  deq d1 d2 -> rres deq (d_take d1 objs props reorder) (d_take d2 objs props reorder).
Proof.
  intros H. pose proof H as [Ho [Hp Hq]]. unfold d_take.
  assert (B1 : match objs with Some (x :: r) => negb (forallb (u_contains (d_objs d1)) (x :: r)) | _ => false end =
               match objs with Some (x :: r) => negb (forallb (u_contains (d_objs d2)) (x :: r)) | _ => false end).
  { destruct objs as [[|x r]|]; auto. f_equal. apply forallb_ext'. intros y _. apply ueq_contains; auto. }
  assert (B2 : match props with Some (x :: r) => negb (forallb (u_contains (d_props d1)) (x :: r)) | _ => false end =
               match props with Some (x :: r) => negb (forallb (u_contains (d_props d2)) (x :: r)) | _ => false end).
  { destruct props as [[|x r]|]; auto. f_equal. apply forallb_ext'. intros y _. apply ueq_contains; auto. }
  rewrite B1, B2. match goal with |- context [if ?b then Raise KeyError else _] => destruct b end; cbn [rres]; auto.
  pose proof (ueq_take _ _ objs reorder Ho) as T1. pose proof (ueq_take _ _ props reorder Hp) as T2.
  unfold take_u in T1, T2.
  split; [exact T1|]. split; [exact T2|]. cbn [d_pairs d_objs d_props].
  destruct T1 as [-> _]. destruct T2 as [-> _].
  erewrite flat_map_ext'; [apply Permutation_refl|]. intros o. apply flat_map_ext'. intros p.
  rewrite (memp_perm _ _ _ Hq). reflexivity.
Qed.

Lemma deq_rebuild d1 d2 :
  deq d1 d2 ->
  rres deq (d_init (objects_of d1) (properties_of d1) (bools_of d1)) (d_init (objects_of d2) (properties_of d2) (bools_of d2)).
Proof.
  intros H. rewrite (deq_objects _ _ H), (deq_properties _ _ H), (deq_bools _ _ H).
  destruct (d_init _ _ _); cbn; auto using deq_refl.
Qed.

(** * one operation *)
Definition orel (o1 o2 : option defn) : Prop :=
  match o1, o2 with
  | Some e1, Some e2 => deq e1 e2
  | None, None => True
  | _, _ => False
  end.

Theorem dstep1_order d1 d2 o o1 o2 :
  deq d1 d2 -> orel o1 o2 -> rel_res (dstep1 d1 o o1) (dstep1 d2 o o2).
Proof.
  intros H HO. destruct o; cbn [dstep1].
  - apply rel_ok, deq_setitem; auto.
  - cbn; auto.
  - apply rel_lift, deq_rename_object; auto.
  - apply rel_lift, deq_rename_property; auto.
  - apply rel_lift, deq_move_object; auto.
  - apply rel_lift, deq_move_property; auto.
  - apply rel_ok, deq_add_object; auto.
  - apply rel_ok, deq_add_property; auto.
  - apply rel_lift, deq_remove_object; auto.
  - apply rel_lift, deq_remove_property; auto.
  - apply deq_remove_empty_objects; auto.
  - apply deq_remove_empty_properties; auto.
  - apply rel_ok, deq_set_object; auto.
  - apply rel_ok, deq_set_property; auto.
  - destruct o1 as [e1|], o2 as [e2|]; cbn in HO; try contradiction; [|cbn; auto]. apply rel_lift, deq_union_update; auto.
  - destruct o1 as [e1|], o2 as [e2|]; cbn in HO; try contradiction; [|cbn; auto]. apply rel_lift, deq_intersection_update; auto.
  - apply rel_ok. exact H.
  - apply rel_ok, deq_transposed; auto.
  - apply rel_ok, deq_inverted; auto.
  - destruct o1 as [e1|], o2 as [e2|]; cbn in HO; try contradiction; [|cbn; auto]. apply rel_lift, deq_union_update; auto.
  - destruct o1 as [e1|], o2 as [e2|]; cbn in HO; try contradiction; [|cbn; auto]. apply rel_lift, deq_intersection_update; auto.
  - apply rel_lift, deq_take; auto.
  - apply rel_lift, deq_rebuild; auto.
  - destruct (d_init objs props bools); cbn; auto using deq_refl.
Qed.

(** * the machine *)
Lemma Forall2_nth_error s1 s2 h :
  Forall2 deq s1 s2 ->
  match nth_error s1 h, nth_error s2 h with
  | Some d1, Some d2 => deq d1 d2
  | None, None => True
  | _, _ => False
  end.
Proof.
  intros H. revert h; induction H as [|x y l l' Hxy Hl IH]; intros [|h]; cbn; auto. apply IH.
Qed.

Lemma Forall2_put s1 s2 h d1 d2 : Forall2 deq s1 s2 -> deq d1 d2 -> Forall2 deq (put s1 h d1) (put s2 h d2).
Proof.
  intros H Hd. revert h; induction H as [|x y l l' Hxy Hl IH]; intros [|h]; cbn; auto.
Qed.

Lemma Forall2_len {A B} (R : A -> B -> Prop) l l' : Forall2 R l l' -> length l = length l'.
Proof. induction 1; cbn; auto. Qed.

Theorem step_order_independent s1 s2 o :
  Forall2 deq s1 s2 ->
  match step s1 o, step s2 o with
  | Ok (s1', r1), Ok (s2', r2) => r1 = r2 /\ Forall2 deq s1' s2'
  | Raise e1, Raise e2 => e1 = e2
  | _, _ => False
  end.
Proof.
  intros HS. rewrite !step_dstep1.
  assert (HL : length s1 = length s2) by (eapply Forall2_len; eauto).
  assert (HO : orel (other_of s1 o) (other_of s2 o)).
  { unfold other_of. destruct (op_other o) as [k|]; cbn; auto. apply Forall2_nth_error; auto. }
  assert (FIN : forall h d1 d2 o1 o2, deq d1 d2 -> orel o1 o2 ->
            match finish s1 o h (dstep1 d1 o o1), finish s2 o h (dstep1 d2 o o2) with
            | Ok (s1', r1), Ok (s2', r2) => r1 = r2 /\ Forall2 deq s1' s2'
            | Raise e1, Raise e2 => e1 = e2
            | _, _ => False
            end).
  { intros h d1 d2 o1 o2 Hd Ho. pose proof (dstep1_order d1 d2 o o1 o2 Hd Ho) as R. unfold rel_res, rres in R.
    unfold finish. destruct (dstep1 d1 o o1) as [[d1' r1]|e1]; destruct (dstep1 d2 o o2) as [[d2' r2]|e2];
      try contradiction; cbn [bind]; auto.
    cbn [fst snd] in R. destruct R as [R1 ->]. destruct (is_derive o).
    - rewrite HL. split; auto. apply Forall2_app; auto.
    - split; auto. apply Forall2_put; auto. }
  destruct (op_handle o) as [h|].
  - unfold get. pose proof (Forall2_nth_error s1 s2 h HS) as N.
    destruct (nth_error s1 h) as [d1|]; destruct (nth_error s2 h) as [d2|]; try contradiction; cbn [bind]; auto.
    apply FIN; auto.
  - apply FIN; auto using deq_refl. cbn; auto.
Qed.

(** along whole histories: same sequence of results, related (hence observation-equal) stores *)
Lemma step_total_order s1 s2 o :
  Forall2 deq s1 s2 ->
  Forall2 deq (fst (step_total s1 o)) (fst (step_total s2 o)) /\ snd (step_total s1 o) = snd (step_total s2 o).
Proof.
  intros HS. pose proof (step_order_independent s1 s2 o HS) as R. unfold step_total.
  destruct (step s1 o) as [[s1' r1]|e1]; destruct (step s2 o) as [[s2' r2]|e2]; try contradiction; cbn [fst snd].
  - destruct R as [-> R]. auto.
  - subst. auto.
Qed.

Theorem history_order ops s1 s2 :
  Forall2 deq s1 s2 ->
  Forall2 deq (fold_left (fun s o => fst (step_total s o)) ops s1) (fold_left (fun s o => fst (step_total s o)) ops s2).
Proof.
  revert s1 s2; induction ops as [|o ops IH]; intros s1 s2 HS; cbn [fold_left]; auto.
  apply IH. apply step_total_order; auto.
Qed.

Lemma Forall2_deq_obs s1 s2 : Forall2 deq s1 s2 -> map obs_defn s1 = map obs_defn s2.
Proof. induction 1; cbn; auto. f_equal; auto using deq_obs. Qed.

(** whole runs: the same list of results (return values / exceptions), related final stores *)
Fixpoint run (ops : list op) (s : store) : store * list (res ret) :=
  match ops with
  | [] => (s, [])
  | o :: r => let sr := run r (fst (step_total s o)) in (fst sr, snd (step_total s o) :: snd sr)
  end.

Theorem run_order ops s1 s2 :
  Forall2 deq s1 s2 ->
  snd (run ops s1) = snd (run ops s2) /\ Forall2 deq (fst (run ops s1)) (fst (run ops s2)) /\
  map obs_defn (fst (run ops s1)) = map obs_defn (fst (run ops s2)).
Proof.
  revert s1 s2; induction ops as [|o ops IH]; intros s1 s2 HS; cbn [run fst snd].
  - repeat split; auto. apply Forall2_deq_obs; auto.
  - destruct (step_total_order s1 s2 o HS) as [H1 H2]. destruct (IH _ _ H1) as [I1 [I2 I3]].
    rewrite H2, I1. auto.
Qed.
