(** Syntactic tie: the kernels regenerated from /repo's current source are the model. *)
From Concepts Require Import Base.Res gen.GenLindig Model.Lindig.
Lemma tie_neighbors : GenLindig.neighbors = Lindig.neighbors. Proof. reflexivity. Qed.
