(** Syntactic tie: the docstring tables regenerated from /repo's current source are the model's. *)
From Concepts Require Import gen.GenJunctors Model.JunctorsTables.
Lemma tie_unary_table : GenJunctors.unary_table = JunctorsTables.unary_table. Proof. reflexivity. Qed.
Lemma tie_binary_table : GenJunctors.binary_table = JunctorsTables.binary_table. Proof. reflexivity. Qed.
