(** Syntactic tie: the kernels regenerated from /repo's current source are the model. *)
From Concepts Require Import Base.Res gen.GenMembers Model.Members.
Lemma tie_implies : GenMembers.implies = Members.implies. Proof. reflexivity. Qed.
Lemma tie_subsumes : GenMembers.subsumes = Members.subsumes. Proof. reflexivity. Qed.
Lemma tie_properly_implies : GenMembers.properly_implies = Members.properly_implies. Proof. reflexivity. Qed.
Lemma tie_properly_subsumes : GenMembers.properly_subsumes = Members.properly_subsumes. Proof. reflexivity. Qed.
Lemma tie_incompatible_with : GenMembers.incompatible_with = Members.incompatible_with. Proof. reflexivity. Qed.
Lemma tie_complement_of : GenMembers.complement_of = Members.complement_of. Proof. reflexivity. Qed.
Lemma tie_subcontrary_with : GenMembers.subcontrary_with = Members.subcontrary_with. Proof. reflexivity. Qed.
Lemma tie_orthogonal_to : GenMembers.orthogonal_to = Members.orthogonal_to. Proof. reflexivity. Qed.
Lemma tie_join : GenMembers.join = Members.join. Proof. reflexivity. Qed.
Lemma tie_meet : GenMembers.meet = Members.meet. Proof. reflexivity. Qed.
