(** Syntactic tie: iterunion regenerated from /repo's current source is the model. *)
From Concepts Require Import Base.Res gen.GenCommon Model.Common.
Lemma tie_iterunion : GenCommon.iterunion = Common.iterunion. Proof. reflexivity. Qed.
