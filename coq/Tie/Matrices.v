(** Syntactic tie: the kernels regenerated from /repo's current source are the model. *)
From Concepts Require Import Base.Res gen.GenMatrices Model.Matrices.
Lemma tie_prime : GenMatrices.prime = Matrices.prime. Proof. reflexivity. Qed.
Lemma tie_double : GenMatrices.double = Matrices.double. Proof. reflexivity. Qed.
Lemma tie_doubleprime : GenMatrices.doubleprime = Matrices.doubleprime. Proof. reflexivity. Qed.
