#!/bin/bash
# usage: try_mutant.sh <patch.diff> <prop> [prop...]  -- applies the patch to /repo, runs checks, reverts
patch=$1; shift
cd /repo || exit 2
git diff --quiet || { echo "repo dirty"; exit 2; }
git apply "$patch" || { echo "patch does not apply"; exit 2; }
for p in "$@"; do
  out=$(cd /verif && bin/check $p quick 2>&1 | grep -E "^(OK|VIOLATION|KNOWN|INFRA)" | head -3 | tr '\n' ' ')
  echo "$patch $p :: $out"
done
git -C /repo checkout -- .
