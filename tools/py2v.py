#!/usr/bin/env python3
"""Fail-closed translator from a small subset of Python (the bit-twiddling kernels of
xflr6/concepts) to Gallina.  Anything outside the accepted subset raises Unsupported,
which the harness treats as a broken tie for the kernel concerned.

Usage: py2v.py <repo> <outdir>   (writes <outdir>/Gen*.v; a kernel that cannot be
translated is emitted as a file containing only a comment plus `Definition
translation_failed_<kernel> := tt.` so that the Tie file depending on it fails to compile).
"""
import ast
import sys
import os
import re


class Unsupported(Exception):
    pass


BINOPS = {ast.BitAnd: 'Z.land', ast.BitOr: 'Z.lor', ast.BitXor: 'Z.lxor',
          ast.LShift: 'Z.shiftl', ast.RShift: 'Z.shiftr',
          ast.Add: 'Z.add', ast.Sub: 'Z.sub'}

CMPOPS = {ast.Eq: lambda a, b: f'({a} =? {b})',
          ast.NotEq: lambda a, b: f'(negb ({a} =? {b}))',
          ast.Lt: lambda a, b: f'({a} <? {b})',
          ast.LtE: lambda a, b: f'({a} <=? {b})',
          ast.Gt: lambda a, b: f'({b} <? {a})',
          ast.GtE: lambda a, b: f'({b} <=? {a})'}


class Kernel:
    """Specification of one kernel to translate.

    params: ordered [(coq_name, coq_type)] of the generated definition (after `fuel`).
    attrs: {python attribute chain or free name: coq parameter name} (values of type Z
           unless listed in seqs).
    seqs: names (python side) that are sequences of ints (subscripted with []).
    calls: {python call chain: (coq function, 'pure'|'res')}.
    ident_calls: python callables that are the identity on their int argument.
    """

    def __init__(self, coqname, file, qualname, params, ret, attrs=None, seqs=(),
                 calls=None, ident_calls=(), alias=None, retmode='value', uses_fuel=True, pyparams=None):
        self.coqname = coqname
        self.file = file
        self.qualname = qualname
        self.params = params
        self.ret = ret
        self.attrs = attrs or {}
        self.seqs = set(seqs)
        self.calls = calls or {}
        self.ident_calls = set(ident_calls)
        self.alias = alias or {}
        self.retmode = retmode    # 'value' | 'truth' (truthiness of the result is specified)
        self.uses_fuel = uses_fuel
        self.pyparams = pyparams  # coq names of the positional python parameters (closures), or None: by name


def find_function(tree, qualname):
    parts = qualname.split('.')
    node = tree
    enclosing = []
    for part in parts:
        if isinstance(node, ast.FunctionDef):
            enclosing.append(node)
        found = None
        for child in ast.walk(node) if False else ast.iter_child_nodes(node):
            if isinstance(child, (ast.FunctionDef, ast.ClassDef)) and child.name == part:
                found = child
                break
        if found is None:
            # nested def inside a function body (closures) may be deeper in statements
            for child in ast.walk(node):
                if child is not node and isinstance(child, (ast.FunctionDef, ast.ClassDef)) \
                        and child.name == part:
                    found = child
                    break
        if found is None:
            raise Unsupported(f'function {qualname!r} not found (at {part!r})')
        node = found
    if not isinstance(node, ast.FunctionDef):
        raise Unsupported(f'{qualname!r} is not a function')
    return node, enclosing


def enclosing_aliases(enclosing):
    """name -> dotted chain for the simple bindings `name = a.b.c` of the enclosing functions (closure
    variables are resolved through them, so the translation does not depend on how they are called and
    does depend on what they are bound to).  A name bound more than once is not resolvable."""
    alias, count = {}, {}
    for f in enclosing:
        for st in ast.walk(f):
            targets = []
            if isinstance(st, ast.Assign):
                targets = st.targets
            elif isinstance(st, (ast.AugAssign, ast.AnnAssign)):
                targets = [st.target]
            for t in targets:
                for n in ast.walk(t):
                    if isinstance(n, ast.Name):
                        count[n.id] = count.get(n.id, 0) + 1
        for st in f.body:
            if isinstance(st, ast.Assign) and len(st.targets) == 1 and isinstance(st.targets[0], ast.Name):
                ch = chain_of(st.value)
                if ch is not None:
                    head, _, rest = ch.partition('.')
                    if head in alias:
                        ch = alias[head] + ('.' + rest if rest else '')
                    alias[st.targets[0].id] = ch
    return {n: ch for n, ch in alias.items() if count.get(n, 0) == 1}


def chain_of(node):
    """Dotted name of a Name/Attribute chain, or None."""
    if isinstance(node, ast.Name):
        return node.id
    if isinstance(node, ast.Attribute):
        base = chain_of(node.value)
        return None if base is None else f'{base}.{node.attr}'
    return None


class Translator:
    def __init__(self, kernel, func, enclosing=()):
        self.k = kernel
        self.func = func
        self.enclosing_alias = enclosing_aliases(enclosing)
        # positional parameters of a closure are mapped by position (kernel.pyparams), not by name
        self.param_alias = {}
        if kernel.pyparams is not None:
            args = [a.arg for a in func.args.args]
            if len(args) != len(kernel.pyparams) or func.args.vararg or func.args.kwarg or func.args.kwonlyargs:
                raise Unsupported(f'signature of {kernel.qualname} changed')
            self.param_alias = dict(zip(args, kernel.pyparams))
        self.tmp = 0
        self.defined = set()      # python locals currently defined (in scope)
        self.local_alias = dict(kernel.alias)  # python local -> python chain (resolved aliases)
        self.heap_alias = {}      # python local -> ('heappush'|'heappop', heap variable)

    def fresh(self):
        self.tmp += 1
        return f't{self.tmp}'

    def resolve(self, ch):
        """python name / attribute chain -> the chain the kernel interface is keyed on"""
        ch = self.local_alias.get(ch, ch)
        head, _, rest = ch.partition('.')
        if rest and head in self.local_alias and head not in self.defined:
            ch = self.local_alias[head] + '.' + rest
            head, _, rest = ch.partition('.')
        if head not in self.defined:
            if head in self.param_alias:
                ch = self.param_alias[head] + ('.' + rest if rest else '')
            elif head in self.enclosing_alias:
                ch = self.enclosing_alias[head] + ('.' + rest if rest else '')
        return ch

    # ---------------- expressions -----------------
    # returns (binds, text, typ) where binds is a list of (name, res-expression text)
    def expr(self, e):
        if isinstance(e, ast.Constant):
            if e.value is True:
                return [], 'true', 'bool'
            if e.value is False:
                return [], 'false', 'bool'
            if isinstance(e.value, int):
                return [], (f'{e.value}' if e.value >= 0 else f'({e.value})'), 'Z'
            raise Unsupported(f'constant {e.value!r}')
        if isinstance(e, (ast.Name, ast.Attribute)):
            ch = chain_of(e)
            if ch is None:
                raise Unsupported('attribute of a non-name')
            if isinstance(e, ast.Name) and ch in self.defined:
                return [], ch, 'Z'
            ch = self.resolve(ch)
            if ch in self.k.attrs:
                return [], self.k.attrs[ch], 'Z'
            raise Unsupported(f'free name/attribute {ch!r} not in the kernel interface')
        if isinstance(e, ast.BinOp):
            if type(e.op) not in BINOPS:
                raise Unsupported(f'operator {type(e.op).__name__}')
            b1, t1, ty1 = self.expr(e.left)
            b2, t2, ty2 = self.expr(e.right)
            if ty1 != 'Z' or ty2 != 'Z':
                raise Unsupported('binary operator on non-int')
            return b1 + b2, f'({BINOPS[type(e.op)]} {t1} {t2})', 'Z'
        if isinstance(e, ast.UnaryOp):
            b, t, ty = self.expr(e.operand)
            if isinstance(e.op, ast.Invert):
                if ty != 'Z':
                    raise Unsupported('~ on non-int')
                return b, f'(Z.lnot {t})', 'Z'
            if isinstance(e.op, ast.USub):
                if ty != 'Z':
                    raise Unsupported('- on non-int')
                return b, f'(- {t})', 'Z'
            if isinstance(e.op, ast.Not):
                return b, f'(negb {self.as_bool(t, ty)})', 'bool'
            raise Unsupported(f'unary {type(e.op).__name__}')
        if isinstance(e, ast.Compare):
            binds, left, ty = self.expr(e.left)
            parts = []
            for op, comp in zip(e.ops, e.comparators):
                if type(op) not in CMPOPS:
                    raise Unsupported(f'comparison {type(op).__name__}')
                b, right, ty2 = self.expr(comp)
                if b:
                    # evaluating a raising comparator lazily is not supported
                    raise Unsupported('raising expression inside a comparison chain')
                if ty != 'Z' or ty2 != 'Z':
                    raise Unsupported('comparison of non-ints')
                parts.append(CMPOPS[type(op)](left, right))
                left, ty = right, ty2
            text = parts[0] if len(parts) == 1 else '(' + ' && '.join(parts) + ')'
            return binds, text, 'bool'
        if isinstance(e, ast.BoolOp):
            vals = [self.expr(v) for v in e.values]
            for b, _, _ in vals[1:]:
                if b:
                    raise Unsupported('raising expression in short-circuit position')
            op = ' && ' if isinstance(e.op, ast.And) else ' || '
            if all(ty == 'bool' for _, _, ty in vals):
                return vals[0][0], '(' + op.join(t for _, t, _ in vals) + ')', 'bool'
            # mixed int/bool operands: only the truthiness of the result is translated
            text = '(' + op.join(self.as_bool(t, ty) for _, t, ty in vals) + ')'
            return vals[0][0], text, 'truth'
        if isinstance(e, ast.Subscript):
            ch = chain_of(e.value)
            ch = self.resolve(ch)
            if ch is None or ch not in self.k.seqs:
                # mapping lookups are declared as calls on the chain + '[]'
                key = f'{ch}[]'
                if ch is not None and key in self.k.calls:
                    fn, mode = self.k.calls[key]
                    b, t, ty = self.expr(e.slice)
                    return self.call_out(b, fn, mode, [t])
                raise Unsupported(f'subscript of {ch!r}')
            b, t, ty = self.expr(e.slice)
            if ty != 'Z':
                raise Unsupported('non-int index')
            name = self.fresh()
            seq = self.k.attrs[ch]
            return b + [(name, f'py_getitem {seq} {t}')], name, 'Z'
        if isinstance(e, ast.Call):
            if e.keywords:
                raise Unsupported('keyword arguments')
            if isinstance(e.func, ast.Attribute) and e.func.attr == 'bit_length' and not e.args:
                b, t, ty = self.expr(e.func.value)
                if ty != 'Z':
                    raise Unsupported('bit_length of non-int')
                return b, f'(bit_length {t})', 'Z'
            ch = chain_of(e.func)
            ch = self.resolve(ch)
            if ch in self.k.ident_calls and len(e.args) == 1:
                return self.expr(e.args[0])
            if ch in self.k.calls:
                fn, mode = self.k.calls[ch]
                binds, args = [], []
                for a in e.args:
                    b, t, ty = self.expr(a)
                    binds += b
                    args.append(t)
                return self.call_out(binds, fn, mode, args)
            raise Unsupported(f'call of {ch!r}')
        if isinstance(e, ast.Tuple):
            binds, ts = [], []
            for x in e.elts:
                b, t, ty = self.expr(x)
                binds += b
                ts.append(t)
            return binds, '(' + ', '.join(ts) + ')', 'tuple'
        raise Unsupported(f'expression {type(e).__name__}')

    def call_out(self, binds, fn, mode, args):
        text = f'({fn} ' + ' '.join(args) + ')' if args else fn
        if mode == 'pure':
            return binds, text, 'Z'
        if mode == 'pure_pair':
            return binds, text, 'tuple'
        name = self.fresh()
        return binds + [(name, text)], name, {'res_pair': 'tuple', 'res_nat': 'nat'}.get(mode, 'Z')

    @staticmethod
    def as_bool(t, ty):
        if ty in ('bool', 'truth'):
            return t
        if ty == 'Z':
            return f'(truthy {t})'
        raise Unsupported('truthiness of a tuple')

    def cond(self, e):
        if isinstance(e, ast.Name) and e.id in self.k.seqs and e.id in self.defined:
            return f'(nonempty {e.id})'
        b, t, ty = self.expr(e)
        if b:
            raise Unsupported('raising expression in a condition')
        return self.as_bool(t, ty)

    @staticmethod
    def wrap(binds, body):
        for name, text in reversed(binds):
            body = f'do {name} <- {text} ;;\n{body}'
        return body

    # ---------------- statements -----------------
    def assigned(self, stmts):
        out = []

        def add(n):
            if n not in out:
                out.append(n)
        for s in stmts:
            if isinstance(s, ast.Assign):
                for t in s.targets:
                    for n in self.target_names(t):
                        add(n)
                h = self.heap_call(s.value)
                if h:
                    add(h[1])
            elif isinstance(s, ast.Expr) and self.heap_call(s.value):
                add(self.heap_call(s.value)[1])
            elif isinstance(s, ast.AugAssign):
                for n in self.target_names(s.target):
                    add(n)
            elif isinstance(s, ast.If):
                for n in self.assigned(s.body) + self.assigned(s.orelse):
                    add(n)
            elif isinstance(s, (ast.While, ast.For)):
                local = self.target_names(s.target) if isinstance(s, ast.For) else []
                for n in self.assigned(s.body):
                    if n not in local:
                        add(n)
        return out

    def heap_call(self, e):
        """('heappush'|'heappop'|'heapify', heap variable, args) when e is a heap effect, else None"""
        if not isinstance(e, ast.Call) or e.keywords:
            return None
        ch = chain_of(e.func)
        if ch in self.heap_alias:
            kind, hv = self.heap_alias[ch]
            return kind, hv, e.args
        if ch == 'heapq.heapify' and len(e.args) == 1 and isinstance(e.args[0], ast.Name):
            return 'heapify', e.args[0].id, []
        return None

    @staticmethod
    def partial_heap_alias(e):
        """functools.partial(heapq.heappush, heap) -> ('heappush', 'heap')"""
        if isinstance(e, ast.Call) and chain_of(e.func) == 'functools.partial' and len(e.args) == 2 and not e.keywords:
            f = chain_of(e.args[0])
            if f in ('heapq.heappush', 'heapq.heappop') and isinstance(e.args[1], ast.Name):
                return f.split('.')[1], e.args[1].id
        return None

    @staticmethod
    def target_names(t):
        if isinstance(t, ast.Name):
            return [t.id]
        if isinstance(t, ast.Tuple):
            out = []
            for x in t.elts:
                if not isinstance(x, ast.Name):
                    raise Unsupported('nested assignment target')
                out.append(x.id)
            return out
        raise Unsupported(f'assignment target {type(t).__name__}')

    @staticmethod
    def pat(names):
        if len(names) == 1:
            return names[0]
        return "'(" + ', '.join(names) + ')'

    @staticmethod
    def tup(names):
        if len(names) == 1:
            return names[0]
        return '(' + ', '.join(names) + ')'

    def block(self, stmts, k_text, yields):
        """Translate stmts followed by the continuation text k_text (a res-expression).
        `yields` is the name of the output accumulator when inside a generator, else None."""
        if not stmts:
            return k_text
        s, rest = stmts[0], stmts[1:]
        if isinstance(s, ast.Expr) and isinstance(s.value, ast.Constant) and isinstance(s.value.value, str):
            return self.block(rest, k_text, yields)   # docstring
        if isinstance(s, ast.Assign):
            if len(s.targets) != 1:
                raise Unsupported('chained assignment')
            names = self.target_names(s.targets[0])
            pa = self.partial_heap_alias(s.value)
            if pa and len(names) == 1:
                if pa[1] not in self.defined:
                    raise Unsupported('heap alias on an undefined list')
                self.heap_alias[names[0]] = pa
                return self.block(rest, k_text, yields)
            hc = self.heap_call(s.value)
            if hc and hc[0] == 'heappop' and not hc[2]:
                hv = hc[1]
                tmp = self.fresh()
                saved = set(self.defined)
                self.defined |= set(names)
                body = self.block(rest, k_text, yields)
                self.defined = saved | set(names)
                pat = names[0] if len(names) == 1 else "'(" + ', '.join(names) + ')'
                return f"do '({tmp}, {hv}) <- heappop {hv} ;;\nlet {pat} := {tmp} in\n{body}"
            if isinstance(s.value, ast.ListComp) and len(names) == 1:
                lc = s.value
                if len(lc.generators) != 1 or lc.generators[0].ifs or lc.generators[0].is_async \
                        or not isinstance(lc.generators[0].target, ast.Name) or not isinstance(lc.generators[0].iter, ast.Name):
                    raise Unsupported('list comprehension shape')
                var = lc.generators[0].target.id
                src = lc.generators[0].iter.id
                if src not in self.defined:
                    raise Unsupported(f'comprehension over undefined {src!r}')
                saved = set(self.defined)
                self.defined.add(var)
                b, t, ty = self.expr(lc.elt)
                self.defined = saved
                if b:
                    raise Unsupported('raising expression in a comprehension')
                self.defined.add(names[0])
                body = self.block(rest, k_text, yields)
                return f'let {names[0]} := map (fun {var} => {t}) {src} in\n{body}'
            # alias binding `doubleprime = Objects.doubleprime` etc.
            if len(names) == 1:
                ch = chain_of(s.value) if isinstance(s.value, (ast.Name, ast.Attribute)) else None
                if ch is not None:
                    ch = self.resolve(ch)
                    keys = list(self.k.calls) + list(self.k.ident_calls) + list(self.k.attrs)
                    on_path = ch not in self.k.attrs and any(k.startswith(ch + '.') or k.startswith('for:' + ch + '.') for k in keys)
                    if ch in self.k.calls or ch in self.k.ident_calls or on_path:
                        # a local name for a callable or for an object on the way to one (`lattice = self.lattice`)
                        if names[0] in self.local_alias or names[0] in self.defined:
                            raise Unsupported(f'alias {names[0]!r} rebound')
                        self.local_alias[names[0]] = ch
                        return self.block(rest, k_text, yields)
            b, t, ty = self.expr(s.value)
            saved = set(self.defined)
            self.defined |= set(names)
            body = self.block(rest, k_text, yields)
            self.defined = saved | set(names)
            if len(names) == 1:
                if ty == 'tuple':
                    raise Unsupported('tuple bound to a single name')
                return self.wrap(b, f'let {names[0]} := {t} in\n{body}')
            if ty != 'tuple':
                raise Unsupported('unpacking a non-tuple')
            return self.wrap(b, f"let '({', '.join(names)}) := {t} in\n{body}")
        if isinstance(s, ast.AugAssign):
            if not isinstance(s.target, ast.Name):
                raise Unsupported('augmented assignment target')
            n = s.target.id
            if n not in self.defined:
                raise Unsupported(f'augmented assignment to undefined {n!r}')
            if type(s.op) not in BINOPS:
                raise Unsupported(f'operator {type(s.op).__name__}')
            b, t, ty = self.expr(s.value)
            if ty != 'Z':
                raise Unsupported('augmented assignment with non-int')
            body = self.block(rest, k_text, yields)
            return self.wrap(b, f'let {n} := ({BINOPS[type(s.op)]} {n} {t}) in\n{body}')
        if isinstance(s, ast.If):
            c = self.cond(s.test)
            vs = [n for n in self.assigned(s.body) + self.assigned(s.orelse)]
            vs = list(dict.fromkeys(vs))
            undefined = [n for n in vs if n not in self.defined]
            if undefined:
                raise Unsupported(f'names first assigned inside an if: {undefined}')
            if yields:
                vs = vs + [yields] if yields not in vs else vs
            saved = set(self.defined)
            out = f'Ok {self.tup(vs)}' if vs else 'Ok tt'
            a = self.block(s.body, out, yields)
            self.defined = set(saved)
            bb = self.block(s.orelse, out, yields)
            self.defined = set(saved)
            body = self.block(rest, k_text, yields)
            pat = self.pat(vs) if vs else '_'
            return f'do {pat} <- (if {c} then\n{a}\nelse\n{bb}) ;;\n{body}'
        if isinstance(s, ast.While):
            if s.orelse:
                raise Unsupported('while/else')
            c = self.cond(s.test)
            vs = [n for n in self.assigned(s.body) if n in self.defined]
            if yields and yields not in vs:
                vs = vs + [yields]
            saved = set(self.defined)
            inner = self.block(s.body, f'Ok {self.tup(vs)}', yields)
            self.defined = set(saved)
            body = self.block(rest, k_text, yields)
            pat = self.pat(vs)
            return (f'do {pat} <- while_fuel fuel\n(fun {pat} => {c})\n(fun {pat} =>\n{inner})\n'
                    f'{self.tup(vs)} ;;\n{body}')
        if isinstance(s, ast.For):
            if s.orelse:
                raise Unsupported('for/else')
            names = self.target_names(s.target)
            it = s.iter
            if not isinstance(it, ast.Call):
                raise Unsupported('for over a non-call iterable')
            ch = chain_of(it.func)
            ch = self.resolve(ch)
            key = f'for:{ch}'
            if key not in self.k.calls:
                raise Unsupported(f'for over {ch!r}')
            fn, mode = self.k.calls[key]
            binds, args = [], []
            for a in it.args:
                b, t, ty = self.expr(a)
                binds += b
                args.append(t)
            seq = f'({fn} ' + ' '.join(args) + ')'
            vs = [n for n in self.assigned(s.body) if n in self.defined and n not in names]
            if yields and yields not in vs:
                vs = vs + [yields]
            saved = set(self.defined)
            self.defined |= set(names)
            inner = self.block(s.body, f'Ok {self.tup(vs)}', yields)
            self.defined = set(saved)
            body = self.block(rest, k_text, yields)
            pat = self.pat(vs)
            xpat = self.pat(names)
            return self.wrap(binds, f'do {pat} <- for_fold\n(fun {pat} {xpat} =>\n{inner})\n{seq} {self.tup(vs)} ;;\n{body}')
        if isinstance(s, ast.Expr) and self.heap_call(s.value):
            kind, hv, args = self.heap_call(s.value)
            if hv not in self.defined:
                raise Unsupported('heap operation on an undefined list')
            body_rest = None
            if kind == 'heapify':
                body_rest = self.block(rest, k_text, yields)
                return f'let {hv} := heapify {hv} in\n{body_rest}'
            if kind == 'heappush' and len(args) == 1:
                b, t, ty = self.expr(args[0])
                body_rest = self.block(rest, k_text, yields)
                return self.wrap(b, f'let {hv} := heappush {hv} {t} in\n{body_rest}')
            raise Unsupported(f'heap call {kind}')
        if isinstance(s, ast.Expr) and isinstance(s.value, ast.Yield):
            if not yields:
                raise Unsupported('yield outside a generator kernel')
            b, t, ty = self.expr(s.value.value)
            body = self.block(rest, k_text, yields)
            return self.wrap(b, f'let {yields} := {yields} ++ [{t}] in\n{body}')
        if isinstance(s, ast.Return):
            if rest:
                raise Unsupported('statements after return')
            if s.value is None:
                raise Unsupported('bare return')
            b, t, ty = self.expr(s.value)
            if self.k.retmode == 'truth':
                t = self.as_bool(t, ty)
            elif ty == 'truth':
                raise Unsupported('truthiness-only value returned from a value kernel')
            return self.wrap(b, f'Ok {t}')
        raise Unsupported(f'statement {type(s).__name__}')

    def translate(self):
        f = self.func
        a = f.args
        if a.vararg or a.kwarg or a.defaults or a.kw_defaults and any(d is not None for d in a.kw_defaults):
            raise Unsupported('unsupported parameter kinds')
        pyparams = [x.arg for x in a.posonlyargs + a.args + a.kwonlyargs]
        for p in pyparams:
            if p in self.k.attrs and self.k.attrs[p] == p:
                self.defined.add(p)
        is_gen = any(isinstance(n, ast.Yield) for n in ast.walk(f))
        yields = 'out' if is_gen else None
        end = 'Ok out' if is_gen else None
        body_stmts = list(f.body)
        if not is_gen:
            if not body_stmts or not isinstance(body_stmts[-1], ast.Return):
                raise Unsupported('function does not end in return')
            body = self.block(body_stmts, None, None)
        else:
            body = 'let out := [] in\n' + self.block(body_stmts, end, yields)
        params = ' '.join(f'({n} : {t})' for n, t in self.k.params)
        fuel = '(fuel : nat) ' if self.k.uses_fuel else ''
        return (f'Definition {self.k.coqname} {fuel}{params} : res ({self.k.ret}) :=\n{body}.\n')


def indent(text):
    out, depth = [], 0
    for line in text.split('\n'):
        out.append(line)
    return '\n'.join(out)


HEADER = '''(* GENERATED by tools/py2v.py from %s -- do not edit *)
From Coq Require Import ZArith List Bool.
From Concepts Require Import Base.Res Base.PyInt Base.Heap.
Import ListNotations.
Open Scope Z_scope.

'''

PAIR_ATTRS = {'self': 'self', 'other': 'other', 'other.BitSet.supremum': 'Prime', 'self.BitSet.supremum': 'Double',
              'bitset': 'bitset'}
PAIR_IDENT = ['other.BitSet.fromint', 'self.BitSet.fromint']

MEMBER_ATTRS = {'self._extent': 'self_extent', 'other._extent': 'other_extent',
                'self.lattice.supremum._extent': 'sup_extent'}

KERNELS = {
    'GenMatrices': [
        Kernel('prime', 'concepts/matrices.py', 'Vectors._pair_with.prime',
               [('other', 'list Z'), ('Prime', 'Z'), ('bitset', 'Z')], 'Z',
               attrs={'other': 'other', 'other.BitSet.supremum': 'Prime', 'bitset': 'bitset'}, seqs=['other'],
               ident_calls=PAIR_IDENT, pyparams=['bitset']),
        Kernel('double', 'concepts/matrices.py', 'Vectors._pair_with.double',
               [('self', 'list Z'), ('other', 'list Z'), ('Prime', 'Z'), ('Double', 'Z'), ('bitset', 'Z')], 'Z',
               attrs=PAIR_ATTRS, seqs=['other', 'self'],
               ident_calls=PAIR_IDENT, pyparams=['bitset']),
        Kernel('doubleprime', 'concepts/matrices.py', 'Vectors._pair_with.doubleprime',
               [('self', 'list Z'), ('other', 'list Z'), ('Prime', 'Z'), ('Double', 'Z'), ('bitset', 'Z')], 'Z * Z',
               attrs=PAIR_ATTRS, seqs=['other', 'self'],
               ident_calls=PAIR_IDENT, pyparams=['bitset']),
    ],
    'GenMembers': [
        Kernel(name, 'concepts/lattice_members.py', f'{cls}.{name}',
               [('self_extent', 'Z'), ('other_extent', 'Z'), ('sup_extent', 'Z')], 'bool',
               attrs=MEMBER_ATTRS, retmode='truth', uses_fuel=False)
        for cls, name in [('OrderableMixin', 'implies'), ('OrderableMixin', 'subsumes'),
                          ('OrderableMixin', 'properly_implies'), ('OrderableMixin', 'properly_subsumes'),
                          ('RelationsMixin', 'incompatible_with'), ('RelationsMixin', 'complement_of'),
                          ('RelationsMixin', 'subcontrary_with'), ('RelationsMixin', 'orthogonal_to')]
    ] + [
        Kernel(name, 'concepts/lattice_members.py', f'TransformableMixin.{name}',
               [('double_ext', 'Z -> res Z'), ('mapping_get', 'Z -> res nat'),
                ('self_extent', 'Z'), ('other_extent', 'Z')], 'nat',
               attrs=MEMBER_ATTRS,
               calls={'self.lattice._context._extents.double': ('double_ext', 'res'),
                      'self.lattice._mapping[]': ('mapping_get', 'res_nat')},
               uses_fuel=False)
        for name in ['join', 'meet']
    ],
    'GenCommon': [
        Kernel('iterunion', 'concepts/algorithms/common.py', 'iterunion',
               [('sortkey', 'nat -> Z'), ('next_concepts', 'nat -> list nat'), ('concepts', 'list nat')],
               'list nat',
               attrs={'concepts': 'concepts'}, seqs=['heap', 'concepts'],
               calls={'sortkey': ('sortkey', 'pure'), 'for:next_concepts': ('next_concepts', 'pure')}),
    ],
    'GenLindig': [
        Kernel('neighbors', 'concepts/algorithms/lindig.py', 'neighbors',
               [('doubleprime_ext', 'Z -> res (Z * Z)'), ('atomic', 'Z -> list Z'), ('objects', 'Z')],
               'list (Z * Z)',
               attrs={'objects': 'objects'},
               calls={'Objects.doubleprime': ('doubleprime_ext', 'res_pair'),
                      'for:Objects.atomic': ('atomic', 'pure')},
               uses_fuel=False),
    ],
}


def translate_kernel(repo, k):
    path = os.path.join(repo, k.file)
    with open(path, encoding='utf-8') as f:
        tree = ast.parse(f.read())
    func, enclosing = find_function(tree, k.qualname)
    tr = Translator(k, func, enclosing)
    return tr.translate()


def junctors_tables(repo):
    """Parse the docstring tables of junctors.Unary / junctors.Binary exactly as
    RelationMeta.__init__ does (strip / partition / splitlines / split) and emit them as Coq lists."""
    path = os.path.join(repo, 'concepts/junctors.py')
    with open(path, encoding='utf-8') as f:
        tree = ast.parse(f.read())
    out = []
    for clsname, binary in (('Unary', False), ('Binary', True)):
        cls = None
        for node in tree.body:
            if isinstance(node, ast.ClassDef) and node.name == clsname:
                cls = node
        if cls is None:
            raise Unsupported(f'class {clsname} not found')
        doc = ast.get_docstring(cls, clean=False)
        flag = None
        for st in cls.body:
            if isinstance(st, ast.Assign) and len(st.targets) == 1 and isinstance(st.targets[0], ast.Name) \
                    and st.targets[0].id == 'binary' and isinstance(st.value, ast.Constant):
                flag = st.value.value
        if flag is not binary:
            raise Unsupported(f'{clsname}.binary is not {binary}')
        table = doc.strip().partition('\n\n')[2].strip().splitlines()
        symbols = {'T': True, 'F': False}
        if binary:
            props = [tuple(symbols[f] for f in fg.strip()) for fg in table[0].strip('|').split('|')]
        else:
            props = [symbols[fg.strip()] for fg in table[0].strip('|').split('|')]
        rows = []
        for l in table[1:]:
            obj, _, flags = l.strip('|').partition('|')
            name, symbol, order = obj.split()
            marks = [bool(p.strip()) for p in flags.split('|')]
            pattern = [p for p, f in zip(props, marks) if f]
            rows.append((name, int(order), pattern))
        out.append((clsname, binary, rows))
    return out


def coq_bool(b):
    return 'true' if b else 'false'


def emit_junctors(repo):
    parts = [HEADER % 'concepts/junctors.py (class docstring tables)']
    for clsname, binary, rows in junctors_tables(repo):
        items = []
        for name, order, pattern in rows:
            kind = '[' + '; '.join(str(ord(ch)) for ch in name.lower()) + ']'
            if binary:
                pat = '[' + '; '.join(f'({coq_bool(a)}, {coq_bool(b)})' for a, b in pattern) + ']'
            else:
                pat = '[' + '; '.join(coq_bool(a) for a in pattern) + ']'
            o = f'{order}' if order >= 0 else f'({order})'
            items.append(f'  ({pat}, {kind}, {o})')
        ty = 'list (list (bool * bool) * list Z * Z)' if binary else 'list (list bool * list Z * Z)'
        parts.append(f'Definition {clsname.lower()}_table : {ty} :=\n[\n' + ';\n'.join(items) + '\n].\n')
    return '\n'.join(parts)


def write_if_changed(path, text):
    old = None
    if os.path.exists(path):
        with open(path, encoding='utf-8') as f:
            old = f.read()
    if old != text:
        with open(path, 'w', encoding='utf-8') as f:
            f.write(text)


def main():
    repo, outdir = sys.argv[1], sys.argv[2]
    os.makedirs(outdir, exist_ok=True)
    status = {}
    try:
        write_if_changed(os.path.join(outdir, 'GenJunctors.v'), emit_junctors(repo))
        status['GenJunctors.tables'] = 'ok'
    except (Unsupported, SyntaxError, OSError, ValueError, KeyError, AttributeError) as e:
        write_if_changed(os.path.join(outdir, 'GenJunctors.v'), f'(* translation of junctors tables FAILED: {e} *)\n')
        status['GenJunctors.tables'] = f'failed: {e}'
    for mod, kernels in KERNELS.items():
        parts = [HEADER % ', '.join(sorted({k.file for k in kernels}))]
        for k in kernels:
            try:
                parts.append(translate_kernel(repo, k))
                status[f'{mod}.{k.coqname}'] = 'ok'
            except (Unsupported, SyntaxError, OSError) as e:
                parts.append(f'(* translation of {k.qualname} FAILED: {e} *)\n')
                status[f'{mod}.{k.coqname}'] = f'failed: {e}'
        text = '\n'.join(parts)
        path = os.path.join(outdir, f'{mod}.v')
        old = None
        if os.path.exists(path):
            with open(path, encoding='utf-8') as f:
                old = f.read()
        if old != text:
            with open(path, 'w', encoding='utf-8') as f:
                f.write(text)
    import json
    print(json.dumps(status, indent=1, sort_keys=True))


if __name__ == '__main__':
    main()
