#!/bin/bash
# usage: confirm_mutant2.sh <prop> <mk> <newname> : round-2 mutants from /tmp/out5, scratch worktree /tmp/wt/<prop>r2
p=$1; m=$2; new=$3; wt=/tmp/wt/${p}r5; src=/tmp/out5/$p/$m
[ -f "$src/patch.diff" ] || { echo "$p $m: no patch"; exit 1; }
[ -d "$wt" ] || git -C /repo worktree add --detach "$wt" HEAD -q
cd "$wt" && git checkout -q -- . && git clean -fdq
clean_demo=$(PYTHONPATH=$wt timeout 600 /venv/bin/python $src/demo.py >/dev/null 2>&1; echo $?)
git apply $src/patch.diff || { echo "$p $m: patch does not apply"; exit 1; }
tests=$(PYTHONPATH=$wt /venv/bin/python -m pytest -q -p no:cacheprovider 2>&1 | grep -E "passed|failed" | tail -1)
mut_demo=$(PYTHONPATH=$wt timeout 600 /venv/bin/python $src/demo.py >/dev/null 2>&1; echo $?)
git checkout -q -- . && git clean -fdq
echo "$p $m -> $new: clean_demo_exit=$clean_demo mutant_demo_exit=$mut_demo tests='$tests'"
if [ "$clean_demo" = 0 ] && [ "$mut_demo" != 0 ] && echo "$tests" | grep -q "301 passed" && ! echo "$tests" | grep -q failed; then
  d=/verif/seeded/$p-$new; mkdir -p $d; cp $src/patch.diff $src/demo.py $d/; cp $src/notes.md $d/notes.md
  echo "{\"confirmed\": true, \"clean_demo_exit\": $clean_demo, \"mutant_demo_exit\": $mut_demo, \"tests\": \"$tests\"}" > $d/confirm.json
fi
