#!/usr/bin/env python3
"""Regenerate MANIFEST.json from the table below (kept in one place so it is always valid)."""
import json
import os

HERE = os.path.dirname(os.path.dirname(os.path.abspath(__file__)))

NOTE_BASE = ('Trusted: Coq 8.16.1 kernel + VM (vm_compute, no native_compute, no extraction); tools/py2v.py for the '
             'syntactic ties; harness/*.py (drives /repo, encodes observations); Python int modelled as Z; bitsets/heapq/'
             'sorted/itertools re-stated by hand and tied by correspondence only. Property theorems: Closed under the '
             'global context (checked on every run by Print Assumptions).')

E2E = ('All lattice-level theorems are end-to-end: from wf_ctx c and build_lattice fuel dfuel (relation_new c) = Ok L (the Gallina model of '
       'lindig.lattice + Lattice.__init__/_init/_annotate; termination proved) to the clause, for all contexts of any size. ')

CLAIMED = {
    'C01': ('Theorems (all contexts, all widths, all argument lists): the translated prime loop equals the comprehension-style '
            'derivation; intension/extension = filter of the columns/rows all arguments have, once, in context order; '
            'empty -> all; set-only dependence; raw = label form; unknown label -> KeyError. Tie: kernel regenerated from '
            'source + reflexivity, and vm_compute correspondence on EXH/FAM/WIDE/RND x all subsets.',
            'proof + regenerated kernel + differential correspondence', '7 C01'),
    'C02': ('Theorems: context[items] = (A\'\', A\') resp. (B\', B\'\') via the proved double/doubleprime loops; it is a formal concept, contains the '
            'query, is the least such; closure extensive/monotone/idempotent. ' + E2E + 'lattice[items], lattice(props) (any list incl. empty), '
            'lattice[()] = last member = top, lattice[i], unknown labels -> KeyError; the mapping lookup cannot miss.',
            'proof + regenerated kernels + differential correspondence', '7 C02'),
    'C03': (E2E + 'The members are exactly the formal concepts (iff), no member repeated, len = their number, bottom first (closure of the empty set), '
            'top last, all-crosses table -> one member, termination for every context. Lindig neighbour search and heap loop proved (Lindig\'s argument); '
            'kernel lindig.neighbors regenerated from source.',
            'proof + regenerated kernel + differential correspondence', '7 C03'),
    'C05': (E2E + 'upper/lower neighbours are exactly the covers (no member strictly between), NoDup, converse; Context.neighbors(objs) = covers of the '
            'generated concept for every object list; ctx_neighbors kernel theorem; a pickled / copied lattice (concepts pickled by index, relinked by __setstate__) is the same lattice (copy_lattice L = Ok L).',
            'proof + regenerated kernel + differential correspondence', '7 C05'),
    'C06': (E2E + 'iteration strictly sorted by the shortlex key and the key means "fewer members first, ties by first differing position"; index = position; '
            'dindex order = longlex key order; infimum first and least, supremum last and greatest; atoms = covers of the infimum; neighbour tuples '
            'sorted. Correspondence also covers lattices reloaded from permuted serialisations.',
            'proof + differential correspondence', '7 C06'),
    'C07': (E2E + 'n-ary join = member with extent closure(union), least upper bound; meet = member with extent intersection, greatest lower bound; '
            'empty join = infimum, empty meet = supremum; binary methods = n-ary on two; commutative, associative, idempotent, absorption, '
            'x<=y iff x|y is y iff x&y is x. Kernels matrices.double, lattice_members.join/meet regenerated from source.',
            'proof + regenerated kernels + differential correspondence', '7 C07'),
    'C08': ('Theorems for all in-range extents: each of the 8 predicates <-> its set-theoretic meaning; order by extents <-> '
            'reverse order of intents on concepts; reflexive, transitive, antisymmetric. Tie: the 8 one-liners are '
            'regenerated from source (reflexivity) + correspondence over all ordered concept pairs.',
            'proof + regenerated kernel + differential correspondence', '7 C08'),
    'C09': (E2E + 'generic heap-merge theorem (sorted, exactly the reachable set, termination bound); upset = exactly the members above in index order; '
            'downset = exactly those below in dindex order; unions for any seed list (repeats, comparable members), each once; empty -> nothing; '
            'tools.maximal keeps the extremal seeds and dropping the others changes nothing. Correspondence includes interleaved/abandoned traversals.',
            'proof + differential correspondence', '7 C09'),
    'C10': (E2E + 'every object labels exactly one member, its object concept; every property exactly its attribute concept; labels ascending; extent = '
            'union of object labels below, intent = union of property labels above; atoms tuple = lattice atoms below.',
            'proof + differential correspondence', '7 C10'),
    'C11': ('Theorems: todict encoding (ascending index tuples, neighbours = covers, sorted); sum_bits decoding for any tuple order; ordered reload '
            '_fromlist(tolist L) = L (record equality); raw reload of ANY permutation of entries and tuples = L. Partial: json, repr/literal_eval, pickle, '
            'codecs, files and the second process are exercised by the harness (all channels x with/without/lazy lattice x raw permutations x fresh '
            'interpreter with another hash seed), not modelled. Known finding F4 (pickle of large lattices).',
            'proof of the codec + multi-channel differential correspondence (partial)', '7 C11'),
    'C12': ('Theorems on a Gallina re-statement of the dumpers/loaders over code-point lists (validated against the library on dumps, independently written '
            'variants and malformed text): table round trip for every indent, cxt round trip, csv round trip for both symbol sets and the sniffing loader '
            '(any labels), readers written from the format descriptions recover the triple from table/cxt/csv/wiki-table output, FIMI/.dat rows are exactly '
            'the true cells ascending and re-read, infer_format case-insensitive; the loaders read the text of liberal writers written from the format descriptions (any padding, optional final bar, comments, blank lines; any quoting choice for csv). Partial: codecs, real files, repr/literal_eval and the C csv module are '
            'exercised / re-stated, not verified.',
            'proof on a validated model of the formats + differential correspondence (partial)', '7 C12'),
    'C13': ('Theorems: the Definition machine (tools.Unique with _seen next to _items, _pairs set) refines the plain ordered-table model for all 26 '
            'operations: same triple, same return value, same exception, rejected call leaves the store unchanged; invariant for every history from '
            'the empty store; whole-history simulation; d == Definition(*d) after every step; bools shape. Correspondence: exhaustive single steps over '
            'a bounded universe + random multi-handle histories, all handles observed after every step.',
            'proof (refinement) + differential correspondence', '7 C13'),
    'C14': ('Theorems: copy/union/intersection/take/transposed/inverted/rebuild refine the plain model (cell-wise or/and, conflicts exactly on a shared '
            'differing cell, take selection/unknown names, involutions, rebuild round trip); frame theorems: a derive step and any later history change a '
            'handle only through an in-place operation addressed to it. Aliasing in the code is exposed by observing every live handle after every step. '
            'Context(*d) is accepted iff the name lists are non-empty and disjoint, Context <-> Definition round trips, contexts equal iff triples equal (on the model of Context.__init__ of C19). shape and fill_ratio are modelled (Model/Stats.v): the fraction is in lowest terms, counts exactly the true cells (through the invariant of the Definition machine) and agrees between a definition and its context in both directions, invariant under transposition and permutation; table string and crc32 agreement: harness glue (computed independently from the triple).',
            'proof (refinement) + differential correspondence', '7 C14'),
    'C15': ('Theorems on the specification (which C01-C07 tie to the code): row/column permutation maps concepts, covers, joins, meets and the column '
            'combination patterns through the bijection; transposition swaps extent/intent, reverses covers, exchanges join and meet; duplicated row '
            'keeps the intents, duplicated/full column keeps the extents; same number of concepts. Correspondence: variants built through the '
            'Definition API (move_*, transposed, add_*) compared with the model of the harness-computed expected table.',
            'proof on the specification + differential correspondence', '7 C15'),
    'C04': ('Theorems: fast_generate_from and fcbo_dual (generic stack machine with the shared failed-closure list) each emit every formal concept exactly '
            'once and nothing else; the only possible failure is OutOfFuel and fuel = number of concepts suffices; both agree. get_concepts/iterconcepts '
            'wrap the first; agreement with the lattice via C03.',
            'proof + differential correspondence', '7 C04'),
    'C16': ('Theorems: the docstring tables (regenerated from source on every run) assign exactly one kind to every pair of contingent columns and to every '
            'non-empty column; entries = unordered pairs in order; stable sort by rank is a sorted permutation; implication rows exclude (true,false). '
            'Correspondence on every table with rows*cols<=12.',
            'proof + regenerated tables + differential correspondence', '7 C16'),
    'C17': ('Theorems: order-oracle independence of the Definition machine (sets stored in any Permutation give the same returns, exceptions and '
            'observations, even when reshuffled before every call); upset_union/downset_union depend only on the SET of seeds. Partial: CPython hashing '
            'not modelled; a fixed corpus is executed under several PYTHONHASHSEEDs in separate processes, sections must be identical and the '
            'Definition histories must match the model. Known finding F5 (dependency bitsets).',
            'proof of order independence + multi-process correspondence (partial)', '7 C17'),
    'C18': (E2E + 'attributes() = the subsets of the intent deriving to the extent, in the shortlex powerset order (proved sorted, NoDup, complete), minimal() its '
            'head, every listed set regenerates the concept through lattice(...); empty extent -> [intent]; infimum minimal = intent.',
            'proof + differential correspondence', '7 C18'),
    'C19': ('Theorems: Context(...) accepts iff names non-empty, duplicate-free, disjoint, one row per object, one cell per property, else ValueError and '
            'never another exception; accepted = reproduced exactly (cells by truthiness); fromdict accepts iff the listed rules, else ValueError. '
            'Correspondence on every triple/dict of EXH(6) with single and double corruptions.',
            'proof + differential correspondence', '7 C19'),
    'C20': (E2E + 'abstract DOT body: exactly one node per member named by its index, edges exactly member -> each lower cover (NoDup), label statements '
            'iff the reduced label is non-empty with exactly those names. graphviz line syntax/quoting not modelled (Digraph.body parsed).',
            'proof on the abstract body + parsed correspondence (partial)', '7 C20'),
}

ALL = [f'C{i:02d}' for i in range(1, 21)]


def main():
    checks = []
    for pid, (text, technique, ref) in sorted(CLAIMED.items()):
        checks.append({
            'property_id': pid,
            'quick_cmd': f'bin/check {pid} quick',
            'thorough_cmd': f'bin/check {pid} thorough',
            'evidence_file': f'evidence/{pid}.json',
            'replay_cmd_template': f'bin/check {pid} --replay {{path}}',
            'engine': 'coq-model',
            'level_claimed': {'category': 'proof', 'text': text, 'design_ref': f'DESIGN.md section {ref}'},
            'level_note': NOTE_BASE,
            'technique': technique,
        })
    na = [{'property_id': p, 'reason': 'check not built yet in this revision (model and theorems under construction; see DESIGN.md)'}
          for p in ALL if p not in CLAIMED]
    m = {
        'version': 1,
        'setup_cmd': 'bin/setup',
        'hooks': {'guard': 'CONCEPTS_VERIF', 'enable': 'no source hooks: all observations use the public API of /repo',
                  'baseline_off_cmd': 'cd /repo && /venv/bin/python -m pytest -ra -q -p no:cacheprovider --timeout=900 --continue-on-collection-errors',
                  'source_commits': [], 'add_only': True},
        'engines': [{'name': 'coq-model', 'path': 'coq/', 'serves_properties': sorted(CLAIMED),
                     'kind_free_text': 'Coq 8.16.1 development (model, theorems, ties) + Python harness evaluating the model inside Coq on the inputs the implementation ran'}],
        'checks': checks,
        'notes': 'Genuine defects repaired in /repo by fix: commits are listed in known_findings.json (status fixed).',
        'not_applicable': na,
    }
    with open(os.path.join(HERE, 'MANIFEST.json'), 'w') as f:
        json.dump(m, f, indent=1)
        f.write('\n')


if __name__ == '__main__':
    main()
