#!/usr/bin/env python3
"""Regenerate MANIFEST.json from the table below (kept in one place so it is always valid)."""
import json
import os

HERE = os.path.dirname(os.path.dirname(os.path.abspath(__file__)))

NOTE_BASE = ('Trusted: Coq 8.16.1 kernel + VM (vm_compute, no native_compute, no extraction); tools/py2v.py for the '
             'syntactic ties; harness/*.py (drives /repo, encodes observations); Python int modelled as Z; bitsets/heapq/'
             'sorted/itertools re-stated by hand and tied by correspondence only. Property theorems: Closed under the '
             'global context (checked on every run by Print Assumptions).')

PARTIAL_NOTE = ' STATUS partial: see the header of coq/Properties/%s.v for exactly which part is a theorem and which part is decided by the correspondence alone.'

CLAIMED = {
    'C01': ('Theorems (all contexts, all widths, all argument lists): the translated prime loop equals the comprehension-style '
            'derivation; intension/extension = filter of the columns/rows all arguments have, once, in context order; '
            'empty -> all; set-only dependence; raw = label form; unknown label -> KeyError. Tie: kernel regenerated from '
            'source + reflexivity, and vm_compute correspondence on EXH/FAM/WIDE/RND x all subsets.',
            'proof + regenerated kernel + differential correspondence', '7 C01'),
    'C02': ('Theorems: Context.__getitem__ on objects returns (A\'\', A\'), on properties (B\', B\'\') via the proved double/doubleprime loops; '
            'the result is a formal concept, contains the query, is the least such, closure extensive/monotone/idempotent; the mapping '
            'lookup returns the member with exactly that extent. Lattice-level totality of the lookup rests on C03 (correspondence).' + PARTIAL_NOTE % 'C02',
            'proof (context level) + differential correspondence (lattice level)', '7 C02'),
    'C03': ('Executable Gallina model of lindig.lattice / neighbors (kernel regenerated from source) evaluated in Coq against the '
            'implementation on every table with rows*cols<=9 (12 thorough), scales, wide and random tables; theorems so far: generated '
            'candidates are formal concepts, bottom least, top greatest, all-crosses singleton.' + PARTIAL_NOTE % 'C03',
            'differential correspondence against a Coq model; partial proof', '7 C03'),
    'C05': ('Model of the neighbour search and of the converse links evaluated against the implementation (all concepts; '
            'Context.neighbors on all object subsets); theorem so far: every candidate is a closed extent strictly above.' + PARTIAL_NOTE % 'C05',
            'differential correspondence against a Coq model; partial proof', '7 C05'),
    'C06': ('Model of the heap order, index/dindex ranks and neighbour sorting (also for lattices reloaded from permuted '
            'serialisations) evaluated against the implementation; theorem so far: the sort key order is a strict total order.' + PARTIAL_NOTE % 'C06',
            'differential correspondence against a Coq model; partial proof', '7 C06'),
    'C07': ('Theorems: double() is the closure; closure of the union is the least closed extent above both (lub), the intersection is '
            'closed, fixed by double() and the glb; n-ary forms; x<=y iff join is y iff meet is x. Ties: matrices.double and '
            'lattice_members.join/meet regenerated from source. Final mapping lookup rests on C03.' + PARTIAL_NOTE % 'C07',
            'proof + regenerated kernels + differential correspondence', '7 C07'),
    'C08': ('Theorems for all in-range extents: each of the 8 predicates <-> its set-theoretic meaning; order by extents <-> '
            'reverse order of intents on concepts; reflexive, transitive, antisymmetric. Tie: the 8 one-liners are '
            'regenerated from source (reflexivity) + correspondence over all ordered concept pairs.',
            'proof + regenerated kernel + differential correspondence', '7 C08'),
    'C09': ('Model of iterunion / tools.maximal / upset / downset / unions evaluated against the implementation (all concepts, '
            'pairs, multisets, interleaved and abandoned traversals); theorem so far: empty collection yields nothing.' + PARTIAL_NOTE % 'C09',
            'differential correspondence against a Coq model; partial proof', '7 C09'),
    'C10': ('Model of _annotate and the atoms tuples evaluated against the implementation; theorems so far: an object is filed '
            'under the extent {o}\'\' and a property under {p}\'.' + PARTIAL_NOTE % 'C10',
            'differential correspondence against a Coq model; partial proof', '7 C10'),
    'C18': ('Model of the shortlex powerset and the prime() filter evaluated against the implementation; theorem so far: empty '
            'extent case.' + PARTIAL_NOTE % 'C18',
            'differential correspondence against a Coq model; partial proof', '7 C18'),
    'C20': ('Abstract DOT body model; theorems: exactly one node per concept named by its index, plain edges exactly concept -> each '
            'lower neighbour; labels and covers rest on C10/C05. graphviz line syntax/quoting not modelled (body parsed).' + PARTIAL_NOTE % 'C20',
            'proof on the abstract body + parsed correspondence', '7 C20'),
}

ALL = [f'C{i:02d}' for i in range(1, 21)]


def main():
    checks = []
    for pid, (text, technique, ref) in sorted(CLAIMED.items()):
        checks.append({
            'property_id': pid,
            'quick_cmd': f'bin/check {pid} quick',
            'thorough_cmd': f'bin/check {pid} thorough',
            'evidence_file': f'evidence/{pid}.json',
            'replay_cmd_template': f'bin/check {pid} --replay {{path}}',
            'engine': 'coq-model',
            'level_claimed': {'category': 'proof', 'text': text, 'design_ref': f'DESIGN.md section {ref}'},
            'level_note': NOTE_BASE,
            'technique': technique,
        })
    na = [{'property_id': p, 'reason': 'check not built yet in this revision (model and theorems under construction; see DESIGN.md section 11)'}
          for p in ALL if p not in CLAIMED]
    m = {
        'version': 1,
        'setup_cmd': 'bin/setup',
        'hooks': {'guard': 'CONCEPTS_VERIF', 'enable': 'no source hooks: all observations use the public API of /repo',
                  'baseline_off_cmd': 'cd /repo && /venv/bin/python -m pytest -ra -q -p no:cacheprovider --timeout=900 --continue-on-collection-errors',
                  'source_commits': [], 'add_only': True},
        'engines': [{'name': 'coq-model', 'path': 'coq/', 'serves_properties': sorted(CLAIMED),
                     'kind_free_text': 'Coq 8.16.1 development (model, theorems, ties) + Python harness evaluating the model inside Coq on the inputs the implementation ran'}],
        'checks': checks,
        'notes': 'Genuine defects repaired in /repo by fix: commits are listed in known_findings.json (status fixed).',
        'not_applicable': na,
    }
    with open(os.path.join(HERE, 'MANIFEST.json'), 'w') as f:
        json.dump(m, f, indent=1)
        f.write('\n')


if __name__ == '__main__':
    main()
