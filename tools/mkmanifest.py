#!/usr/bin/env python3
"""Regenerate MANIFEST.json from the table below (kept in one place so it is always valid)."""
import json
import os

HERE = os.path.dirname(os.path.dirname(os.path.abspath(__file__)))

NOTE_BASE = ('Trusted: Coq 8.16.1 kernel + VM (vm_compute, no native_compute, no extraction); tools/py2v.py for the '
             'syntactic ties; harness/*.py (drives /repo, encodes observations); Python int modelled as Z; bitsets/heapq/'
             'sorted/itertools re-stated by hand and tied by correspondence only. Property theorems: Closed under the '
             'global context (checked on every run by Print Assumptions).')

CLAIMED = {
    'C01': ('Theorems (all contexts, all widths, all argument lists): the translated prime loop equals the comprehension-style '
            'derivation; intension/extension = filter of the columns/rows all arguments have, once, in context order; '
            'empty -> all; set-only dependence; raw = label form; unknown label -> KeyError. Tie: kernel regenerated from '
            'source + reflexivity, and vm_compute correspondence on EXH/FAM/WIDE/RND x all subsets.',
            'proof + regenerated kernel + differential correspondence', '7 C01'),
    'C08': ('Theorems for all in-range extents: each of the 8 predicates <-> its set-theoretic meaning; order by extents <-> '
            'reverse order of intents on concepts; reflexive, transitive, antisymmetric. Tie: the 8 one-liners are '
            'regenerated from source (reflexivity) + correspondence over all ordered concept pairs.',
            'proof + regenerated kernel + differential correspondence', '7 C08'),
}

ALL = [f'C{i:02d}' for i in range(1, 21)]


def main():
    checks = []
    for pid, (text, technique, ref) in sorted(CLAIMED.items()):
        checks.append({
            'property_id': pid,
            'quick_cmd': f'bin/check {pid} quick',
            'thorough_cmd': f'bin/check {pid} thorough',
            'evidence_file': f'evidence/{pid}.json',
            'replay_cmd_template': f'bin/check {pid} --replay {{path}}',
            'engine': 'coq-model',
            'level_claimed': {'category': 'proof', 'text': text, 'design_ref': f'DESIGN.md section {ref}'},
            'level_note': NOTE_BASE,
            'technique': technique,
        })
    na = [{'property_id': p, 'reason': 'check not built yet in this revision (model and theorems under construction; see DESIGN.md section 11)'}
          for p in ALL if p not in CLAIMED]
    m = {
        'version': 1,
        'setup_cmd': 'bin/setup',
        'hooks': {'guard': 'CONCEPTS_VERIF', 'enable': 'no source hooks: all observations use the public API of /repo',
                  'baseline_off_cmd': 'cd /repo && /venv/bin/python -m pytest -ra -q -p no:cacheprovider --timeout=900 --continue-on-collection-errors',
                  'source_commits': [], 'add_only': True},
        'engines': [{'name': 'coq-model', 'path': 'coq/', 'serves_properties': sorted(CLAIMED),
                     'kind_free_text': 'Coq 8.16.1 development (model, theorems, ties) + Python harness evaluating the model inside Coq on the inputs the implementation ran'}],
        'checks': checks,
        'notes': 'Genuine defects repaired in /repo by fix: commits are listed in known_findings.json (status fixed).',
        'not_applicable': na,
    }
    with open(os.path.join(HERE, 'MANIFEST.json'), 'w') as f:
        json.dump(m, f, indent=1)
        f.write('\n')


if __name__ == '__main__':
    main()
