#!/bin/bash
# Apply every seeded change in a scratch worktree (never in /repo) and run the quick check of its property.
# usage: run_all_mutants.sh [tier] [glob]   -> writes / updates seeded/RESULTS.tsv
tier=${1:-quick}
pat=${2:-C*-m*}
wt=/tmp/wt/mutrun
git -C /repo worktree remove --force $wt 2>/dev/null
git -C /repo worktree add --detach $wt HEAD -q || exit 2
out=/verif/seeded/RESULTS.tsv
: > $out.tmp
for d in /verif/seeded/$pat/; do
  id=$(basename $d); prop=${id%%-*}
  git -C $wt checkout -q -- . && git -C $wt clean -fdq
  git -C $wt apply $d/patch.diff || { echo -e "$id\t$prop\tpatch-does-not-apply" >> $out.tmp; continue; }
  res=$(cd /verif && CONCEPTS_REPO=$wt bin/check $prop $tier 2>&1 | grep -E "^(OK|VIOLATION|INFRA)" | head -1 | cut -c1-120)
  case "$res" in VIOLATION*no-failing-input-found) v=detected-proof-only;; VIOLATION*) v=detected;; OK*) v=MISSED;; *) v="error: $res";; esac
  echo -e "$id\t$prop\t$tier\t$v" >> $out.tmp
  echo "$id $v"
done
git -C /repo worktree remove --force $wt
# merge: new verdicts replace old lines of the same id
python3 - "$out" "$out.tmp" <<'PY'
import sys, os
out, tmp = sys.argv[1], sys.argv[2]
res = {}
for f in (out, tmp):
    if os.path.exists(f):
        for line in open(f):
            parts = line.rstrip('\n').split('\t')
            if len(parts) >= 4:
                res[parts[0]] = parts
with open(out, 'w') as f:
    for k in sorted(res):
        f.write('\t'.join(res[k]) + '\n')
os.remove(tmp)
PY
# leave the generated kernels of the clean tree in place
(cd /verif && bin/check C08 quick > /dev/null 2>&1)
