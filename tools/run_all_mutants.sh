#!/bin/bash
# Apply every seeded change in a scratch worktree (never in /repo) and run the quick check of its property.
# usage: run_all_mutants.sh [tier]   -> writes seeded/RESULTS.tsv
tier=${1:-quick}
wt=/tmp/wt/mutrun
git -C /repo worktree remove --force $wt 2>/dev/null
git -C /repo worktree add --detach $wt HEAD -q || exit 2
out=/verif/seeded/RESULTS.tsv
: > $out.tmp
for d in /verif/seeded/C*-m*/; do
  id=$(basename $d); prop=${id%%-*}
  git -C $wt checkout -q -- . && git -C $wt clean -fdq
  git -C $wt apply $d/patch.diff || { echo -e "$id\t$prop\tpatch-does-not-apply" >> $out.tmp; continue; }
  res=$(cd /verif && CONCEPTS_REPO=$wt bin/check $prop $tier 2>&1 | grep -E "^(OK|VIOLATION|INFRA)" | head -1 | cut -c1-120)
  case "$res" in VIOLATION*no-failing-input-found) v=detected-proof-only;; VIOLATION*) v=detected;; OK*) v=MISSED;; *) v="error: $res";; esac
  echo -e "$id\t$prop\t$tier\t$v" >> $out.tmp
  echo "$id $v"
done
git -C /repo worktree remove --force $wt
mv $out.tmp $out
# leave the generated kernels of the clean tree in place
(cd /verif && bin/check C08 quick > /dev/null 2>&1)
