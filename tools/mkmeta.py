#!/usr/bin/env python3
"""Write seeded/<id>/meta.json from notes.md, confirm.json and seeded/RESULTS.tsv."""
import json
import os

HERE = os.path.dirname(os.path.dirname(os.path.abspath(__file__)))
SEEDED = os.path.join(HERE, 'seeded')
results = {}
p = os.path.join(SEEDED, 'RESULTS.tsv')
if os.path.exists(p):
    for line in open(p):
        parts = line.rstrip('\n').split('\t')
        if len(parts) >= 4:
            results[parts[0]] = {'check': f'bin/check {parts[1]} {parts[2]}', 'verdict': parts[3]}
for d in sorted(x for x in os.listdir(SEEDED) if x != 'harmless'):
    full = os.path.join(SEEDED, d)
    if not os.path.isdir(full):
        continue
    notes = open(os.path.join(full, 'notes.md'), encoding='utf-8').read() if os.path.exists(os.path.join(full, 'notes.md')) else ''
    confirm = json.load(open(os.path.join(full, 'confirm.json'))) if os.path.exists(os.path.join(full, 'confirm.json')) else {}
    meta = {
        'id': d,
        'property': d.split('-')[0],
        'origin': 'written by a sub-agent that was given only the property text and a scratch git worktree of /repo (nothing from /verif)',
        'what_it_needs_to_manifest': notes.strip(),
        'confirmed_here': {
            'how': 'tools/confirm_mutant.sh in a scratch worktree: demo.py on the clean tree, git apply patch.diff, the unedited test suite, demo.py again, checkout',
            'clean_tree_demo_exit': confirm.get('clean_demo_exit'),
            'patched_tree_demo_exit': confirm.get('mutant_demo_exit'),
            'patched_tree_test_suite': confirm.get('tests'),
        },
        'detection': results.get(d, {'verdict': 'not yet run'}),
        'run_how': 'tools/run_all_mutants.sh applies the patch in a scratch worktree (CONCEPTS_REPO) and runs the property\'s quick check; /repo itself is never modified',
    }
    with open(os.path.join(full, 'meta.json'), 'w', encoding='utf-8') as f:
        json.dump(meta, f, indent=1, ensure_ascii=False)
        f.write('\n')
print('meta written for', len([d for d in os.listdir(SEEDED) if os.path.isdir(os.path.join(SEEDED, d))]))
