"""Input generators.  Every random choice comes from one random.Random(seed); exhaustive
parts do not depend on the seed."""
import itertools
import random


class Ctx:
    """A boolean table with labels.  rows[g] is an int whose bit m is cell (g, m)."""

    __slots__ = ('objects', 'properties', 'rows', 'tag')

    def __init__(self, rows, n_props, tag='', labels=None):
        self.rows = list(rows)
        ng, nm = len(self.rows), n_props
        if labels is None:
            labels = label_scheme(0)
        self.objects, self.properties = labels(ng, nm)
        self.tag = tag

    @property
    def nG(self):
        return len(self.rows)

    @property
    def nM(self):
        return len(self.properties)

    @property
    def bools(self):
        return [tuple(bool(r >> m & 1) for m in range(self.nM)) for r in self.rows]

    def key(self):
        return (self.nG, self.nM, tuple(self.rows))

    def to_json(self):
        return {'objects': list(self.objects), 'properties': list(self.properties),
                'bools': [list(map(int, b)) for b in self.bools], 'tag': self.tag}

    @classmethod
    def from_json(cls, d):
        rows = [sum(1 << m for m, b in enumerate(r) if b) for r in d['bools']]
        c = cls(rows, len(d['properties']), d.get('tag', ''))
        c.objects, c.properties = list(d['objects']), list(d['properties'])
        return c

    def coq(self):
        rows = '; '.join(str(r) for r in self.rows)
        return f'(mkCtx {self.nG} {self.nM} [{rows}])'


def label_scheme(k):
    """Label schemes; label order deliberately differs from positional order."""
    def plain(ng, nm):
        return [f'o{i}' for i in range(ng)], [f'p{j}' for j in range(nm)]

    def reversed_names(ng, nm):
        # lexicographic order of labels is the reverse of positional order
        return ([f'g{ng - 1 - i:03d}' for i in range(ng)],
                [f'm{nm - 1 - j:03d}' for j in range(nm)])

    def unicode_names(ng, nm):
        return ([f'öb{(i * 7 + 3) % (ng + 5)}-{i}' for i in range(ng)],
                [f'π {(j * 5 + 1) % (nm + 3)}.{j}' for j in range(nm)])

    return [plain, reversed_names, unicode_names][k % 3]


def shapes(k):
    return [(r, c) for r in range(1, k + 1) for c in range(1, k + 1) if r * c <= k]


def exh(k, labels=None):
    """Every boolean table with rows*cols <= k."""
    for (r, c) in shapes(k):
        for bits in range(1 << (r * c)):
            rows = [(bits >> (g * c)) & ((1 << c) - 1) for g in range(r)]
            yield Ctx(rows, c, f'exh{k}:{r}x{c}', labels or label_scheme(bits + r))


def exh_count(k):
    return sum(1 << (r * c) for r, c in shapes(k))


def fam(big=10):
    out = []

    def add(rows, nm, tag, scheme=1):
        out.append(Ctx(rows, nm, tag, label_scheme(scheme)))
    for n in range(1, 8):
        add([(1 << (i + 1)) - 1 for i in range(n)], n, f'chain{n}')          # ordinal scale
        add([1 << i for i in range(n)], n, f'nominal{n}', 2)                  # antichain
        add([((1 << n) - 1) & ~(1 << i) for i in range(n)], n, f'contranominal{n}', 0)
    for n in (8, 9, big):
        add([((1 << n) - 1) & ~(1 << i) for i in range(n)], n, f'contranominal{n}', 0)
    for n in range(2, 6):
        # interordinal scale: <= k and >= k
        rows = []
        for i in range(n):
            le = sum(1 << k for k in range(n) if i <= k)
            ge = sum(1 << (n + k) for k in range(n) if i >= k)
            rows.append(le | ge)
        add(rows, 2 * n, f'interordinal{n}')
    # duplicates, empty and full rows / columns
    add([0b101, 0b101, 0b011, 0b000, 0b111], 3, 'dup-empty-full-rows', 2)
    add([0b1001, 0b1011, 0b1001, 0b1101], 4, 'full-col-empty-col-dup-col')
    add([0b0110, 0b0110, 0b0110], 4, 'all-rows-equal')
    add([0b1], 1, 'one-cross')
    add([0b0], 1, 'one-blank')
    add([0b111, 0b111], 3, 'all-crosses')
    add([0, 0, 0], 2, 'no-cross')
    add([0b10110], 5, 'one-row')
    add([1, 0, 1, 1, 0], 1, 'one-col')
    return out


def wide(seed=0):
    rnd = random.Random(seed * 7919 + 13)
    out = []
    for w in (31, 32, 33, 63, 64, 65, 100, 130):
        top = 1 << (w - 1)
        # properties wide
        out.append(Ctx([top | 1, top | 2, 3, top], w, f'wideM{w}:isolated-top', label_scheme(1)))
        alt = sum(1 << i for i in range(0, w, 2))
        out.append(Ctx([alt, ((1 << w) - 1) ^ alt, alt | top, (1 << w) - 1], w, f'wideM{w}:alternating', label_scheme(0)))
        out.append(Ctx([1 << (w // 2), (1 << (w // 2)) | top, 1 | top], w, f'wideM{w}:leading-zero-runs', label_scheme(2)))
        # objects wide: few properties, many rows
        rows = [0] * w
        rows[w - 1] = 0b011
        rows[0] = 0b001
        rows[w // 2] = 0b110
        out.append(Ctx(rows, 3, f'wideG{w}:sparse', label_scheme(1)))
        rows = [(0b01 if i % 2 == 0 else 0b10) | (0b100 if i == w - 1 else 0) for i in range(w)]
        out.append(Ctx(rows, 3, f'wideG{w}:alternating', label_scheme(0)))
        rows = [rnd.choice([0, 0, 0, 1, 2, 4, 3]) for _ in range(w)]
        rows[w - 1] |= 4
        out.append(Ctx(rows, 3, f'wideG{w}:random-sparse', label_scheme(2)))
    return out


def rnd(n, seed, max_rows=8, max_cols=10):
    r = random.Random(seed)
    out = []
    dens = [0.1, 0.3, 0.5, 0.8, 0.95]
    for i in range(n):
        ng = r.randint(3, max_rows)
        nm = r.randint(3, max_cols)
        d = dens[i % len(dens)]
        rows = [sum(1 << m for m in range(nm) if r.random() < d) for _ in range(ng)]
        if i % 7 == 0 and ng > 1:
            rows[r.randrange(ng)] = rows[r.randrange(ng)]     # duplicate row
        out.append(Ctx(rows, nm, f'rnd:{ng}x{nm}@{d}', label_scheme(i)))
    return out


def subsets(n, limit_all, r, extra=64):
    """All subsets (as index tuples) when n <= limit_all, else structured + random."""
    if n <= limit_all:
        for mask in range(1 << n):
            yield tuple(i for i in range(n) if mask >> i & 1)
        return
    seen = set()

    def emit(t):
        t = tuple(t)
        if t not in seen:
            seen.add(t)
            return True
        return False
    cand = [(), tuple(range(n))]
    cand += [(i,) for i in range(n)]
    cand += [(0, n - 1), (n - 1,), (n - 1, 0), tuple(range(n - 1)), tuple(range(1, n))]
    cand += [tuple(i for i in range(n) if i != k) for k in (0, n // 2, n - 1)]
    for _ in range(extra):
        k = r.randint(1, min(n, 6))
        cand.append(tuple(sorted(r.sample(range(n), k))))
    for t in cand:
        if emit(t):
            yield t
