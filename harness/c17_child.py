"""Child interpreter for C17: executes a fixed call corpus and prints one JSON object
{section: value}.  Run under several PYTHONHASHSEED values; everything printed must be identical."""
import io
import json
import os
import random
import re
import sys

sys.path.insert(0, os.path.dirname(os.path.abspath(__file__)))
import common  # noqa: E402
sys.path.insert(0, common.REPO)

import gen  # noqa: E402
from props import defmachine as dm  # noqa: E402

ADDR = re.compile(r'0x[0-9a-fA-F]+')


def mask(s):
    return ADDR.sub('0x?', s)


def err(fn):
    try:
        return ['ok', fn()]
    except Exception as e:  # noqa: BLE001
        return [type(e).__name__, mask(str(e))]


def histories(tier, seed):
    """deterministic list of op histories (independent of the hash seed)"""
    r = random.Random(seed + 99)
    hs = []
    O, P = [0, 1, 2, 6, 8], [3, 4, 5, 7, 9]
    # several new names at once, in an order that differs from any sorted order
    hs.append([dm.Op('DNew', [], [], []), dm.Op('OSetObject', 0, 2, [5, 3, 9, 4, 7]), dm.Op('OSetProperty', 0, 9, [8, 0, 6, 1]),
               dm.Op('OAddObject', 0, 6, [7, 5, 4, 3]), dm.Op('OAddProperty', 0, 4, [8, 2, 1, 0])])
    # several empty rows / columns removed at once (the returned names have an order)
    hs.append([dm.Op('DNew', [6, 2, 8, 0, 1], [9, 3, 7, 5], [[False] * 4] * 5), dm.Op('OSetItem', 0, 8, 7, True),
               dm.Op('ORemoveEmptyObjects', 0), dm.Op('ORemoveEmptyProperties', 0), dm.Op('OAddObject', 0, 6, []), dm.Op('OAddObject', 0, 2, []),
               dm.Op('OAddProperty', 0, 9, []), dm.Op('OAddProperty', 0, 5, []), dm.Op('OAddProperty', 0, 3, []),
               dm.Op('ORemoveEmptyProperties', 0), dm.Op('ORemoveEmptyObjects', 0)])
    hs.append([dm.Op('DNew', [0, 1, 2], [3, 4, 5], [[True, False, True], [False, True, False], [True, True, False]]),
               dm.Op('DNew', [2, 1, 0, 6], [5, 4, 3, 7], [[False, True, False, True]] * 4),
               dm.Op('OUnionUpdate', 0, 1, False), dm.Op('OIntersectionUpdate', 0, 1, False), dm.Op('DUnion', 0, 1, False),
               dm.Op('DUnion', 0, 1, True), dm.Op('DIntersection', 1, 0, True), dm.Op('DTake', 0, [8, 6, 2], [9, 7], False),
               dm.Op('DTake', 1, [6, 0, 2], [7, 3], True), dm.Op('ORemoveEmptyObjects', 2), dm.Op('ORemoveEmptyProperties', 3)])
    n, length = (60, 20) if tier == 'quick' else (400, 35)
    for _ in range(n):
        hs.append(dm.random_history(r, O, P, r.randint(3, length)))
    return hs


def definition_section(tier, seed):
    terms, messages = [], []
    for i, ops in enumerate(histories(tier, seed)):
        term, subs = dm.run_history(ops, i)
        terms.append({'term': term, 'ops': [[o.kind, list(o.args)] for o in ops], 'variant': i})
        # error message texts of every rejected call (they list names)
        import concepts
        store = []
        msgs = []
        for op in ops:
            try:
                op.apply(store, i)
            except Exception as e:  # noqa: BLE001
                msgs.append([op.kind, type(e).__name__, mask(str(e))])
        messages.append(msgs)
    return terms, messages


def context_section(tier, seed):
    import concepts
    out = {}
    ctxs = gen.fam(6)[:30] + gen.rnd(12 if tier == 'quick' else 60, seed, max_rows=6, max_cols=7) + list(gen.exh(6))[7::29]
    r = random.Random(seed)
    for k, cx in enumerate(ctxs):
        c = concepts.Context(cx.objects, cx.properties, cx.bools)
        sec = {}
        for f in ('table', 'cxt', 'csv', 'python-literal', 'fimi', 'wikitable'):
            sec['tostring:' + f] = err(lambda: c.tostring(frmat=f))
        sec['str(context)'] = mask(str(c))
        # dict form before the lattice exists: key order and repr are observable too
        sec['todict without lattice'] = err(lambda: [list(c.todict(ignore_lattice=True)), repr(c.todict(ignore_lattice=True)),
                                                     list(c.todict(ignore_lattice=None)), list(c.todict(ignore_lattice=None).items())[0][0]])
        buf0 = io.StringIO()
        sec['tojson unsorted without lattice'] = err(lambda: (c.tojson(buf0, sort_keys=False, ignore_lattice=True), buf0.getvalue())[1])
        sec['todict'] = err(lambda: json.dumps(c.todict(), sort_keys=False))
        buf = io.StringIO()
        sec['tojson'] = err(lambda: (c.tojson(buf), buf.getvalue())[1])
        lat = c.lattice
        sec['lattice order'] = [[list(x.extent), list(x.intent), x.index, x.dindex, [u.index for u in x.upper_neighbors],
                                 [l.index for l in x.lower_neighbors], list(x.objects), list(x.properties), [a.index for a in x.atoms]]
                                for x in lat]
        sec['str(lattice)'] = mask(str(lat))
        buf1 = io.StringIO()
        sec['dict keys with lattice'] = err(lambda: [list(c.todict()), list(c.todict(ignore_lattice=None)), list(c.todict(ignore_lattice=True)),
                                                     (c.tojson(buf1, sort_keys=False, indent=1), buf1.getvalue())[1]])
        sec['python-literal with lattice'] = err(lambda: c.tostring(frmat='python-literal'))
        n = len(lat)
        seeds = [r.randrange(n) for _ in range(5)]
        for order in (seeds, seeds[::-1], sorted(seeds), seeds + seeds):
            cs = [lat[i] for i in order]
            sec[f'upset_union{order}'] = [x.index for x in lat.upset_union(cs)]
            sec[f'downset_union{order}'] = [x.index for x in lat.downset_union(cs)]
        # experimental API, not covered by a theorem, but its result must not depend on the process either
        for order in (seeds[:3], sorted(set(seeds))[:4], [0, n - 1], [n // 2, n - 1, 0]):
            cs = [lat[i] for i in order]
            sec[f'upset_generalization{order}'] = err(lambda: [x.index for x in lat.upset_generalization(cs)])
        sec['relations'] = err(lambda: [str(c.relations(include_unary=True)), repr(list(c.relations()))])
        sec['definition'] = err(lambda: repr(c.definition()))
        sec['graphviz'] = err(lambda: mask(lat.graphviz().source))
        # error messages naming labels (one unknown label each: deterministic)
        sec['unknown object'] = err(lambda: c.intension([cx.objects[0], 'no such object']))
        sec['unknown property'] = err(lambda: c.extension(['no such property']))
        sec['unknown item'] = err(lambda: c[('nothing like this',)])
        out[f'{k}:{cx.tag}'] = sec
    # messages listing several names
    out['overlap error'] = err(lambda: concepts.Context(['zeta', 'alpha', 'mid', 'omega'], ['omega', 'mid', 'alpha', 'zeta', 'other'],
                                                       [(True,) * 5] * 4))
    out['duplicate objects error'] = err(lambda: concepts.Context(['b', 'a', 'b', 'a'], ['p'], [(True,)] * 4))
    d1 = concepts.Definition(['zeta', 'alpha', 'mid'], ['q', 'p', 'r'], [(True, False, True), (False, True, False), (True, True, False)])
    d2 = concepts.Definition(['mid', 'zeta', 'alpha'], ['r', 'q', 'p'], [(False, False, True), (False, True, True), (True, False, False)])
    out['conflict error union'] = err(lambda: d1.union(d2))
    out['conflict error intersection'] = err(lambda: d2 & d1)
    out['take error'] = err(lambda: d1.take(['nope', 'zeta', 'never', 'missing'], ['x1', 'q', 'x0']))
    out['fromdict errors'] = [err(lambda: concepts.Context.fromdict({'objects': ['a', 3, None], 'properties': ['p'], 'context': [(0,)] * 3})),
                              err(lambda: concepts.Context.fromdict({'properties': ['p']}))]
    return out


def f5_section():
    """known finding F5 (bitsets.frommembers iterates set(members)): KeyError naming one of several unknown labels"""
    import concepts
    c = concepts.Context(['a', 'b'], ['p', 'q'], [(True, False), (False, True)])
    return [err(lambda: c.intension(['zeta?', 'alpha?', 'mid?', 'omega?'])), err(lambda: c.extension(['zeta?', 'alpha?', 'mid?', 'omega?'])),
            err(lambda: c.lattice[('zeta?', 'alpha?', 'mid?', 'omega?')])]


def main():
    tier, seed = sys.argv[1], int(sys.argv[2])
    # perturb object addresses differently in every process (id()-based hashes must not matter either)
    hs = int(os.environ.get('PYTHONHASHSEED', '0') or 0)
    ballast = [object() for _ in range(997 * (hs + 1))] + [bytearray(64 * (hs + 3)) for _ in range(31 * (hs + 1))]
    del ballast[::3]
    terms, messages = definition_section(tier, seed)
    out = {'definition terms': terms, 'definition error messages': messages, 'contexts': context_section(tier, seed), 'F5': f5_section()}
    sys.stdout.write(json.dumps(out, ensure_ascii=False))


if __name__ == '__main__':
    main()
