#!/venv/bin/python
"""Development aid: run only the correspondence part of a property module (no verdict)."""
import importlib, os, sys, time, json
HERE = os.path.dirname(os.path.abspath(__file__))
sys.path.insert(0, HERE)
import common
sys.path.insert(0, common.REPO)
import check
prop, tier = sys.argv[1].upper(), sys.argv[2]
limit = int(sys.argv[3]) if len(sys.argv) > 3 else None
mod = importlib.import_module(f'props.{prop.lower()}')
t0 = time.time()
cases = mod.cases(tier, 0)
if limit:
    cases = cases[::max(1, len(cases)//limit)]
print('cases', len(cases), 'gen', round(time.time()-t0, 1), 'bytes', sum(len(c.term) for c in cases))
wd = common.workdir_for(prop + '-smoke')
bad, nsh, secs = check.evaluate(mod, cases, wd)
print('shards', nsh, 'coq', round(secs, 1), 'bad', len(bad))
for i, subs in bad[:5]:
    print('SUBS', subs[:10]); print('ITEMS', json.dumps(check.describe(cases[i], subs)[:2], default=str, ensure_ascii=False)[:1800]); print('INPUT', json.dumps(cases[i].replay, default=str, ensure_ascii=False)[:600])
