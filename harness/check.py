#!/venv/bin/python
"""bin/check Cxx quick|thorough|--replay <path>"""
import importlib
import json
import os
import shutil
import sys
import time
import traceback

HERE = os.path.dirname(os.path.abspath(__file__))
sys.path.insert(0, HERE)
import common  # noqa: E402
from common import Infra, log  # noqa: E402

sys.path.insert(0, common.REPO)   # the implementation under test: /repo's working tree


class Case:
    """One correspondence case: Coq term, JSON-able input for the replay, sub-item descriptions."""
    __slots__ = ('term', 'replay', 'nontrivial', 'subs', 'sig')

    def __init__(self, term, replay, nontrivial=False, subs=None, sig=None):
        self.term = term
        self.replay = replay
        self.nontrivial = nontrivial
        self.subs = subs
        self.sig = sig


OVERSIZE = 4_000_000      # no legitimate observation comes near this; such a case disagrees without asking Coq


def evaluate(mod, cases, workdir):
    oversize = [i for i, c in enumerate(cases) if len(c.term) > OVERSIZE]
    if oversize:
        keep = [i for i in range(len(cases)) if len(cases[i].term) <= OVERSIZE]
        bad, nshards, secs = evaluate(mod, [cases[i] for i in keep], workdir)
        bad = [(keep[i], s) for i, s in bad] + [(i, [0]) for i in oversize]
        for i in oversize:
            cases[i].subs = [{'observation': f'{len(cases[i].term)} characters: too large to be an answer to this input'}]
            cases[i].term = cases[i].term[:2000] + ' ... (truncated)'
        return sorted(bad), nshards, secs
    terms = [c.term for c in cases]
    kw = {}
    if hasattr(mod, 'SHARD_SIZE'):
        kw['shard_size'] = mod.SHARD_SIZE
    if hasattr(mod, 'IMPORTS'):
        kw['imports'] = mod.IMPORTS
    bad, nshards, secs = common.run_shards(mod.RUN_MODULE, terms, workdir, **kw)
    for idx, msg in common.UNPARSABLE:
        cases[idx].subs = [{'observation is not a well-formed case for the model': msg}]
    return bad, nshards, secs


def shrink(mod, case, subs, workdir, rounds=6):
    """Greedy shrinking: each round evaluates all smaller candidates in one coqc call."""
    if not hasattr(mod, 'shrink_candidates'):
        return case, subs
    for _ in range(rounds):
        cands = mod.shrink_candidates(case)
        if not cands:
            break
        d = os.path.join(workdir, 'shrink')
        shutil.rmtree(d, ignore_errors=True)
        os.makedirs(d)
        try:
            bad, _, _ = evaluate(mod, cands, d)
        except Infra:
            break
        if not bad:
            break
        i, s = bad[0]
        case, subs = cands[i], s
    return case, subs


def run(prop, tier, seed):
    if tier == 'thorough':
        os.environ.setdefault('VERIF_SHARD_TIMEOUT', '3600')
    t0 = time.time()
    mod = importlib.import_module(f'props.{prop.lower()}')
    workdir = common.workdir_for(prop)
    violations = []          # (replay payload, suffix)
    known_printed = []
    try:
        status, translate = common.build(mod.TARGETS)
        broken = [t for t, ok in status.items() if not ok]
        hyg = common.hygiene()
        assumptions, raw = (None, '')
        prop_vo = f'Properties/{prop}.vo'
        if status.get(prop_vo):
            assumptions, raw = common.print_assumptions(f'Properties.{prop}', mod.THEOREMS, workdir)
            if assumptions is None:
                broken.append(f'Print Assumptions on Properties/{prop}.v')
        dirty = []
        if assumptions:
            dirty = [t for t, txt in assumptions.items() if 'Closed under the global context' not in txt
                     and not mod_allows_axioms(mod, txt)]
        obligations = len(mod.THEOREMS) + len([t for t in mod.TARGETS if t.startswith('Tie/')]) + 1
        discharged = 0
        if status.get(prop_vo) and assumptions:
            discharged += len(mod.THEOREMS) - len(dirty)
        discharged += len([t for t in mod.TARGETS if t.startswith('Tie/') and status.get(t)])
        discharged += 0 if hyg else 1
        proof_broken = bool(broken or dirty or hyg)

        try:
            cases = mod.cases(tier, seed)
        except Exception as e:  # noqa: BLE001
            # an exception that escapes the observers: if it was raised inside the library under test it is reported as
            # a violation (the harness guards every call it knows to be fallible; this is the safety net), else it is ours
            tb = traceback.extract_tb(e.__traceback__)
            repo = os.path.realpath(common.REPO)
            if any(os.path.realpath(fr.filename).startswith(repo + os.sep) for fr in tb):
                payload = {'property': prop, 'kind': 'implementation-raised-while-observing', 'seed': seed, 'tier': tier,
                           'exception': repr(e), 'traceback': traceback.format_exception(type(e), e, e.__traceback__)[-12:],
                           'note': 'the library raised at a call the harness expects to succeed on every input of this property'}
                path = common.write_replay(prop, payload)
                print(f'VIOLATION property={prop} replay={path}', flush=True)
                return 1
            raise
        bad, nshards, coq_secs = evaluate(mod, cases, workdir)
        searched_tier = tier
        if proof_broken and not bad and tier == 'quick':
            # a proof obligation or tie no longer checks: search harder for a failing input
            log(f'{prop}: obligations broken ({broken or dirty or hyg}); searching at the thorough budget')
            os.environ['VERIF_SHARD_TIMEOUT'] = str(max(3600, int(os.environ.get('VERIF_SHARD_TIMEOUT', '0') or 0)))
            cases = mod.cases('thorough', seed)
            bad, nshards, coq_secs = evaluate(mod, cases, workdir)
            searched_tier = 'thorough'

        findings = [f for f in common.known_findings() if f.get('property') == prop and f.get('status') == 'open']
        reported = set()
        # report (and shrink) the smallest disagreeing inputs first: the cheapest to shrink and to read
        bad = sorted(bad, key=lambda b: (len(cases[b[0]].term), b[0]))
        for idx, subs in bad:
            case = cases[idx]
            case, subs = shrink(mod, case, subs, workdir)
            payload = {'property': prop, 'kind': 'correspondence-disagreement', 'seed': seed, 'tier': searched_tier,
                       'input': case.replay, 'failing_items': describe(case, subs),
                       'note': 'model (proved against the property) and implementation disagree on this input'}
            if hasattr(mod, 'explain'):
                try:
                    payload['detail'] = mod.explain(case, subs)
                except Exception as e:  # noqa: BLE001
                    payload['detail'] = f'explain failed: {e!r}'
            kf = match_known(findings, case, subs, mod)
            if kf is not None:
                if kf['id'] not in reported:
                    reported.add(kf['id'])
                    known_printed.append(f"KNOWN-FINDING: property={prop} {kf['what']}")
                continue
            violations.append((payload, ''))
            if len(violations) >= 3:
                break
        # known findings that are demonstrated by a dedicated probe rather than by a disagreement
        if hasattr(mod, 'known_probe'):
            for kf in findings:
                if kf['id'] in reported:
                    continue
                res = mod.known_probe(kf)
                if res is True:
                    reported.add(kf['id'])
                    known_printed.append(f"KNOWN-FINDING: property={prop} {kf['what']}")
        if hasattr(mod, 'extra_violations'):
            for payload in mod.extra_violations(tier, seed, findings, known_printed):
                violations.append((payload, ''))
        if proof_broken and not violations:
            payload = {'property': prop, 'kind': 'proof-obligation-broken', 'seed': seed,
                       'broken_targets': broken, 'assumptions_not_closed': dirty, 'hygiene_hits': hyg,
                       'translator': {k: v for k, v in translate.items() if v != 'ok'},
                       'errors': {t: common.make_error_excerpt(t) for t in broken if t.endswith('.vo')},
                       'searched': f'{len(cases)} cases at tier {searched_tier}, no disagreement',
                       'note': 'the theorem / tie named here no longer checks against the current source; '
                               'no failing input was found by the search'}
            violations.append((payload, ' no-failing-input-found'))

        nontrivial = len({c.sig if c.sig is not None else i for i, c in enumerate(cases) if c.nontrivial})
        coverage = {
            'obligations': obligations, 'discharged': discharged,
            'checker_cmd': f'make -C coq (coqc 8.16.1) ; coqc cases_*.v with vm_compute ; Print Assumptions on {len(mod.THEOREMS)} theorems',
            'trusted_base': common.TRUSTED_BASE + getattr(mod, 'TRUSTED_EXTRA', []),
            'theorems': mod.THEOREMS,
            'print_assumptions': assumptions if assumptions else raw[-500:],
            'ties': {t: status.get(t) for t in mod.TARGETS if t.startswith('Tie/')},
            'translator': translate,
            'evaluations': sum(getattr(c, 'subs', None) and len(c.subs) or 1 for c in cases),
            'cases': len(cases), 'shards': nshards, 'coq_eval_s': round(coq_secs, 2),
            'distinct_nontrivial': nontrivial,
            'rule': mod.RULE,
            'samples': [c.replay for c in cases[:: max(1, len(cases) // 3)]][:3],
            'exhaustive': bool(getattr(mod, 'EXHAUSTIVE', {}).get(tier, False)),
            'input_distribution': mod.distribution(cases) if hasattr(mod, 'distribution') else {},
            'partial': getattr(mod, 'PARTIAL', ''),
            'known_findings_reported': known_printed,
        }
        wall = time.time() - t0
        common.write_evidence(prop, tier, seed, coverage, wall, len(violations), getattr(mod, 'ASSUMPTIONS', []))
        for line in known_printed:
            print(line)
        if violations:
            printed = set()
            for payload, suffix in violations:
                path = common.write_replay(prop, payload)
                if path not in printed:           # different cases may shrink to the same minimal input
                    printed.add(path)
                    print(f'VIOLATION property={prop} replay={path}{suffix}')
            return 1
        print(f'OK property={prop} tier={tier} cases={len(cases)} evaluations={coverage["evaluations"]} '
              f'obligations={discharged}/{obligations} wall={wall:.1f}s')
        return 0
    finally:
        shutil.rmtree(workdir, ignore_errors=True)


def mod_allows_axioms(mod, txt):
    allowed = getattr(mod, 'ALLOWED_AXIOMS', [])
    names = [ln.split(':')[0].strip() for ln in txt.splitlines()[1:] if ':' in ln and not ln.startswith(' ' * 4)]
    return bool(names) and all(n in allowed for n in names)


def describe(case, subs):
    if case.subs is None:
        return subs
    out = []
    for s in subs[:10]:
        out.append(case.subs[s] if s < len(case.subs) else {'index': s})
    return out


def match_known(findings, case, subs, mod):
    if not hasattr(mod, 'is_known'):
        return None
    for kf in findings:
        if mod.is_known(kf, case, subs):
            return kf
    return None


def replay(prop, path, seed):
    mod = importlib.import_module(f'props.{prop.lower()}')
    payload = json.load(open(path, encoding='utf-8'))
    if payload.get('kind') == 'proof-obligation-broken':
        status, _ = common.build(mod.TARGETS)
        broken = [t for t, ok in status.items() if not ok]
        print(json.dumps({'still_broken': broken}, indent=1))
        if broken:
            print(f'VIOLATION property={prop} replay={path} no-failing-input-found')
            return 1
        return 0
    workdir = common.workdir_for(prop + '-replay')
    try:
        common.build(mod.TARGETS)
        case = mod.case_from_replay(payload['input'])
        bad, _, _ = evaluate(mod, [case], workdir)
        if bad:
            print(json.dumps({'input': case.replay, 'failing_items': describe(case, bad[0][1])}, indent=1,
                             default=str, ensure_ascii=False))
            print(f'VIOLATION property={prop} replay={path}')
            return 1
        print(f'OK property={prop} replay agrees')
        return 0
    finally:
        shutil.rmtree(workdir, ignore_errors=True)


def main():
    if len(sys.argv) < 3:
        print(__doc__)
        return 2
    prop = sys.argv[1].upper()
    seed = int(os.environ.get('VERIF_SEED', '0') or 0)
    try:
        if sys.argv[2] == '--replay':
            return replay(prop, sys.argv[3], seed)
        tier = sys.argv[2]
        if tier not in ('quick', 'thorough'):
            tier = os.environ.get('VERIF_TIER', 'quick')
        return run(prop, tier, seed)
    except Infra as e:
        log(f'INFRASTRUCTURE ERROR: {e}')
        return 2
    except Exception:  # noqa: BLE001
        traceback.print_exc()
        return 2


if __name__ == '__main__':
    sys.exit(main())
