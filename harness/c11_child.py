"""Child interpreter for C11/C17: loads persisted artefacts in a FRESH process (different
PYTHONHASHSEED) and prints what it observes as JSON lines.  usage: c11_child.py <manifest.json>"""
import json
import os
import pickle
import sys

sys.path.insert(0, os.path.dirname(os.path.abspath(__file__)))
import common  # noqa: E402
sys.path.insert(0, common.REPO)

from props import persist_obs  # noqa: E402


def main():
    import concepts
    man = json.load(open(sys.argv[1], encoding='utf-8'))
    for item in man:
        kind, path = item['kind'], item['path']
        try:
            if kind == 'json':
                obj = concepts.Context.fromjson(path, raw=item.get('raw', False))
            elif kind == 'literal':
                obj = concepts.Context.fromfile(path, frmat='python-literal')
            elif kind == 'pickle-context':
                obj = pickle.load(open(path, 'rb'))
            elif kind == 'pickle-lattice':
                obj = pickle.load(open(path, 'rb'))._context if False else pickle.load(open(path, 'rb'))
            else:
                raise ValueError(kind)
            out = persist_obs.observe_reloaded(obj, item['objects'], item['properties'], lattice_object=(kind == 'pickle-lattice'))
        except Exception as e:  # noqa: BLE001
            out = {'error': repr(e)}
        print(json.dumps({'id': item['id'], 'obs': out}))


if __name__ == '__main__':
    main()
