"""Shared machinery of the checks: build/tie status, shard evaluation inside Coq,
evidence, replays, known findings.  Every check is `bin/check Cxx quick|thorough`."""
import hashlib
import json
import os
import re
import shutil
import subprocess
import sys
import time

VERIF = os.path.dirname(os.path.dirname(os.path.abspath(__file__)))
REPO = os.environ.get('CONCEPTS_REPO') or '/repo'
COQ = os.path.join(VERIF, 'coq')
BUILD = os.path.join(VERIF, '_build')
PY = '/venv/bin/python'
JOBS = int(os.environ.get('VERIF_JOBS', '16'))

HYGIENE = re.compile(r'\b(Admitted|admit|Axiom|Parameter|Conjecture|Unset Guard|bypass_check|type-in-type|'
                     r'Admit Obligations|impredicative-set|Unset Positivity|Unset Universe)\b')

TRUSTED_BASE = [
    'Coq 8.16.1 kernel and its VM (vm_compute); no native_compute; no extraction',
    'tools/py2v.py (Python-ast to Gallina translator for the kernels; fail-closed)',
    'harness/*.py (drives the real library, encodes observations as Coq literals)',
    'CPython int bit operations modelled as Coq Z (two\'s complement land/lor/lnot/shiftr)',
    'bitsets 0.8.4: line-by-line Gallina re-statement (Model/Bitsets.v) proved equal to the definitions the theorems use (Proofs/Bitsets.v); the re-statement itself, heapq as a priority queue, sorted, itertools are trusted and validated by correspondence',
]


class Infra(Exception):
    """Infrastructure failure: exit 2, never a VIOLATION."""


def log(*a):
    print(*a, file=sys.stderr, flush=True)


# ---------------------------------------------------------------- Coq literals

def z(n):
    n = int(n)
    return f'{n}' if n >= 0 else f'({n})'


def coq(x):
    """Generic serializer: bool, int -> Z, str -> list of code points (Z), list, tuple, None -> None."""
    if x is True:
        return 'true'
    if x is False:
        return 'false'
    if x is None:
        return 'None'
    if isinstance(x, int):
        return z(x)
    if isinstance(x, str):
        return '[' + '; '.join(str(ord(ch)) for ch in x) + ']'
    if isinstance(x, list):
        return '[' + '; '.join(coq(i) for i in x) + ']'
    if isinstance(x, tuple):
        if len(x) == 1:
            return coq(x[0])
        return '(' + ', '.join(coq(i) for i in x) + ')'
    if isinstance(x, Raw):
        return x.text
    raise TypeError(f'cannot serialise {x!r}')


class Raw:
    def __init__(self, text):
        self.text = text


def nat(n):
    return Raw(f'{int(n)}%nat')


def natlist(xs):
    return Raw('[' + '; '.join(str(int(i)) for i in xs) + ']%nat')


def some(x):
    return Raw(f'(Some {coq(x)})')


# ---------------------------------------------------------------- build and ties

def build(needed_targets):
    """Regenerate gen/*.v from REPO, run make, and report which needed targets are built.
    Returns (status dict target->bool, translate status dict)."""
    os.makedirs(BUILD, exist_ok=True)
    lock = open(os.path.join(VERIF, '.build.lock'), 'w')
    import fcntl
    fcntl.flock(lock, fcntl.LOCK_EX)
    try:
        r = subprocess.run(['python3', os.path.join(VERIF, 'tools', 'py2v.py'), REPO,
                            os.path.join(COQ, 'gen')], capture_output=True, text=True, timeout=120)
        if r.returncode != 0:
            raise Infra(f'translator crashed: {r.stderr[-2000:]}')
        translate = json.loads(r.stdout)
        if not os.path.exists(os.path.join(COQ, 'Makefile')):
            subprocess.run([os.path.join(VERIF, 'bin', 'setup')], check=False, timeout=3600,
                           stdout=subprocess.DEVNULL, stderr=subprocess.DEVNULL)
        else:
            # refresh the file list (new .v files) and build
            files = subprocess.run('cat _CoqProject.in; find Base Spec Model Proofs Properties Tie Run gen -name "*.v" | sort',
                                   shell=True, cwd=COQ, capture_output=True, text=True).stdout
            cp = os.path.join(COQ, '_CoqProject')
            old = open(cp).read() if os.path.exists(cp) else ''
            if old != files:
                open(cp, 'w').write(files)
                subprocess.run(['coq_makefile', '-f', '_CoqProject', '-o', 'Makefile'], cwd=COQ,
                               stdout=subprocess.DEVNULL, stderr=subprocess.DEVNULL, timeout=120)
            with open(os.path.join(BUILD, 'make.log'), 'w') as out:
                try:
                    subprocess.run(['make', '-k', f'-j{JOBS}'], cwd=COQ, stdout=out, stderr=subprocess.STDOUT,
                                   timeout=3000)
                except subprocess.TimeoutExpired:
                    raise Infra('make timed out')
        status = {}
        for t in needed_targets:
            q = subprocess.run(['make', '-q', t], cwd=COQ, stdout=subprocess.DEVNULL, stderr=subprocess.DEVNULL)
            status[t] = (q.returncode == 0 and os.path.exists(os.path.join(COQ, t)))
        return status, translate
    finally:
        fcntl.flock(lock, fcntl.LOCK_UN)
        lock.close()


def make_error_excerpt(target):
    try:
        text = open(os.path.join(BUILD, 'make.log')).read()
    except OSError:
        return ''
    src = target[:-1] if target.endswith('.vo') else target
    i = text.find(f'File "./{src}"')
    return text[i:i + 1500] if i >= 0 else ''


def hygiene():
    """grep the whole development for forbidden declarations."""
    hits = []
    for root, _, files in os.walk(COQ):
        for f in files:
            if f.endswith('.v'):
                p = os.path.join(root, f)
                for n, line in enumerate(open(p, encoding='utf-8'), 1):
                    code = re.sub(r'\(\*.*?\*\)', '', line)
                    if HYGIENE.search(code):
                        hits.append(f'{os.path.relpath(p, COQ)}:{n}: {line.strip()}')
    return hits


def print_assumptions(module, theorems, workdir):
    """Compile a tiny file printing the assumptions of each theorem; returns {thm: text}."""
    path = os.path.join(workdir, 'assumptions.v')
    with open(path, 'w') as f:
        f.write(f'From Concepts Require Import {module}.\n')
        for t in theorems:
            f.write(f'Print Assumptions {t}.\n')
    r = subprocess.run(['coqc', '-Q', COQ, 'Concepts', path], capture_output=True, text=True, timeout=300)
    if r.returncode != 0:
        return None, r.stdout + r.stderr
    chunks = re.split(r'(?=Closed under the global context|Axioms:)', r.stdout)
    chunks = [c.strip() for c in chunks if c.strip()]
    out = {}
    for t, c in zip(theorems, chunks):
        out[t] = c
    if len(chunks) != len(theorems):
        return None, r.stdout
    return out, r.stdout


# ---------------------------------------------------------------- shards

SHARD_HEAD = '''From Coq Require Import ZArith List Bool.
From Concepts Require Import Base.Res Spec.Context Model.Definition {imports} Run.Common {module}.
Import ListNotations.
Open Scope Z_scope.
Definition cases : list {module_short}.case := [
{cases}
].
Definition bad := Eval vm_compute in failing {module_short}.check cases.
Print bad.
'''


UNPARSABLE = []          # (case index, coqc message) of the last run_shards call


def _big_stack():
    """coqc parses a shard as one term: give it the largest stack the system allows"""
    import resource
    try:
        soft, hard = resource.getrlimit(resource.RLIMIT_STACK)
        resource.setrlimit(resource.RLIMIT_STACK, (hard, hard))
    except Exception:  # noqa: BLE001
        pass


def run_shards(module, case_terms, workdir, shard_size=300, max_bytes=250_000, timeout=None, imports=''):
    """Evaluate `check` on every case inside Coq.  Returns list of (case index, [sub indices])."""
    if timeout is None:
        timeout = int(os.environ.get('VERIF_SHARD_TIMEOUT', '900'))
    short = module.split('.')[-1]
    shards, cur, cur_bytes, start = [], [], 0, 0
    big = 40_000          # a case this large (a lattice of hundreds of concepts, a very wide table) is evaluated on its own
    for i, t in enumerate(case_terms):
        if cur and (len(cur) >= shard_size or cur_bytes + len(t) > max_bytes or len(t) > big or cur_bytes > big >= len(cur[-1]) and len(t) > big):
            shards.append((start, cur))
            cur, cur_bytes, start = [], 0, i
        cur.append(t)
        cur_bytes += len(t)
        if len(t) > big:
            shards.append((start, cur))
            cur, cur_bytes, start = [], 0, i + 1
    if cur:
        shards.append((start, cur))
    paths = []
    shard_terms = {}
    for k, (start, terms) in enumerate(shards):
        p = os.path.join(workdir, f'cases_{k}.v')
        with open(p, 'w') as f:
            f.write(SHARD_HEAD.format(module=module, module_short=short, imports=imports, cases=';\n'.join(terms)))
        paths.append((p, start))
        shard_terms[p] = terms
    del UNPARSABLE[:]
    procs, results = [], []
    pending = sorted(paths, key=lambda ps: -os.path.getsize(ps[0]))      # long shards first
    running = []
    t0 = time.time()
    while pending or running:
        while pending and len(running) < JOBS:
            p, start = pending.pop(0)
            # output goes to files: a shard with many disagreements prints more than a pipe buffer holds
            fo, fe = open(p + '.out', 'w'), open(p + '.err', 'w')
            pr = subprocess.Popen(['coqc', '-Q', COQ, 'Concepts', '-w', '-all', p], stdout=fo, stderr=fe, cwd=workdir,
                                  preexec_fn=_big_stack)
            fo.close()
            fe.close()
            running.append((pr, p, start, time.time()))
        still = []
        for pr, p, start, ts in running:
            rc = pr.poll()
            if rc is None:
                if time.time() - ts > timeout:
                    for other, *_ in running:
                        other.kill()
                    raise Infra(f'coqc timed out on {p}')
                still.append((pr, p, start, ts))
                continue
            with open(p + '.out', errors='replace') as f:
                out = f.read()
            with open(p + '.err', errors='replace') as f:
                err = f.read()
            if rc != 0:
                terms = shard_terms.get(p, [])
                if len(terms) > 1:
                    # one observation the model cannot even read spoils the whole shard: evaluate its cases one by one
                    for j, t in enumerate(terms):
                        q = p[:-2] + f'_{j}.v'
                        with open(q, 'w') as f:
                            f.write(SHARD_HEAD.format(module=module, module_short=short, imports=imports, cases=t))
                        shard_terms[q] = [t]
                        pending.append((q, start + j))
                    continue
                if len(terms) == 1 and 'Error' in (out + err) and 'Stack overflow' not in (out + err) and 'Out of memory' not in (out + err):
                    # a single observation that is not a well-formed case for the model: it disagrees
                    UNPARSABLE.append((start, (out + err)[-600:]))
                    results.append((start, [(0, [0])]))
                    continue
                for other, *_ in running:
                    if other.poll() is None:
                        other.kill()
                raise Infra(f'coqc failed on {p}: {(out + err)[-3000:]}')
            results.append((start, parse_bad(out)))
        running = still
        if running:
            time.sleep(0.05)
    bad = []
    for start, items in sorted(results):
        for i, subs in items:
            bad.append((start + i, subs))
    return bad, len(shards), time.time() - t0


def parse_bad(out):
    m = re.search(r'bad\s*=\s*(.*?)\s*:\s*list', out, re.S)
    if not m:
        raise Infra(f'cannot parse coqc output: {out[-2000:]}')
    body = m.group(1)
    body = body.replace('%nat', '').replace('\n', ' ')
    items = []
    for mm in re.finditer(r'\(\s*(\d+)\s*,\s*\[([^\]]*)\]\s*\)', body):
        subs = [int(x) for x in re.findall(r'\d+', mm.group(2))]
        items.append((int(mm.group(1)), subs))
    return items


# ---------------------------------------------------------------- known findings, evidence

def known_findings():
    p = os.path.join(VERIF, 'known_findings.json')
    if not os.path.exists(p):
        return []
    return json.load(open(p))['findings']


def write_replay(prop, payload):
    os.makedirs(os.path.join(VERIF, 'replays'), exist_ok=True)
    text = json.dumps(payload, indent=1, sort_keys=True, default=str, ensure_ascii=False)
    h = hashlib.sha1(text.encode()).hexdigest()[:12]
    path = os.path.join(VERIF, 'replays', f'{prop}-{h}.json')
    with open(path, 'w', encoding='utf-8') as f:
        f.write(text)
    return path


def write_evidence(prop, tier, seed, coverage, wall, violations, assumptions):
    if os.path.realpath(REPO) != '/repo':
        # a run against a scratch worktree (seeded changes) must not overwrite the evidence of /repo itself
        alt = os.path.join(BUILD, 'evidence-other-repo')
        os.makedirs(alt, exist_ok=True)
        with open(os.path.join(alt, f'{prop}.json'), 'w', encoding='utf-8') as f:
            json.dump({'property_id': prop, 'repo': REPO, 'violations': int(violations), 'coverage': coverage}, f, indent=1, default=str)
        return
    os.makedirs(os.path.join(VERIF, 'evidence'), exist_ok=True)
    ev = {'property_id': prop, 'tier': tier, 'seed': int(seed), 'level': 'proof',
          'coverage': coverage, 'assumptions': assumptions, 'wall_s': round(wall, 2),
          'violations': int(violations)}
    with open(os.path.join(VERIF, 'evidence', f'{prop}.json'), 'w', encoding='utf-8') as f:
        json.dump(ev, f, indent=1, sort_keys=True, default=str, ensure_ascii=False)
        f.write('\n')


def workdir_for(prop):
    d = os.path.join(BUILD, f'run-{prop}-{os.getpid()}')
    shutil.rmtree(d, ignore_errors=True)
    os.makedirs(d)
    return d
