"""C06 (lattice family; see latfam.py)."""
from . import latfam

globals().update(latfam.module('C06', ['C06_key_irrefl_partial', 'C06_key_trans_partial', 'C06_key_total_partial'],
    'contexts as C03, labels ordered differently from positions; observation = iteration order, index, dindex, infimum, supremum, atoms and the ordered neighbour tuples; non-trivial = two concepts of equal size and a concept with >=2 upper neighbours',
    extra_targets=['Tie/Lindig.vo', 'Tie/Matrices.vo'], partial='enumeration order decided by the correspondence'))
