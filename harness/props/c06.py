"""C06 (lattice family; see latfam.py)."""
from . import latfam, util

globals().update(latfam.module('C06', util.theorems('C06'),
    'contexts as C03, labels ordered differently from positions; observation = iteration order, index, dindex, infimum, supremum, atoms and the ordered neighbour tuples; non-trivial = two concepts of equal size and a concept with >=2 upper neighbours',
    extra_targets=['Tie/Lindig.vo', 'Tie/Matrices.vo'], partial='', exh=(9, 10)))
