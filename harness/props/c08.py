"""C08 — order and logical-relation predicates on concepts match their extents."""
import random

import gen
from check import Case
from common import coq
from . import util

TARGETS = ['Properties/C08.vo', 'Tie/Members.vo', 'Run/ObsC08.vo']
THEOREMS = ['C08_implies', 'C08_subsumes', 'C08_properly_implies', 'C08_properly_subsumes',
            'C08_incompatible_with', 'C08_complement_of', 'C08_subcontrary_with', 'C08_orthogonal_to',
            'C08_order_by_intents', 'C08_refl', 'C08_trans', 'C08_antisym']
RUN_MODULE = 'Run.ObsC08'
RULE = ('every context of EXH(k) (all boolean tables with rows*cols<=k; k=9 quick, 12 thorough) + FAM + WIDE + RND; '
        'for each, all ordered pairs of concepts (sampled 400 pairs beyond 40 concepts); observation = the 8 named '
        'predicates and the 4 operators; non-trivial = context with a pair that is incomparable, or equal, or '
        'involving an empty extent; distinct by (nG, nM, rows)')
from .latfam import INDIRECT_RULE  # noqa: E402
RULE = RULE + INDIRECT_RULE
EXHAUSTIVE = {'quick': False, 'thorough': False}


def observe(cx, seed, impl=None):
    if isinstance(impl, Exception):
        return Case(f'({cx.nG}%nat, [(0, 0, -999)])', cx.to_json(), False, [{'Context() raised': repr(impl)}], sig=cx.key())
    try:
        if isinstance(impl, tuple):
            ctx, lattice = impl
        else:
            ctx = impl if impl is not None else util.make_context(cx)
            lattice = ctx.lattice
        concepts = list(lattice)
    except Exception as e:  # noqa: BLE001  (a crash while building the lattice is a disagreement, not a harness error)
        return Case(f'({cx.nG}%nat, [(0, 0, -999)])', cx.to_json(), False, [{'building the lattice raised': repr(e)}], sig=cx.key())
    n = len(concepts)
    r = random.Random(seed * 1000003 + hash(cx.key()) % 1000003)
    if n <= 40:
        pairs = [(i, j) for i in range(n) for j in range(n)]
    else:
        pairs = [(r.randrange(n), r.randrange(n)) for _ in range(400)] + [(i, i) for i in range(0, n, 97)]
    items, subs, nontrivial = [], [], False
    for i, j in pairs:
        x, y = concepts[i], concepts[j]
        a = util.bits_of(x.extent, cx.objects)
        b = util.bits_of(y.extent, cx.objects)
        vals = []
        try:
            named = [x.implies(y), x.subsumes(y), x.properly_implies(y), x.properly_subsumes(y),
                     x.incompatible_with(y), x.complement_of(y), x.subcontrary_with(y), x.orthogonal_to(y)]
            ops = [x <= y, x >= y, x < y, x > y]
            vals = [bool(v) for v in named]
            packed = sum(1 << k for k, v in enumerate(vals) if v)
            if [bool(v) for v in ops] != vals[:4]:
                packed = -1       # operators disagree with the named methods
            for v in named[:6] + [named[7]] + ops:
                if not isinstance(v, bool):
                    packed = -2   # these are documented to return bool
        except Exception as e:  # noqa: BLE001
            packed = -100 - util.tag_of(e)
        items.append((a, b, packed))
        subs.append({'x_extent': list(x.extent), 'y_extent': list(y.extent), 'observed_packed': packed})
        if a == b or a == 0 or b == 0 or (a & b != a and a & b != b):
            nontrivial = True
    term = f'({cx.nG}%nat, {coq(items)})'
    return Case(term, cx.to_json(), nontrivial, subs, sig=cx.key())


def cases(tier, seed):
    ctxs = util.contexts_for(tier, seed, rnd_quick=200, rnd_thorough=2000)
    impls = util.prebuild(ctxs)
    out = [observe(cx, seed, impl) for cx, impl in zip(ctxs, impls)]
    from . import latfam
    for cx in latfam.indirect_bases(tier, seed):
        for tag, impl in latfam.indirect_impls(cx, seed):
            try:
                c = observe(cx, seed, impl)
            except Exception as e:  # noqa: BLE001
                c = observe(cx, seed, e)
            c.replay = dict(c.replay, obtained=tag)
            c.sig = (cx.key(), tag)
            out.append(c)
    return out


def case_from_replay(inp):
    cx = gen.Ctx.from_json(inp)
    if inp.get('obtained'):
        from . import latfam
        for tag, impl in latfam.indirect_impls(cx, 0):
            if tag == inp['obtained']:
                return observe(cx, 0, impl)
    return observe(cx, 0)


def shrink_ctx(cx):
    """Smaller contexts: drop one row / one column; for big tables drop blocks (halves, quarters, ...) first and
    only a sample of single rows / columns, so that a round stays cheap."""
    out = []

    def without_rows(idx):
        keep = [g for g in range(cx.nG) if g not in idx]
        if not keep or len(keep) == cx.nG:
            return
        c2 = gen.Ctx([cx.rows[g] for g in keep], cx.nM, cx.tag)
        c2.objects = [cx.objects[g] for g in keep]
        c2.properties = cx.properties
        out.append(c2)

    def without_cols(idx):
        keep = [m for m in range(cx.nM) if m not in idx]
        if not keep or len(keep) == cx.nM:
            return
        rows = [sum(((r >> m) & 1) << k for k, m in enumerate(keep)) for r in cx.rows]
        c2 = gen.Ctx(rows, len(keep), cx.tag)
        c2.objects = cx.objects
        c2.properties = [cx.properties[m] for m in keep]
        out.append(c2)

    def blocks(n):
        res = []
        size = n // 2
        while size >= 2:
            for start in range(0, n, size):
                res.append(set(range(start, min(n, start + size))))
            size //= 2
        return res[:12]
    if cx.nG > 24:
        for b in blocks(cx.nG):
            without_rows(b)
    if cx.nM > 24:
        for b in blocks(cx.nM):
            without_cols(b)
    rows_single = range(cx.nG) if cx.nG <= 24 else sorted(set(list(range(6)) + list(range(cx.nG - 6, cx.nG))))
    cols_single = range(cx.nM) if cx.nM <= 24 else sorted(set(list(range(6)) + list(range(cx.nM - 6, cx.nM))))
    for g in rows_single:
        without_rows({g})
    for m in cols_single:
        without_cols({m})
    return out


def shrink_candidates(case):
    return [observe(c, 0) for c in shrink_ctx(gen.Ctx.from_json(case.replay))]


distribution = util.distribution
