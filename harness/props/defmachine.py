"""Driving concepts.Definition as the machine of Model/Definition.v: histories of operations over a
store of definitions; after each step every live handle is observed."""
import itertools
import random

from common import coq, nat, natlist, Raw
from . import util

NAMES = ['ob-a', 'ob-b', 'ö c', 'pr x', 'pr-y', 'π z', 'n6', 'n7', 'n8', 'n9']   # token = position


def tok(name):
    return NAMES.index(name) if name in NAMES else 7777


def names_of(tokens):
    return [NAMES[t] for t in tokens]


def opt_list(l):
    return Raw('None') if l is None else Raw(f'(Some {natlist(l).text})')


def bools_term(bools):
    return Raw('[' + '; '.join('[' + '; '.join('true' if b else 'false' for b in row) + ']' for row in bools) + ']')


class Op:
    """kind + arguments (tokens); knows its Coq term and how to apply itself to the implementation."""

    def __init__(self, kind, *args):
        self.kind, self.args = kind, args

    def term(self):
        k, a = self.kind, self.args
        n = lambda x: f'{x}%nat'                        # noqa: E731
        b = lambda x: 'true' if x else 'false'          # noqa: E731
        if k == 'OSetItem':
            return f'OSetItem {n(a[0])} {n(a[1])} {n(a[2])} {b(a[3])}'
        if k == 'OSetItemInt':
            return f'OSetItemInt {n(a[0])}'
        if k in ('ORenameObject', 'ORenameProperty'):
            return f'{k} {n(a[0])} {n(a[1])} {n(a[2])}'
        if k in ('OMoveObject', 'OMoveProperty'):
            return f'{k} {n(a[0])} {n(a[1])} ({a[2]})'
        if k in ('OAddObject', 'OAddProperty', 'OSetObject', 'OSetProperty'):
            return f'{k} {n(a[0])} {n(a[1])} {natlist(a[2]).text}'
        if k in ('ORemoveObject', 'ORemoveProperty'):
            return f'{k} {n(a[0])} {n(a[1])}'
        if k in ('ORemoveEmptyObjects', 'ORemoveEmptyProperties', 'DCopy', 'DTransposed', 'DInverted', 'DRebuild'):
            return f'{k} {n(a[0])}'
        if k in ('OUnionUpdate', 'OIntersectionUpdate', 'DUnion', 'DIntersection'):
            return f'{k} {n(a[0])} {n(a[1])} {b(a[2])}'
        if k == 'DTake':
            return f'DTake {n(a[0])} {opt_list(a[1]).text} {opt_list(a[2]).text} {b(a[3])}'
        if k == 'DNew':
            return f'DNew {natlist(a[0]).text} {natlist(a[1]).text} {bools_term(a[2]).text}'
        raise ValueError(k)

    def describe(self):
        def nm(x):
            if isinstance(x, (list, tuple)) and x and isinstance(x[0], (list, tuple)):
                return [list(map(bool, r)) for r in x]
            if isinstance(x, (list, tuple)):
                return names_of(x)
            return x
        k, a = self.kind, self.args
        if k == 'DNew':
            return {'op': k, 'objects': names_of(a[0]), 'properties': names_of(a[1]), 'bools': [list(map(int, r)) for r in a[2]]}
        return {'op': k, 'args': [a[0]] + [nm(x) if isinstance(x, (list, tuple)) else (NAMES[x] if isinstance(x, int) and not isinstance(x, bool) and i in self.name_positions() else x)
                                            for i, x in enumerate(a[1:], 1)]}

    def name_positions(self):
        k = self.kind
        if k == 'OSetItem':
            return (1, 2)
        if k in ('ORenameObject', 'ORenameProperty'):
            return (1, 2)
        if k in ('OMoveObject', 'OMoveProperty', 'OAddObject', 'OAddProperty', 'OSetObject', 'OSetProperty',
                 'ORemoveObject', 'ORemoveProperty'):
            return (1,)
        return ()

    def apply(self, store, variant=0):
        """Apply to the implementation store (list of Definition). Returns the returned names (or [])."""
        import concepts
        k, a = self.kind, self.args
        N = NAMES
        if k == 'DNew':
            store.append(concepts.Definition(names_of(a[0]), names_of(a[1]), [tuple(r) for r in a[2]]))
            return []
        if k == 'OSetItemInt' and a[0] >= len(store):
            raise ValueError('no such handle (the model rejects the integer key before looking at the handle)')
        d = store[a[0]]
        if k == 'OSetItem':
            d[N[a[1]], N[a[2]]] = a[3]
        elif k == 'OSetItemInt':
            d[0] = True
        elif k == 'ORenameObject':
            d.rename_object(N[a[1]], N[a[2]])
        elif k == 'ORenameProperty':
            d.rename_property(N[a[1]], N[a[2]])
        elif k == 'OMoveObject':
            d.move_object(N[a[1]], a[2])
        elif k == 'OMoveProperty':
            d.move_property(N[a[1]], a[2])
        elif k == 'OAddObject':
            d.add_object(N[a[1]], names_of(a[2]))
        elif k == 'OAddProperty':
            d.add_property(N[a[1]], names_of(a[2]))
        elif k == 'ORemoveObject':
            d.remove_object(N[a[1]])
        elif k == 'ORemoveProperty':
            d.remove_property(N[a[1]])
        elif k == 'ORemoveEmptyObjects':
            return [tok(x) for x in d.remove_empty_objects()]
        elif k == 'ORemoveEmptyProperties':
            return [tok(x) for x in d.remove_empty_properties()]
        elif k == 'OSetObject':
            d.set_object(N[a[1]], names_of(a[2]))
        elif k == 'OSetProperty':
            d.set_property(N[a[1]], names_of(a[2]))
        elif k == 'OUnionUpdate':
            if variant % 2 and not a[2]:
                d |= store[a[1]]
                store[a[0]] = d
            else:
                d.union_update(store[a[1]], ignore_conflicts=a[2])
        elif k == 'OIntersectionUpdate':
            if variant % 2 and not a[2]:
                d &= store[a[1]]
                store[a[0]] = d
            else:
                d.intersection_update(store[a[1]], ignore_conflicts=a[2])
        elif k == 'DCopy':
            store.append(d.copy())
        elif k == 'DTransposed':
            store.append(-d if variant % 2 else d.transposed())
        elif k == 'DInverted':
            store.append(~d if variant % 2 else d.inverted())
        elif k == 'DUnion':
            store.append((d | store[a[1]]) if (variant % 2 and not a[2]) else d.union(store[a[1]], ignore_conflicts=a[2]))
        elif k == 'DIntersection':
            store.append((d & store[a[1]]) if (variant % 2 and not a[2]) else d.intersection(store[a[1]], ignore_conflicts=a[2]))
        elif k == 'DTake':
            objs = None if a[1] is None else names_of(a[1])
            props = None if a[2] is None else names_of(a[2])
            store.append(d.take(objs, props, reorder=a[3]))
        elif k == 'DRebuild':
            if variant % 2 and d.objects and d.properties and not set(d.objects) & set(d.properties):
                store.append(concepts.Context(*d).definition())
            else:
                store.append(concepts.Definition(*d))
        else:
            raise ValueError(k)
        return []


def observe_handle(d):
    import concepts
    objs = [tok(x) for x in d.objects]
    props = [tok(x) for x in d.properties]
    bools = d.bools
    fresh = bool(d == concepts.Definition(*d)) and not (d != concepts.Definition(*d))
    shape_ok = (isinstance(d.objects, tuple) and isinstance(d.properties, tuple) and len(bools) == len(objs)
                and all(isinstance(r, tuple) and len(r) == len(props) and all(isinstance(b, bool) for b in r) for r in bools)
                and d.shape == (len(objs), len(props)) and list(d) == [d.objects, d.properties, bools])
    if not shape_ok:
        objs = objs + [7777]
    return (natlist(objs), natlist(props), bools_term(bools), fresh)


def run_history(ops, variant=0):
    """Run on the implementation. Returns (terms, subs): per step the Coq observation and a description."""
    store = []
    steps, subs = [], []
    for op in ops:
        try:
            names = op.apply(store, variant)
            tag = 0
        except Exception as e:  # noqa: BLE001
            names, tag = [], util.tag_of(e)
        handles = []
        for d in store:
            try:
                handles.append(observe_handle(d))
            except Exception as e:  # noqa: BLE001
                handles.append((natlist([7777]), natlist([]), bools_term([]), False))
        steps.append(f'({op.term()}, ({tag}, {natlist(names).text}, {coq(handles)}))')
        subs.append({'step': op.describe(), 'tag': tag, 'returned': names_of(names),
                     'handles': [[h[0].text, h[1].text, h[2].text, h[3]] for h in handles]})
    return '[' + ';\n '.join(steps) + ']', subs


# ---------------------------------------------------------------- generators

def arg_lists(universe, maxlen=2):
    out = [[]]
    for k in range(1, maxlen + 1):
        out += [list(t) for t in itertools.product(universe, repeat=k)]
    return out


def single_ops(h, objs, props, other=None, indexes=(-3, -2, -1, 0, 1, 2, 3)):
    """Every operation instance on handle h over the universes objs/props (tokens)."""
    allnames = objs + props
    ops = []
    for o in objs:
        for p in props:
            ops += [Op('OSetItem', h, o, p, True), Op('OSetItem', h, o, p, False)]
    ops.append(Op('OSetItemInt', h))
    for a in objs:
        for b in objs:
            ops.append(Op('ORenameObject', h, a, b))
    for a in props:
        for b in props:
            ops.append(Op('ORenameProperty', h, a, b))
    for o in objs:
        for i in indexes:
            ops.append(Op('OMoveObject', h, o, i))
    for p in props:
        for i in indexes:
            ops.append(Op('OMoveProperty', h, p, i))
    pl, ol = arg_lists(props), arg_lists(objs)
    for o in objs:
        for l in pl:
            ops += [Op('OAddObject', h, o, l), Op('OSetObject', h, o, l)]
        ops.append(Op('ORemoveObject', h, o))
    for p in props:
        for l in ol:
            ops += [Op('OAddProperty', h, p, l), Op('OSetProperty', h, p, l)]
        ops.append(Op('ORemoveProperty', h, p))
    ops += [Op('ORemoveEmptyObjects', h), Op('ORemoveEmptyProperties', h)]
    if other is not None:
        for ig in (False, True):
            ops += [Op('OUnionUpdate', h, other, ig), Op('OIntersectionUpdate', h, other, ig)]
    return ops


def derive_ops(h, objs, props, other=None):
    ops = [Op('DCopy', h), Op('DTransposed', h), Op('DInverted', h), Op('DRebuild', h)]
    subs_o = [None, [], objs[:1], objs[::-1], objs[:1] + objs[:1], [objs[-1], 9]]
    subs_p = [None, [], props[-1:], props[::-1], [props[0], 9]]
    for so in subs_o:
        for sp in subs_p:
            for re in (False, True):
                ops.append(Op('DTake', h, so, sp, re))
    if other is not None:
        for ig in (False, True):
            ops += [Op('DUnion', h, other, ig), Op('DIntersection', h, other, ig)]
    return ops


def all_tables(objs, props):
    """Every definition whose objects / properties are ordered subsets of the universes, with every fill."""
    out = []
    for ko in range(len(objs) + 1):
        for os_ in itertools.permutations(objs, ko):
            for kp in range(len(props) + 1):
                for ps in itertools.permutations(props, kp):
                    n = ko * kp
                    for bits in range(1 << n):
                        bools = [[bool(bits >> (i * kp + j) & 1) for j in range(kp)] for i in range(ko)]
                        out.append((list(os_), list(ps), bools))
    return out


def random_history(r, objs, props, length, nhandles=2):
    ops = []
    live = 0
    for _ in range(nhandles):
        ko, kp = r.randint(0, len(objs)), r.randint(0, len(props))
        os_ = r.sample(objs, ko)
        ps = r.sample(props, kp)
        bools = [[r.random() < 0.5 for _ in ps] for _ in os_]
        ops.append(Op('DNew', os_, ps, bools))
        live += 1
    for _ in range(length):
        h = r.randrange(live)
        other = r.randrange(live)
        if r.random() < 0.15:
            op = r.choice(derive_ops(h, objs, props, other))
            live += 1          # counted optimistically; a failing derive leaves fewer handles
            ops.append(op)
            # handles beyond the real store are avoided by re-clamping below
        else:
            ops.append(r.choice(single_ops(h, objs, props, other)))
    return ops


def clamp_history(ops):
    """Make handle numbers valid w.r.t. the number of definitions that will actually exist
    (a failed derive creates none): computed by running the implementation-independent count
    on the *model-agnostic* rule 'a derive may fail', so we simply re-run on the implementation."""
    return ops
