"""C01 — derivation operators are exactly the Galois connection of the table."""
import random

import gen
from check import Case
from common import coq, natlist, Raw
from . import util

TARGETS = ['Properties/C01.vo', 'Tie/Matrices.vo', 'Run/ObsC01.vo']
THEOREMS = ['C01_prime_objects', 'C01_prime_properties', 'C01_intension', 'C01_extension',
            'C01_empty_objects', 'C01_empty_properties', 'C01_set_only', 'C01_raw_agrees',
            'C01_unknown_label']
RUN_MODULE = 'Run.ObsC01'
SHARD_SIZE = 150
RULE = ('contexts: EXH(k) (k=9 quick / 10 thorough) + FAM + WIDE (31..130 wide) + RND; queries per context: all '
        'subsets of each side when it has <= 6 (quick) / 8 (thorough) members, else structured + 64 random, plus '
        'duplicated/shuffled argument lists and an unknown label; observation = intension/extension in label and raw '
        'form, Context.bools/objects/properties; non-trivial = context having a query whose result is neither empty '
        'nor full, or wider than 64; distinct by (nG, nM, rows)')
from .latfam import INDIRECT_RULE  # noqa: E402
RULE = RULE + INDIRECT_RULE
EXHAUSTIVE = {'quick': False, 'thorough': False}


def observe(cx, tier, seed, impl=None):
    if isinstance(impl, Exception):
        return Case(f'({cx.coq()}, [-1], [])', cx.to_json(), False, [{'Context() raised': repr(impl)}], sig=cx.key())
    ctx = impl if impl is not None else util.make_context(cx)
    r = random.Random(seed * 1000003 + hash(cx.key()) % 1000003)
    limit = 6 if tier == 'quick' else 8
    queries, subs = [], []
    nontrivial = cx.nG > 64 or cx.nM > 64
    for side, n, labels, other_labels, fn in ((True, cx.nG, cx.objects, cx.properties, ctx.intension),
                                              (False, cx.nM, cx.properties, cx.objects, ctx.extension)):
        arglists = [list(t) for t in gen.subsets(n, limit, r)]
        if n > 1000:
            # single members and sparse sets: the scan jumps over the unset positions, so these are cheap, and the result
            # is sensitive to an index that is off by one (dense sets cost minutes inside Coq and intersect to nothing)
            arglists = ([[], [0], [n - 1], list(range(0, n, 97)), sorted(r.sample(range(n), 6))]
                        + [[k] for k in range(2950, 2975)] + [[k, k + 7] for k in (2955, 2957, 2958, 2960)]
                        + [[k] for k in sorted(r.sample(range(1000, n), 12))])
        extra = []
        for t in arglists[:: max(1, len(arglists) // 6)]:
            if t:
                d = t + [t[0]] + t[::-1]      # duplicates and reversed order
                r.shuffle(d)
                extra.append(d)
        extra.append([0, n + 3])              # an unknown label
        extra.append([n])                     # only an unknown label
        for qi, args in enumerate(arglists + extra):
            labs = [labels[i] if i < n else f'?unknown{i}' for i in args]
            # the argument is any iterable: lists, tuples, one-shot iterators and generators in turn
            wrap = [list, tuple, iter, lambda l: (x for x in l), as_str_if_chars][qi % 5]
            try:
                res = fn(wrap(labs))
                raw = fn(wrap(labs), raw=True)
                obs = (0, natlist(util.idx(res, other_labels)), int(raw))
                if not isinstance(res, tuple) or raw.members() != res:
                    obs = (8, natlist([]), 0)
                if 0 < len(res) < len(other_labels):
                    nontrivial = True
            except Exception as e:  # noqa: BLE001
                obs = (util.tag_of(e), natlist([]), 0)
            queries.append((side, natlist(args), obs))
            subs.append({'call': 'intension' if side else 'extension', 'args': labs, 'observed': str(obs[0:1]) + str(obs[1].text) + str(obs[2])})
    obs_rows = [sum(1 << m for m, b in enumerate(row) if b) for row in ctx.bools]
    ok_labels = (ctx.objects == tuple(cx.objects) and ctx.properties == tuple(cx.properties)
                 and all(isinstance(b, tuple) and all(isinstance(v, bool) for v in b) for b in ctx.bools)
                 and [len(b) for b in ctx.bools] == [cx.nM] * cx.nG)
    if not ok_labels:
        obs_rows = obs_rows + [-1]
    term = f'({cx.coq()}, {coq(obs_rows)}, {coq(queries)})'
    return Case(term, cx.to_json(), nontrivial, subs, sig=cx.key())


def as_str_if_chars(labs):
    """a plain str is an iterable of one-character labels"""
    return ''.join(labs) if all(isinstance(x, str) and len(x) == 1 for x in labs) else list(labs)


def cases(tier, seed):
    ctxs = util.contexts_for(tier, seed, exh_thorough=10, rnd_quick=200, rnd_thorough=1500)
    # thorough tier: beyond 3000 members on one side (where a float logarithm of a power of two is no longer exact;
    # about 4 minutes of evaluation inside Coq for each of the two tables: building the 3 200-bit columns bit by bit)
    n = 3200
    if tier == 'thorough':
        ctxs.append(gen.Ctx([(g * 7 + 3) % 15 + 1 for g in range(n)], 4, 'huge:3200x4', gen.label_scheme(0)))
        ctxs.append(gen.Ctx([sum(1 << m for m in range(n) if (m + k) % (k + 2) == 0) | (1 << (n - 1)) for k in range(4)], n, 'huge:4x3200', gen.label_scheme(0)))
    impls = util.prebuild(ctxs)
    out = [observe(cx, tier, seed, impl) for cx, impl in zip(ctxs, impls)]
    from . import latfam
    out += latfam.indirect_context_cases(tier, seed, lambda cx, ctx: observe(cx, tier, seed, ctx),
                                         lambda cx, e: Case(f'({cx.coq()}, [-2], [])', cx.to_json(), False, [{'constructor raised': repr(e)}]))
    return out


def case_from_replay(inp):
    if inp.get('obtained'):
        from . import latfam
        c = latfam.indirect_replay(inp, lambda cx, ctx: observe(cx, 'quick', 0, ctx))
        if c is not None:
            return c
    return observe(gen.Ctx.from_json(inp), 'quick', 0)


def shrink_candidates(case):
    from .c08 import shrink_ctx
    return [observe(c, 'quick', 0) for c in shrink_ctx(gen.Ctx.from_json(case.replay))]


distribution = util.distribution
