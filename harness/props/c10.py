"""C10 (lattice family; see latfam.py)."""
from . import latfam, util

globals().update(latfam.module('C10', util.theorems('C10'),
    'contexts as C03 (duplicate rows/columns, full rows, empty/full columns in FAM and EXH); observation = objects, properties, atoms of every concept and the label part of str(concept)/str(lattice); non-trivial = a concept with >=2 labels or a label on bottom/top',
    extra_targets=['Tie/Matrices.vo'], partial=''))
