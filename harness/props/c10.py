"""C10 (lattice family; see latfam.py)."""
from . import latfam

globals().update(latfam.module('C10', ['C10_object_concept_partial', 'C10_attribute_concept_partial'],
    'contexts as C03 (duplicate rows/columns, full rows, empty/full columns in FAM and EXH); observation = objects, properties, atoms of every concept and the label part of str(concept)/str(lattice); non-trivial = a concept with >=2 labels or a label on bottom/top',
    extra_targets=['Tie/Matrices.vo'], partial='per-concept tuples decided by the correspondence'))
