"""C14 — derived definitions are correct and unaliased; Context <-> Definition are inverse."""
import random

from check import Case
from . import util
from . import defmachine as dm
from . import c13
from common import coq, nat, natlist, Raw

TARGETS = ['Properties/C14.vo', 'Run/ObsC14.vo']
THEOREMS = util.theorems('C14')
RUN_MODULE = 'Run.ObsC14'
SHARD_SIZE = 400
RULE = ('pairs of definitions over ordered subsets of 2 object and 2 property names (overlapping and disjoint name sets, conflicting '
        'and compatible cells) x every derive operation (copy, union, intersection with/without ignore_conflicts, take with None / '
        'empty / reordered / repeated / unknown names in both order modes, transposed, inverted, rebuild through Definition(*d) or '
        'Context(*d).definition()) via methods and via operators x sampled single follow-up edits on source, other operand or result; '
        'every live handle is observed after every step (an aliased result would change with its source). shape and fill_ratio of Definition(*t), Context(*d) and Context(*d).definition() against the model for every table over ordered subsets of the names and every fill up to 3x3. Glue cases: Context/Definition '
        'agreement of shape, fill_ratio, table string, crc32 and equality. non-trivial = operands share a cell and differ on another, or the '
        'follow-up edit touches a shared name; distinct by operation sequence')
EXHAUSTIVE = {'quick': False, 'thorough': False}

OBJS, PROPS = [0, 1], [3, 4]
OBJS3, PROPS3 = [0, 1, 2], [3, 4, 5]


def mk(ops, variant=0, nontrivial=False):
    """a history of the Definition machine, as the left summand of Run.ObsC14.case"""
    c = c13.mk(ops, variant, nontrivial)
    c.term = f'(inl {c.term})'
    return c


def stats_case(t):
    """shape and fill_ratio of Definition(*t), of Context(*d) and of Context(*d).definition(): right summand"""
    import concepts
    objs, props, bools = t

    def frac(fn):
        try:
            x = fn()
            return Raw(f'(Some ({x.numerator}, {x.denominator}))')
        except ZeroDivisionError:
            return Raw('None')
    subs = {}
    try:
        d = concepts.Definition(dm.names_of(objs), dm.names_of(props), [tuple(x) for x in bools])
        dshape = (nat(d.shape.objects), nat(d.shape.properties))
        dratio = frac(lambda: d.fill_ratio)
        try:
            c = concepts.Context(*d)
            back = c.definition()
            agree = tuple(back.shape) == tuple(c.shape) and (back.fill_ratio == c.fill_ratio)
            cshape = (nat(c.shape.objects if agree else 7777), nat(c.shape.properties))
            cpart = Raw(f'(Some ({coq(cshape)}, {frac(lambda: c.fill_ratio).text}))')
        except ValueError:
            cpart = Raw('None')
        obs = Raw(f'({coq(dshape)}, {dratio.text}, {cpart.text})')
        subs = {'definition shape': tuple(d.shape), 'definition fill_ratio': dratio.text, 'context part': cpart.text}
    except Exception as e:  # noqa: BLE001
        obs = Raw('((7777%nat, 7777%nat), None, None)')
        subs = {'raised': repr(e)}
    b_t = '[' + '; '.join('[' + '; '.join('true' if x else 'false' for x in row) + ']' for row in bools) + ']'
    term = f'(inr ({natlist(objs).text}, {natlist(props).text}, {b_t}, {obs.text}))'
    return Case(term, {'stats': True, 'objects': objs, 'properties': props, 'bools': [[int(x) for x in row] for row in bools]},
                len(objs) * len(props) not in (0, 1, 2, 4), [subs], sig=('stats', repr(t)))


def case_from_replay(inp):
    if inp.get('stats'):
        return stats_case((inp['objects'], inp['properties'], [[bool(x) for x in row] for row in inp['bools']]))
    c = c13.case_from_replay(inp)
    c.term = f'(inl {c.term})'
    return c


def shrink_candidates(case):
    if isinstance(case.replay, dict) and case.replay.get('stats'):
        return []
    out = c13.shrink_candidates(case)
    for c in out:
        c.term = f'(inl {c.term})'
    return out


def glue_case(t, r):
    """Context(*d) and d agree on shape, fill_ratio, table string, crc32; equality of contexts iff triples equal."""
    import concepts
    objs, props, bools = t
    ok = True
    try:
        d = concepts.Definition(dm.names_of(objs), dm.names_of(props), [tuple(x) for x in bools])
        c = concepts.Context(*d)
        d2 = c.definition()
        import fractions
        import zlib
        n_true = sum(1 for row in bools for x in row if x)
        size = len(objs) * len(props)
        want_ratio = fractions.Fraction(n_true, size)
        text = c.tostring()

        def same_ratio(x):
            return (isinstance(x, fractions.Fraction) and (x.numerator, x.denominator) == (want_ratio.numerator, want_ratio.denominator))

        def crc(enc):
            return format(zlib.crc32(text.encode(enc)) & 0xffffffff, 'x')

        def crc_agree(enc):
            try:
                want = crc(enc)
            except UnicodeEncodeError:
                for x in (c, d):
                    try:
                        x.crc32(encoding=enc)
                        return False
                    except UnicodeEncodeError:
                        pass
                return True
            return c.crc32(encoding=enc) == d.crc32(encoding=enc) == want
        ok = (d2 == d and d == d2 and (d2.objects, d2.properties, d2.bools) == (d.objects, d.properties, d.bools)
              and tuple(c.shape) == tuple(d.shape) == (len(objs), len(props)) and c.shape.size == d.shape.size == size
              and c.shape.objects == len(objs) and d.shape.properties == len(props)
              and same_ratio(c.fill_ratio) and same_ratio(d.fill_ratio)
              and text == d.tostring() and str(d) == text
              and c.crc32() == d.crc32() == crc('utf-8') and concepts.Context(*d2) == c and not (concepts.Context(*d2) != c)
              and all(crc_agree(enc) for enc in ('utf-16', 'utf-8', 'latin-1', 'utf-16'))
              and True)
        # equality of contexts is equality of triples
        e = d.copy()
        o0, p0 = d.objects[0], d.properties[0]
        e[o0, p0] = not d[o0, p0]
        c3 = concepts.Context(*e)
        ok = ok and (c3 != c) and not (c3 == c) and c.copy() == c and c.copy() is not c
        f = d.copy()
        f.move_object(d.objects[-1], 0)
        ok = ok and ((concepts.Context(*f) == c) == (f.objects == d.objects))
        g = d.copy()
        g.move_property(d.properties[-1], 0)
        cg = concepts.Context(*g)
        ok = ok and ((cg == c) == (g.properties == d.properties)) and ((cg != c) == (g.properties != d.properties))
        if len(props) >= 2:
            g2 = d.copy()
            g2.rename_property(d.properties[0], 'renamed property')
            ok = ok and concepts.Context(*g2) != c and not (concepts.Context(*g2) == c)
        # shape and fill ratio follow edits made after they were read
        h = d.copy()
        ok = ok and tuple(h.shape) == (len(objs), len(props)) and same_ratio(h.fill_ratio)
        h.add_object('a new object', [d.properties[0]])
        ok = ok and tuple(h.shape) == (len(objs) + 1, len(props)) and h.shape.size == (len(objs) + 1) * len(props)
        ok = ok and h.fill_ratio == fractions.Fraction(n_true + 1, (len(objs) + 1) * len(props))
        ch = concepts.Context(*h)
        ok = ok and tuple(ch.shape) == tuple(h.shape) and ch.fill_ratio == h.fill_ratio and ch.crc32() == h.crc32() and ch.tostring() == h.tostring()
        h.add_property('a new property')
        ok = ok and tuple(h.shape) == (len(objs) + 1, len(props) + 1) and h.fill_ratio == fractions.Fraction(n_true + 1, (len(objs) + 1) * (len(props) + 1))
        h.remove_object('a new object')
        h.remove_property('a new property')
        ok = ok and tuple(h.shape) == tuple(d.shape) and same_ratio(h.fill_ratio) and h == d and h.crc32() == d.crc32() and h.tostring() == text
    except Exception as ex:  # noqa: BLE001
        ok = False
    case = mk([dm.Op('DNew', objs, props, bools)], 0, False)
    if not ok:
        case.term = case.term.replace('true)]))', 'false)]))')
        if 'false)]))' not in case.term:
            case.term = '(inl [(DNew [] [] [], (9, []%nat, []))])'
        case.subs = [{'glue': 'Context/Definition agreement failed for this table'}]
    return case


def cases(tier, seed):
    r = random.Random(seed + 17)
    tables = dm.all_tables(OBJS, PROPS)
    out = []
    npairs = 260 if tier == 'quick' else 2500
    follow = 3 if tier == 'quick' else 6
    edits = {h: dm.single_ops(h, OBJS3, PROPS3, other=(1 if h != 1 else 0)) for h in (0, 1, 2)}
    for i in range(npairs):
        a, b = r.choice(tables), r.choice(tables)
        start = [dm.Op('DNew', *a), dm.Op('DNew', *b)]
        shared = bool(set(a[0]) & set(b[0]) and set(a[1]) & set(b[1]))
        for dop in dm.derive_ops(0, OBJS3, PROPS3, other=1):
            if dop.kind == 'DTake' and r.random() < 0.6:
                continue
            out.append(mk(start + [dop], i, shared))
            for _ in range(follow):
                h = r.choice((0, 0, 1, 2, 2))
                out.append(mk(start + [dop, r.choice(edits[h])], i + 1, True))
    for t in tables:
        if t[0] and t[1]:
            out.append(glue_case(t, r))
    # shape / fill_ratio against the model: every table over ordered subsets of the names (empty ones included), and
    # below every fill of the shapes up to 3x3
    for t in tables:
        out.append(stats_case(t))
    for ko in (1, 2, 3):
        for kp in (1, 2, 3):
            for bits in range(1 << (ko * kp)):
                out.append(stats_case((OBJS3[:ko], PROPS3[:kp], [[bool(bits >> (i * kp + j) & 1) for j in range(kp)] for i in range(ko)])))
    # shapes whose size is not a power of two (fill ratios with odd denominators), every fill
    for ko in (1, 2, 3):
        for kp in (1, 2, 3):
            if ko * kp in (1, 2, 4):
                continue
            for bits in range(1 << (ko * kp)):
                bools = [[bool(bits >> (i * kp + j) & 1) for j in range(kp)] for i in range(ko)]
                out.append(glue_case((OBJS3[:ko], PROPS3[:kp], bools), r))
    return out


def distribution(cases):
    d = {}
    for c in cases:
        if c.replay.get('stats'):
            key = 'shape / fill_ratio'
        else:
            ops = c.replay['ops']
            key = ops[2][0] if len(ops) >= 3 else 'glue'
        d[key] = d.get(key, 0) + 1
    return d
