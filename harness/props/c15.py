"""C15 — lattice structure is invariant under relabelling, duplication and transposition."""
import random

import gen
from check import Case
from . import util, latfam, c16, c08, c04

TARGETS = ['Properties/C15.vo', 'Run/ObsC15.vo']
THEOREMS = util.theorems('C15')
RUN_MODULE = 'Run.ObsC15'
SHARD_SIZE = 60
RULE = ('base contexts: EXH(8 quick / 10 thorough) sampled + FAM + RND; variants built through the Definition API: 2 (quick) / 6 (thorough) '
        'random row+column permutations (move_object / move_property), transposition (Definition.transposed), a duplicated row (add_object), '
        'a duplicated column and a full column (add_property), each turned into a Context; the expected transformed table is computed by the '
        'harness from the base table; observation on every variant = concept set, covers and Context.neighbors, joins/meets, relations, order predicates and operators on all ordered pairs, the FCbO concept generators; '
        'non-trivial = variant of a context with >=4 concepts; distinct by (base table, transformation)')
EXHAUSTIVE = {'quick': False, 'thorough': False}


def variant_ctx(rows, nm, objects, properties, tag):
    c = gen.Ctx(rows, nm, tag)
    c.objects, c.properties = list(objects), list(properties)
    return c


def variants(cx, r, nperm):
    """(expected Ctx, function building the implementation Definition) pairs"""
    import concepts
    out = []
    ng, nm = cx.nG, cx.nM

    def base():
        return concepts.Definition(cx.objects, cx.properties, cx.bools)

    for _ in range(nperm):
        sigma = list(range(ng)); r.shuffle(sigma)      # new position k holds old row sigma[k]
        tau = list(range(nm)); r.shuffle(tau)
        rows = []
        for k in range(ng):
            old = cx.rows[sigma[k]]
            rows.append(sum(1 << j for j in range(nm) if old >> tau[j] & 1))
        exp = variant_ctx(rows, nm, [cx.objects[i] for i in sigma], [cx.properties[j] for j in tau], cx.tag + ':perm')

        def build(sigma=sigma, tau=tau):
            d = base()
            for k, i in enumerate(sigma):
                d.move_object(cx.objects[i], k)
            for k, j in enumerate(tau):
                d.move_property(cx.properties[j], k)
            return d
        out.append((exp, build))
    cols = [sum(1 << g for g in range(ng) if cx.rows[g] >> m & 1) for m in range(nm)]
    out.append((variant_ctx(cols, ng, cx.properties, cx.objects, cx.tag + ':transposed'), lambda: base().transposed()))
    g = r.randrange(ng)
    new_o = 'copy of ' + cx.objects[g]
    out.append((variant_ctx(cx.rows + [cx.rows[g]], nm, list(cx.objects) + [new_o], cx.properties, cx.tag + ':duprow'),
                lambda: _add_object(base(), new_o, [p for j, p in enumerate(cx.properties) if cx.rows[g] >> j & 1])))
    m = r.randrange(nm)
    new_p = 'copy of ' + cx.properties[m]
    out.append((variant_ctx([row | ((row >> m & 1) << nm) for row in cx.rows], nm + 1, cx.objects, list(cx.properties) + [new_p], cx.tag + ':dupcol'),
                lambda: _add_property(base(), new_p, [o for i, o in enumerate(cx.objects) if cx.rows[i] >> m & 1])))
    out.append((variant_ctx([row | (1 << nm) for row in cx.rows], nm + 1, cx.objects, list(cx.properties) + ['⊤ everything'], cx.tag + ':fullcol'),
                lambda: _add_property(base(), '⊤ everything', list(cx.objects))))
    return out


def _add_object(d, o, props):
    d.add_object(o, props)
    return d


def _add_property(d, p, objs):
    d.add_property(p, objs)
    return d


def observe(exp, build, tier, seed):
    import concepts
    try:
        impl = concepts.Context(*build())
    except Exception as e:  # noqa: BLE001
        impl = e
    parts = []
    nontrivial = False
    subs = []
    for k, prop in enumerate(('C03', 'C05', 'C07')):
        c = latfam.observe_safe(prop, exp, tier, seed, impl)
        parts.append(c.term)
        nontrivial = nontrivial or c.nontrivial
        subs.append({'part': prop, 'detail': (c.subs or [])[:3]})
    if isinstance(impl, Exception):
        parts.append(f'({exp.coq()}, (9, []), (9, []))')
    else:
        parts.append(c16.observe(exp, impl).term)
    subs.append({'part': 'C16 relations'})
    c = c08.observe(exp, seed, impl)
    parts.append(c.term)
    subs.append({'part': 'C08 order predicates and operators', 'detail': [x for x in (c.subs or []) if x.get('observed_packed', 0) < 0][:3]})
    if isinstance(impl, Exception):
        parts.append(f'({exp.coq()}, 0%nat, [(0, 9, [])])')
    else:
        parts.append(c04.observe(exp, impl).term)
    subs.append({'part': 'C04 concept generators (fast_generate_from, fcbo_dual, get_concepts, iterconcepts)'})
    term = '(' + ', '.join(parts) + ')'
    return Case(term, exp.to_json(), nontrivial, subs, sig=(exp.key(), exp.tag))


def cases(tier, seed):
    r = random.Random(seed + 5)
    k = 8 if tier == 'quick' else 10
    bases = [c for i, c in enumerate(gen.exh(k)) if (i + seed) % (7 if tier == 'quick' else 11) == 0]
    bases += [c for c in gen.fam(8) if c.nG * c.nM <= 64]
    bases += gen.rnd(40 if tier == 'quick' else 400, seed, max_rows=6, max_cols=7)
    out = []
    for cx in bases:
        for exp, build in variants(cx, r, 2 if tier == 'quick' else 6):
            out.append(observe(exp, build, tier, seed))
    return out


def case_from_replay(inp):
    cx = gen.Ctx.from_json(inp)
    import concepts
    return observe(cx, lambda: concepts.Definition(cx.objects, cx.properties, cx.bools), 'quick', 0)


distribution = util.distribution
