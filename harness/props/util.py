"""Helpers shared by the property modules: driving the real library."""
import random

import gen
from common import coq, nat, natlist, Raw, z

TAGS = {'KeyError': 1, 'ValueError': 2, 'IndexError': 3, 'TypeError': 4, 'StopIteration': 5}


def tag_of(exc):
    return TAGS.get(type(exc).__name__, 9)


def make_context(cx):
    import concepts
    return concepts.Context(cx.objects, cx.properties, cx.bools)


def idx(labels, universe):
    """Positions of labels in the harness's own label list (unknown -> 7777)."""
    pos = {l: i for i, l in enumerate(universe)}
    return [pos.get(l, 7777) for l in labels]


def bits_of(labels, universe):
    pos = {l: i for i, l in enumerate(universe)}
    out = 0
    for l in labels:
        if l not in pos:
            return -1
        out |= 1 << pos[l]
    return out


def contexts_for(tier, seed, exh_quick=9, exh_thorough=12, rnd_quick=300, rnd_thorough=3000, big=None):
    k = exh_quick if tier == 'quick' else exh_thorough
    wide = gen.wide(seed)
    out = wide[-1:]                       # the costliest case first, so that its shard starts first
    out += list(gen.exh(k))
    out += gen.fam(big or (10 if tier == 'quick' else 12))
    out += wide[:-1]
    out += gen.special(seed)
    out += gen.rnd(rnd_quick if tier == 'quick' else rnd_thorough, seed)
    return out


def distribution(cases):
    d = {}
    for c in cases:
        tag = c.replay.get('tag', '?') if isinstance(c.replay, dict) else '?'
        fam = tag.split(':')[0].rstrip('0123456789')
        d[fam] = d.get(fam, 0) + 1
    return d


def prebuild(ctxs):
    """Create every implementation Context first and query afterwards, so that state
    leaking between contexts (class-level caches, shared bitset classes) shows up."""
    out = []
    for cx in ctxs:
        try:
            out.append(make_context(cx))
        except Exception as e:  # noqa: BLE001
            out.append(e)
    return out


def theorems(prop):
    """Names of the theorems in coq/Properties/<prop>.v (kept in harness/theorems.json)."""
    import json
    import os
    path = os.path.join(os.path.dirname(os.path.dirname(os.path.abspath(__file__))), 'theorems.json')
    return json.load(open(path)).get(prop, [])
