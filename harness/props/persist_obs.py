"""Observation of a (re)loaded Context / Lattice as plain JSON-able data (shared by the parent
check and the fresh-process child)."""


def bits(labels, universe):
    pos = {l: i for i, l in enumerate(universe)}
    out = 0
    for l in labels:
        if l not in pos:
            return -1
        out |= 1 << pos[l]
    return out


def lattice_obs(lattice, objects, properties):
    concepts = list(lattice)
    pos = {id(c): i for i, c in enumerate(concepts)}

    def p(c):
        return pos.get(id(c), 3999)
    opos = {l: i for i, l in enumerate(objects)}
    ppos = {l: i for i, l in enumerate(properties)}
    per, labels = [], []
    for c in concepts:
        per.append([bits(c.extent, objects), c.index, c.dindex, [p(u) for u in c.upper_neighbors], [p(l) for l in c.lower_neighbors],
                    bits(c.intent, properties)])
        labels.append([[opos.get(o, 7777) for o in c.objects], [ppos.get(x, 7777) for x in c.properties], [p(a) for a in c.atoms]])
    return {'per': per, 'inf': p(lattice.infimum), 'sup': p(lattice.supremum), 'atoms': [p(a) for a in lattice.atoms],
            'labels': labels, 'len': len(lattice)}


def queries_ok(lattice, limit=40):
    """Self-consistency of the public queries on a (re)loaded lattice: every concept is found again through its
    extent, intent, minimal generator and first generating sets; joins / meets / traversals answer."""
    import itertools
    try:
        concepts = list(lattice)
        step = max(1, len(concepts) // limit)
        sup, inf = lattice.supremum, lattice.infimum
        for c in concepts[::step]:
            if lattice[c.extent] is not c and c.extent:
                return False
            if lattice(c.intent) is not c:
                return False
            if lattice(c.minimal()) is not c:
                return False
            for s in itertools.islice(c.attributes(), 4):
                if lattice(s) is not c:
                    return False
            if (c | c) is not c or (c & c) is not c or (c | sup) is not sup or (c & inf) is not inf:
                return False
            if lattice.join([c, inf]) is not c or lattice.meet([c, sup]) is not c:
                return False
            if next(iter(c.upset())) is not c or next(iter(c.downset())) is not c:
                return False
            if not (inf <= c <= sup) or c.incompatible_with(c) != (not c.extent):
                return False
        return True
    except Exception:  # noqa: BLE001
        return False


def observe_reloaded(obj, objects, properties, lattice_object=False, force_lattice=True):
    """obj: a Context (or a Lattice when lattice_object). Returns rows as index sets, whether the names match, whether a
    stored lattice was present, and the lattice observation."""
    if lattice_object:
        lattice = obj
        ctx = obj._context
        stored = True
    else:
        ctx = obj
        stored = 'lattice' in ctx.__dict__
        lattice = ctx.lattice if (stored or force_lattice) else None
    rows = [[i for i, b in enumerate(r) if b] for r in ctx.bools]
    names_ok = list(ctx.objects) == list(objects) and list(ctx.properties) == list(properties)
    if lattice is not None and not queries_ok(lattice):
        names_ok = False
    return {'rows': rows, 'names_ok': names_ok, 'stored': stored,
            'lattice': None if lattice is None else lattice_obs(lattice, objects, properties)}
