"""C18 (lattice family; see latfam.py)."""
from . import latfam, util

globals().update(latfam.module('C18', util.theorems('C18'),
    'contexts as C03 with intents <=9 (quick) / 11 (thorough); observation = list(attributes()) and minimal() of every concept; non-trivial = a concept with >=2 generating sets',
    extra_targets=['Tie/Matrices.vo'], partial='', exh=(9, 10)))
