"""C17 — all results are deterministic across processes and hash seeds."""
import json
import os
import subprocess

import common
from check import Case
from . import util
from . import defmachine as dm

TARGETS = ['Properties/C17.vo', 'Run/ObsC17.vo']
THEOREMS = util.theorems('C17')
RUN_MODULE = 'Run.ObsC17'
SHARD_SIZE = 100
RULE = ('a fixed corpus executed in separate interpreter processes under 4 (quick) / 16 (thorough) PYTHONHASHSEED values: every text format, '
        'dict/JSON, lattice order/indices/links/labels, str() forms with addresses masked, traversals with seeds in several orders, relations, '
        'graphviz source, error messages listing names, and Definition histories (multi-name set/add, unions/intersections with several '
        'conflicts, take with several unknown names, random histories). Every section must be byte-identical across seeds; the Definition '
        'histories of every seed are additionally compared with the Coq model. non-trivial = history introducing >=2 new names in one call or '
        'raising an error that lists >=2 names; distinct by (history, seed)')
EXHAUSTIVE = {'quick': False, 'thorough': False}
PARTIAL = 'CPython string hashing and id()-based hashing are not modelled (over-approximated by arbitrary permutations in the theorems); the multi-process part is correspondence only'
TRUSTED_EXTRA = ['PYTHONHASHSEED variation in separate interpreter processes stands for "every interpreter process"']

_cache = {}


def run_children(tier, seed):
    key = (tier, seed)
    if key in _cache:
        return _cache[key]
    seeds = [0, 1, 2, 3] if tier == 'quick' else list(range(16))
    outs = {}
    procs = []
    for s in seeds:
        env = dict(os.environ, PYTHONHASHSEED=str(s), PYTHONPATH=os.path.join(common.VERIF, 'harness') + ':' + common.REPO)
        procs.append((s, subprocess.Popen([common.PY, os.path.join(common.VERIF, 'harness', 'c17_child.py'), tier, str(seed)],
                                          stdout=subprocess.PIPE, stderr=subprocess.PIPE, text=True, env=env)))
    for s, pr in procs:
        out, errtxt = pr.communicate(timeout=1800)
        try:
            outs[s] = json.loads(out)
        except ValueError:
            outs[s] = {'child crashed': errtxt[-2000:]}
    _cache[key] = outs
    return outs


def cases(tier, seed):
    outs = run_children(tier, seed)
    cs = []
    for s, out in sorted(outs.items()):
        for h in out.get('definition terms', []):
            ops = h['ops']
            nt = any(k in ('OSetObject', 'OSetProperty', 'OAddObject', 'OAddProperty') and len(a[2]) >= 2 for k, a in ops if len(a) > 2 and isinstance(a[2], list))
            cs.append(Case(h['term'], {'hash_seed': s, 'ops': ops, 'variant': h['variant'],
                                       'history': [dm.Op(k, *a).describe() for k, a in ops]}, nt, None,
                           sig=(s, json.dumps(ops))))
        if 'child crashed' in out:
            cs.append(Case('[(DNew [] [] [], (9, []%nat, []))]', {'hash_seed': s, 'child crashed': out['child crashed']}, False, None, sig=(s, 'crash')))
    return cs


def diff_sections(a, b, path=''):
    """first differing leaf between two JSON values"""
    if type(a) != type(b):
        return path, a, b
    if isinstance(a, dict):
        for k in sorted(set(a) | set(b)):
            if k not in a or k not in b:
                return f'{path}/{k}', a.get(k), b.get(k)
            d = diff_sections(a[k], b[k], f'{path}/{k}')
            if d:
                return d
        return None
    if isinstance(a, list):
        if len(a) != len(b):
            return path, a, b
        for i, (x, y) in enumerate(zip(a, b)):
            d = diff_sections(x, y, f'{path}[{i}]')
            if d:
                return d
        return None
    return None if a == b else (path, a, b)


def extra_violations(tier, seed, findings, known_printed):
    outs = run_children(tier, seed)
    seeds = sorted(outs)
    base = outs[seeds[0]]
    violations = []
    f5_known = [f for f in findings if f.get('id') == 'F5']
    for s in seeds[1:]:
        for section in sorted(set(base) | set(outs[s])):
            d = diff_sections(base.get(section), outs[s].get(section), section)
            if not d:
                continue
            if section == 'F5' and f5_known:
                line = f"KNOWN-FINDING: property=C17 {f5_known[0]['what']}"
                if line not in known_printed:
                    known_printed.append(line)
                continue
            path, va, vb = d
            violations.append({'property': 'C17', 'kind': 'cross-process-nondeterminism', 'section': path,
                               'seeds': [seeds[0], s], 'values': [json.dumps(va, ensure_ascii=False)[:1500], json.dumps(vb, ensure_ascii=False)[:1500]],
                               'replay_cmd': f'PYTHONHASHSEED=<seed> /venv/bin/python harness/c17_child.py {tier} {seed}',
                               'note': 'the same call corpus printed different results in two interpreter processes'})
            break
        if len(violations) >= 3:
            break
    return violations


def case_from_replay(inp):
    ops = [dm.Op(k, *a) for k, a in inp['ops']]
    term, subs = dm.run_history(ops, inp.get('variant', 0))
    return Case(term, inp, False, subs)


def distribution(cases):
    d = {}
    for c in cases:
        k = f"seed {c.replay.get('hash_seed')}"
        d[k] = d.get(k, 0) + 1
    return d
