"""C09 (lattice family; see latfam.py)."""
from . import latfam, util

globals().update(latfam.module('C09', util.theorems('C09'),
    'contexts as C03 (EXH(10) in the thorough tier); upset()/downset() of every concept (sampled beyond 64), unions for all pairs (<=8 concepts quick / 12 thorough, else sampled) and multisets with repeats/comparable members, interleaved and abandoned traversals; non-trivial = seeds comparable or repeated in a lattice with a concept having >=2 upper neighbours',
    extra_targets=['Tie/Common.vo'], partial='', exh=(9, 10)))
