"""C07 (lattice family; see latfam.py)."""
from . import latfam

globals().update(latfam.module('C07', ['C07_double_is_closure', 'C07_join_upper_bound', 'C07_join_least', 'C07_join_is_concept_extent', 'C07_meet_extent_is_intersection', 'C07_meet_lower_bound', 'C07_meet_greatest', 'C07_nary_union', 'C07_nary_intersection', 'C07_nary_meet_closed', 'C07_order_from_join_meet'],
    'contexts as C03; all ordered pairs of concepts for lattices <=14 concepts (150 sampled pairs beyond) through join/meet, | and &, and the n-ary forms (identity of the returned member); n-ary with empty, single, repeated arguments (<=5); non-trivial = a pair whose union of extents is not an extent',
    extra_targets=['Tie/Members.vo', 'Tie/Matrices.vo'], partial='final mapping lookup tied by correspondence until C03 completeness is proved'))
