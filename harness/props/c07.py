"""C07 (lattice family; see latfam.py)."""
from . import latfam, util

globals().update(latfam.module('C07', util.theorems('C07'),
    'contexts as C03 (EXH(10) in the thorough tier); all ordered pairs of concepts for lattices <=14 concepts (150 sampled pairs beyond) through join/meet, | and &, and the n-ary forms (identity of the returned member); n-ary with empty, single, repeated arguments (<=5); non-trivial = a pair whose union of extents is not an extent',
    extra_targets=['Tie/Members.vo', 'Tie/Matrices.vo'], partial='', exh=(9, 10)))
