"""C12 — text formats round-trip every representable context."""
import io
import os
import random
import shutil

import common
import gen
from check import Case
from common import coq, nat, natlist, Raw
from . import util

TARGETS = ['Properties/C12.vo', 'Run/ObsC12.vo']
THEOREMS = util.theorems('C12')
RUN_MODULE = 'Run.ObsC12'
SHARD_SIZE = 250
IMPORTS = 'Model.Formats'
RULE = ('tables: EXH(6) (all-blank rows/columns, single row/column) x label alphabets {plain, ASCII punctuation, delimiters of the other formats, digits, '
        "'X', '.', non-ASCII, inner whitespace; for csv additionally commas, quotes, CR/LF, NUL-free control characters} x formats {table (indents 0,3), cxt, csv "
        'X/blank and 1/0, fimi, wiki-table} ; observations: (1) dumped text byte for byte vs the model; (2) Format.loads outcome on the dumps, on '
        'independently written variants (padding, centring, comments, blank lines, quote-all csv) and on mutated (malformed) text vs the model loader; '
        '(3) round trips through Context.fromstring / fromfile(tofile) with encodings utf-8, utf-16, latin-1 where representable, concepts.load '
        '(suffix inference incl. upper case), load_csv, load_cxt, make_context, Definition.fromfile (equality on the real objects); (4) concept .dat '
        'exports (intents and extents) and FIMI rows re-read by read_concepts_dat; (5) infer_format on suffix variants. non-trivial = a label needs '
        'quoting or padding or equals a cell symbol, or a blank last row/column, or a single property; distinct by (format, table, labels, text)')
EXHAUSTIVE = {'quick': False, 'thorough': False}
PARTIAL = 'codecs, real files and repr/ast.literal_eval are exercised by the harness, not modelled; the C csv module is re-stated (excel dialect)'
TRUSTED_EXTRA = ['file encodings utf-8/utf-16/latin-1, universal-newline handling of real files, repr/ast.literal_eval: exercised, not modelled',
                 "csv.Error is represented by the tag 99 ('OutOfFuel' constructor reused, no function uses fuel)"]

ALPHABETS = {
    'plain': (['a', 'bb', 'obj 3', 'd', 'e5', 'f'], ['p', 'quite long property', 'r', 's', 't', 'u']),
    'punct': (['a-b', 'c.d', '(e)', 'f/g', 'h:i', 'j;k'], ['+1', '-2', '=3', '~q', '@r', '%s']),
    'other-delims': (['a,b', 'c"d', "e'f", 'g!h', 'i{j', 'k}l'], ['x,y', '"q"', "it's", '!!', '||'.replace('|', ';'), '{|']),
    'symbols': (['X', '.', '0', '1', 'XX', 'x'], ['.X', '10', '01', 'X.', '..', '00']),
    'unicode': (['äöü', 'ñ', 'ß', 'é', 'Ω', 'ж'], ['λ', 'π r', '∀x', 'çà', 'ü-ü', 'ø']),
    'inner-space': (['a b', 'c  d', 'e\tf', 'g h i', 'j k', 'l m'], ['p q', 'r  s', 't u v', 'w\tx', 'y z', 'a a']),
}
CSV_ONLY = {
    'csv-quoting': (['a,b', 'say "hi"', 'line\nbreak', 'cr\rhere', 'crlf\r\nx', ' lead and trail '], ['"', ',', 'q""q', '\n', 'a\rb', "'"]),
    'csv-pipes': (['a|b', '#hash', '|', 'x#y', ' ', '\t'], ['|p', 'q#', '# c', 'p|q|r', '\x0b', '\x1c']),
}
TABLE_UNSAFE = {'other-delims'}       # contains nothing unsafe for table after the replacement above, kept for clarity


def sym(b):
    return 'true' if b else 'false'


def bools_t(bools):
    return '[' + '; '.join('[' + '; '.join(sym(b) for b in row) + ']' for row in bools) + ']'


def strs_t(l):
    return '[' + '; '.join(coq(s) for s in l) + ']'


def tagged(e):
    import csv
    if isinstance(e, csv.Error):
        return 99
    return util.tag_of(e)


def outcome_of(fn):
    try:
        args = fn()
        objs, props, bools = list(args.objects), list(args.properties), [list(r) for r in args.bools]
        if not all(isinstance(x, str) for x in objs + props) or not all(isinstance(b, (bool, int)) for r in bools for b in r):
            return f'(8, [], [], [])', 'non-string result'
        return f'(0, {strs_t(objs)}, {strs_t(props)}, {bools_t([[bool(b) for b in r] for r in bools])})', None
    except Exception as e:  # noqa: BLE001
        return f'({tagged(e)}, [], [], [])', repr(e)


def mk(term, rep, nontrivial=False, sub=None):
    return Case(term, rep, nontrivial, [sub or {}], sig=term)


def spec_write_table(objs, props, bools, r):
    """an independent writer: centred cells, extra padding, comments and blank lines"""
    wo = max(len(o) for o in objs) + r.randint(0, 3)
    lines = ['# written by the harness', '']
    lines.append(' ' * wo + '|' + '|'.join(p.center(len(p) + r.randint(0, 4)) for p in props) + '|')
    for o, row in zip(objs, bools):
        cells = [('X' if b else '').center(len(p) + 2) for p, b in zip(props, row)]
        lines.append(o.rjust(wo) + '|' + '|'.join(cells) + '|' + ('  # comment' if r.random() < 0.3 else ''))
        if r.random() < 0.2:
            lines.append('   ')
    return '\n'.join(lines) + '\n'


def spec_write_csv(objs, props, bools, as_int, quote_all):
    def q(s):
        if quote_all or any(ch in s for ch in ',"\r\n'):
            return '"' + s.replace('"', '""') + '"'
        return s
    rows = [[''] + list(props)] + [[o] + [('1' if b else '0') if as_int else ('X' if b else '') for b in row] for o, row in zip(objs, bools)]
    return ''.join(','.join(q(f) for f in row) + '\r\n' for row in rows)


def spec_write_cxt(objs, props, bools):
    return 'B\n\n%d\n%d\n\n' % (len(objs), len(props)) + ''.join(x + '\n' for x in list(objs) + list(props)) + \
        ''.join(''.join('X' if b else '.' for b in row) + '\n' for row in bools)


def mutate(text, r):
    if not text:
        return 'x'
    k = r.randrange(6)
    i = r.randrange(len(text))
    if k == 0:
        return text[:i] + text[i + 1:]
    if k == 1:
        return text[:i] + r.choice('|#",X.\n\r 0\t') + text[i:]
    if k == 2:
        return text[:i]
    if k == 3:
        lines = text.split('\n')
        j = r.randrange(len(lines))
        return '\n'.join(lines[:j] + lines[j + 1:])
    if k == 4:
        lines = text.split('\n')
        j = r.randrange(len(lines))
        return '\n'.join(lines[:j] + [lines[j]] + lines[j:])
    return text.replace('\n', '\r\n', 1)


def glue_roundtrips(ctx, fmt_name, safe, workdir, r, kw=None):
    """round trips on the real objects; returns a description of the first failure or None"""
    import concepts
    kw = kw or {}
    try:
        text = ctx.tostring(frmat=fmt_name, **kw)
        if not safe:
            return None
        lkw = {k: v for k, v in kw.items() if k in ('bools_as_int', 'dialect')}
        back = concepts.Context.fromstring(text, frmat=fmt_name, **lkw)
        if not (back == ctx and ctx == back):
            return f'fromstring(tostring({fmt_name})) differs'
        if concepts.make_context(text, frmat=fmt_name) != ctx and not lkw:
            return f'make_context differs for {fmt_name}'
        suffix = {'table': '.txt', 'cxt': '.cxt', 'csv': '.csv'}[fmt_name]
        for enc in ('utf-8', 'utf-16', 'latin-1'):
            try:
                text.encode(enc)
            except UnicodeEncodeError:
                continue
            path = os.path.join(workdir, f'rt{r.randrange(10**9)}{suffix}')
            ctx.tofile(path, frmat=fmt_name, encoding=enc, **kw)
            b2 = concepts.Context.fromfile(path, frmat=fmt_name, encoding=enc, **lkw)
            if b2 != ctx:
                return f'fromfile(tofile({fmt_name}, {enc})) differs'
            d = concepts.Definition.fromfile(path, frmat=fmt_name, encoding=enc, **lkw)
            if (d.objects, d.properties, d.bools) != (ctx.objects, ctx.properties, ctx.bools):
                return f'Definition.fromfile({fmt_name}, {enc}) differs'
            if not lkw:
                up = os.path.join(workdir, f'RT{r.randrange(10**9)}{suffix.upper()}')
                shutil.copy(path, up)
                if concepts.load(up, encoding=enc) != ctx or concepts.load(path, encoding=enc, frmat=fmt_name) != ctx:
                    return f'concepts.load with inferred format ({enc}) differs'
                if fmt_name == 'csv' and concepts.load_csv(path, encoding=enc) != ctx:
                    return 'load_csv differs'
                if fmt_name == 'cxt' and concepts.load_cxt(path, encoding=enc) != ctx:
                    return 'load_cxt differs'
                os.remove(up)
            os.remove(path)
        d = ctx.definition()
        if d.tostring(frmat=fmt_name, **kw) != text:
            return f'Definition.tostring({fmt_name}) differs from Context.tostring'
        # an explicit format wins over whatever the file is called
        other = {'table': '.cxt', 'cxt': '.csv', 'csv': '.txt'}[fmt_name]
        for sfx in (other, other.upper(), '.dat', ''):
            path = os.path.join(workdir, f'odd{r.randrange(10**9)}{sfx}')
            ctx.tofile(path, frmat=fmt_name, **kw)
            if concepts.Context.fromfile(path, frmat=fmt_name, **lkw) != ctx:
                return f'fromfile(frmat={fmt_name!r}) of a file named *{sfx} differs'
            os.remove(path)
        if fmt_name == 'csv' and not kw:
            import csv

            class Semi(csv.excel):
                delimiter = ';'
                quotechar = "'"
            for dialect in ('excel-tab', Semi, 'unix'):
                for as_int in (False, True):
                    t2 = ctx.tostring(frmat='csv', dialect=dialect, bools_as_int=as_int)
                    rows = list(csv.reader(io.StringIO(t2, newline=''), dialect=dialect))
                    exp = [[''] + list(ctx.properties)] + [[o] + [('1' if b else '0') if as_int else ('X' if b else '') for b in row]
                                                           for o, row in zip(ctx.objects, ctx.bools)]
                    if rows != exp:
                        return f'csv written with dialect {dialect!r} is not read back by an independent reader of that dialect'
                    if concepts.Context.fromstring(t2, frmat='csv', dialect=dialect) != ctx:
                        return f'csv round trip with dialect {dialect!r} differs'
    except Exception as e:  # noqa: BLE001
        return f'{fmt_name}: raised {e!r}'
    return None


def glue_literal(ctx, workdir, r):
    """python-literal: string and file round trips, suffix inference, and an independent ast.literal_eval reader"""
    import ast
    import concepts
    try:
        text = ctx.tostring(frmat='python-literal')
        doc = ast.literal_eval(text)
        want = {'objects': tuple(ctx.objects), 'properties': tuple(ctx.properties),
                'context': [tuple(j for j, b in enumerate(row) if b) for row in ctx.bools]}
        got = {k: (tuple(doc[k]) if k != 'context' else [tuple(t) for t in doc[k]]) for k in ('objects', 'properties', 'context')}
        if got != want:
            return 'python-literal text is not read back by ast.literal_eval as the documented dict'
        if concepts.Context.fromstring(text, frmat='python-literal') != ctx:
            return 'fromstring(tostring(python-literal)) differs'
        if concepts.make_context(text, frmat='python-literal') != ctx:
            return 'make_context(python-literal) differs'
        fresh = concepts.Context(ctx.objects, ctx.properties, ctx.bools)        # lattice not computed: no lattice section
        if concepts.Context.fromstring(fresh.tostring(frmat='python-literal'), frmat='python-literal') != ctx:
            return 'python-literal round trip of a context without computed lattice differs'
        for enc in ('utf-8', 'utf-16'):
            path = os.path.join(workdir, f'lit{r.randrange(10**9)}.py')
            ctx.tofile(path, frmat='python-literal', encoding=enc)
            if concepts.Context.fromfile(path, frmat='python-literal', encoding=enc) != ctx:
                return f'fromfile(tofile(python-literal, {enc})) differs'
            up = os.path.join(workdir, f'LIT{r.randrange(10**9)}.PY')
            shutil.copy(path, up)
            if concepts.load(path, encoding=enc) != ctx or concepts.load(up, encoding=enc) != ctx:
                return f'concepts.load of a .py file ({enc}) differs'
            d = concepts.Definition.fromfile(path, frmat='python-literal', encoding=enc)
            if (d.objects, d.properties, d.bools) != (ctx.objects, ctx.properties, ctx.bools):
                return f'Definition.fromfile(python-literal, {enc}) differs'
            os.remove(path)
            os.remove(up)
    except Exception as e:  # noqa: BLE001
        return f'python-literal: raised {e!r}'
    return None


def table_ok(s):
    return bool(s) and s == s.strip() and not any(ch in s for ch in '\n\r\x0b\x0c\x1c\x1d\x1e\x85  |#')


def cxt_ok(s):
    return bool(s) and s == s.strip() and not any(ch in s for ch in '\n\r\x0b\x0c\x1c\x1d\x1e\x85  ')


def cases_for(cx, alpha_name, labels, tier, r, workdir):
    import concepts
    from concepts import formats
    out = []
    objs = [labels[0][i % len(labels[0])] + ('' if i < len(labels[0]) else str(i)) for i in range(cx.nG)]
    props = [labels[1][j % len(labels[1])] + ('' if j < len(labels[1]) else str(j)) for j in range(cx.nM)]
    if len(set(objs + props)) != len(objs) + len(props):
        return out
    bools = cx.bools
    try:
        ctx = concepts.Context(objs, props, bools)
    except Exception:  # noqa: BLE001
        return out
    rep = {'objects': objs, 'properties': props, 'bools': [list(map(int, b)) for b in bools], 'alphabet': alpha_name, 'tag': cx.tag}
    blist = [list(b) for b in bools]
    nt = alpha_name != 'plain' or any(not any(b) for b in blist) or cx.nM == 1
    t_safe = all(table_ok(s) for s in objs + props)
    c_safe = all(cxt_ok(s) for s in objs + props)
    csv_only = alpha_name in CSV_ONLY

    def dump(name, ctor, fn):
        try:
            text = fn()
            out.append(mk(f'{ctor} {coq(text)}', dict(rep, what=name), nt, {'dump': name, 'text': text[:300]}))
            return text
        except Exception as e:  # noqa: BLE001
            out.append(mk(f'{ctor} [0; 0; 7]', dict(rep, what=name, raised=repr(e)), nt, {'dump': name, 'raised': repr(e)}))
            return None

    def load(name, ctor, text, fn):
        oc, errtxt = outcome_of(fn)
        out.append(mk(f'{ctor} {coq(text)} {oc}', dict(rep, what=name, source=text), nt, {'load': name, 'error': errtxt}))

    o_t, p_t, b_t = strs_t(objs), strs_t(props), bools_t(blist)
    texts = {}
    if not csv_only:
        for indent in (0, 3):
            texts[('table', indent)] = dump(f'table indent={indent}', f'DumpTable {indent}%nat {o_t} {p_t} {b_t}',
                                            lambda: ctx.tostring(frmat='table', indent=indent))
        texts['cxt'] = dump('cxt', f'DumpCxt {o_t} {p_t} {b_t}', lambda: ctx.tostring(frmat='cxt'))
        texts['wiki'] = dump('wikitable', f'DumpWiki {o_t} {p_t} {b_t}', lambda: ctx.tostring(frmat='wikitable'))
    for as_int in (False, True):
        texts[('csv', as_int)] = dump(f'csv bools_as_int={as_int}', f'DumpCsv {sym(as_int)} {o_t} {p_t} {b_t}',
                                      lambda: ctx.tostring(frmat='csv', bools_as_int=as_int))
    if alpha_name == 'plain':
        texts['fimi'] = dump('fimi', f'DumpFimi {b_t}', lambda: ctx.tostring(frmat='fimi'))
    # loaders on the dumps
    T, C, V = formats.Format['table'], formats.Format['cxt'], formats.Format['csv']
    for key, text in texts.items():
        if text is None:
            continue
        if isinstance(key, tuple) and key[0] == 'table':
            load('table loads', 'LoadTable', text, lambda: T.loads(text))
        elif key == 'cxt':
            load('cxt loads', 'LoadCxt', text, lambda: C.loads(text))
        elif isinstance(key, tuple) and key[0] == 'csv':
            load('csv loads auto', 'LoadCsv None', text, lambda: V.loads(text))
            load(f'csv loads as_int={key[1]}', f'LoadCsv (Some {sym(key[1])})', text, lambda: V.loads(text, bools_as_int=key[1]))
            load(f'csv loads wrong symbols', f'LoadCsv (Some {sym(not key[1])})', text, lambda: V.loads(text, bools_as_int=not key[1]))
    # independently written variants
    if t_safe:
        w = spec_write_table(objs, props, blist, r)
        load('table spec-writer', 'LoadTable', w, lambda: T.loads(w))
    if c_safe:
        w2 = spec_write_cxt(objs, props, blist)
        load('cxt spec-writer', 'LoadCxt', w2, lambda: C.loads(w2))
    for as_int in (False, True):
        w3 = spec_write_csv(objs, props, blist, as_int, quote_all=True)
        load('csv spec-writer quote-all', 'LoadCsv None', w3, lambda: V.loads(w3))
    # malformed stream
    nmut = 2 if tier == 'quick' else 6
    for key, text in list(texts.items()):
        if text is None or key in ('fimi', 'wiki'):
            continue
        for _ in range(nmut):
            m = mutate(text, r)
            if isinstance(key, tuple) and key[0] == 'table':
                load('table malformed', 'LoadTable', m, lambda: T.loads(m))
            elif key == 'cxt':
                load('cxt malformed', 'LoadCxt', m, lambda: C.loads(m))
            else:
                load('csv malformed', 'LoadCsv None', m, lambda: V.loads(m))
    # round trips on the real objects (glue): a failure is recorded as an impossible dump observation
    problems = []
    if not csv_only:
        problems.append(glue_roundtrips(ctx, 'table', t_safe, workdir, r))
        problems.append(glue_roundtrips(ctx, 'table', t_safe, workdir, r, {'indent': 5}))
        problems.append(glue_roundtrips(ctx, 'cxt', c_safe, workdir, r))
    csv_safe = '\x00' not in ''.join(objs + props)
    problems.append(glue_roundtrips(ctx, 'csv', csv_safe, workdir, r))
    problems.append(glue_roundtrips(ctx, 'csv', csv_safe, workdir, r, {'bools_as_int': True}))
    if not any('\ud800' <= ch <= '\udfff' for ch in ''.join(objs + props)):
        problems.append(glue_literal(ctx, workdir, r))
    for pb in problems:
        if pb:
            out.append(mk('DumpFimi [] [0; 0; 7]', dict(rep, what='round trip on the real objects', problem=pb), nt, {'glue': pb}))
    return out


def dat_cases(cx, workdir, r):
    """FIMI rows and concept .dat exports, re-read by read_concepts_dat"""
    import concepts
    from concepts import algorithms, formats
    out = []
    ctx = util.make_context(cx)
    rep = dict(cx.to_json(), what='dat')
    try:
        cl = algorithms.get_concepts(ctx)
        for extents in (False, True):
            path = os.path.join(workdir, f'c{r.randrange(10**9)}.dat')
            cl.tofile(path, extents=extents)
            text = open(path, encoding='ascii', newline='').read()
            rows = [list((e if extents else i).iter_set()) for e, i in cl]
            rows_t = '[' + '; '.join(natlist(x).text for x in rows) + ']'
            out.append(mk(f'DumpDat {rows_t} {coq(text)}', dict(rep, extents=extents), True, {'dat': text[:200]}))
            back = [list(t) for t in formats.read_concepts_dat(path)]
            back_t = '[' + '; '.join(natlist(x).text for x in back) + ']'
            out.append(mk(f'ReadDat {coq(text)} 0 {back_t}', dict(rep, extents=extents, read=True), True, {'read_dat': back}))
            if back != rows:
                out.append(mk('DumpFimi [] [0; 0; 7]', dict(rep, problem='read_concepts_dat(write) differs'), True, {'glue': 'dat round trip'}))
            os.remove(path)
        fpath = os.path.join(workdir, f'f{r.randrange(10**9)}.dat')
        ctx.tofile(fpath, frmat='fimi')
        ftext = open(fpath, encoding='ascii', newline='').read()
        out.append(mk(f'DumpFimi {bools_t([list(b) for b in cx.bools])} {coq(ftext)}', dict(rep, what='fimi file'), True, {'fimi': ftext[:200]}))
        os.remove(fpath)
    except Exception as e:  # noqa: BLE001
        out.append(mk('DumpFimi [] [0; 0; 7]', dict(rep, raised=repr(e)), True, {'raised': repr(e)}))
    return out


def infer_cases():
    from concepts import formats
    out = []
    for suffix in ['.txt', '.TXT', '.cxt', '.Cxt', '.csv', '.CSV', '.dat', '.py', '.Py', '.json', '', '.table', '.tx', '.cxt ']:
        name = 'spam' + suffix
        try:
            f = formats.Format.infer_format(name)
            term = f'Infer {coq(suffix)} 0 {coq(f)}'
        except Exception as e:  # noqa: BLE001
            term = f'Infer {coq(suffix)} {util.tag_of(e)} []'
        out.append(mk(term, {'what': 'infer_format', 'filename': name}, suffix != suffix.lower(), {'suffix': suffix}))
    return out


def cases(tier, seed):
    r = random.Random(seed + 12)
    workdir = os.path.join(common.BUILD, f'c12-files-{os.getpid()}')
    shutil.rmtree(workdir, ignore_errors=True)
    os.makedirs(workdir)
    try:
        out = []
        base = list(gen.exh(6))
        alph = dict(ALPHABETS)
        alph.update(CSV_ONLY)
        names = sorted(alph)
        for i, cx in enumerate(base):
            chosen = [names[(i + seed) % len(names)]] if tier == 'quick' else [names[(i + k + seed) % len(names)] for k in range(3)]
            if i % 8 == 0:
                chosen.append('plain')
            for a in dict.fromkeys(chosen):
                out += cases_for(cx, a, alph[a], tier, r, workdir)
            if i % (6 if tier == 'quick' else 2) == 0:
                out += dat_cases(cx, workdir, r)
        for cx in gen.rnd(10 if tier == 'quick' else 60, seed, max_rows=7, max_cols=8):
            out += cases_for(cx, 'plain', alph['plain'], tier, r, workdir)
            out += cases_for(cx, 'csv-quoting', alph['csv-quoting'], tier, r, workdir)
            out += dat_cases(cx, workdir, r)
        # more than 1000 rows / more than 1000 concept lines (writers that work in batches must not lose a line)
        big = gen.Ctx([(1 + g % 3) for g in range(1003)], 2, 'big:1003x2')
        out += cases_for(big, 'plain', alph['plain'], 'quick', r, workdir)
        n = 11
        out += dat_cases(gen.Ctx([((1 << n) - 1) & ~(1 << i) for i in range(n)], n, 'big:contranominal11'), workdir, r)
        out += infer_cases()
        seen, uniq = set(), []
        for c in out:
            if c.sig not in seen:
                seen.add(c.sig)
                uniq.append(c)
        return uniq
    finally:
        shutil.rmtree(workdir, ignore_errors=True)


def case_from_replay(inp):
    """Re-run the implementation on the recorded input: a loader case holds its source text, every other case
    holds the labelled table (all observations for that table are regenerated and the recorded one is selected)."""
    from concepts import formats
    what = inp.get('what', '')
    if 'source' in inp:
        text = inp['source']
        T, C, V = formats.Format['table'], formats.Format['cxt'], formats.Format['csv']
        if what.startswith('table'):
            oc, _ = outcome_of(lambda: T.loads(text))
            return mk(f'LoadTable {coq(text)} {oc}', inp)
        if what.startswith('cxt'):
            oc, _ = outcome_of(lambda: C.loads(text))
            return mk(f'LoadCxt {coq(text)} {oc}', inp)
        kw, opt = {}, 'None'
        if 'as_int=True' in what or ('wrong symbols' in what and False):
            kw, opt = {'bools_as_int': True}, '(Some true)'
        elif 'as_int=False' in what:
            kw, opt = {'bools_as_int': False}, '(Some false)'
        oc, _ = outcome_of(lambda: V.loads(text, **kw))
        return mk(f'LoadCsv {opt} {coq(text)} {oc}', inp)
    if what == 'infer_format':
        return [c for c in infer_cases() if c.replay.get('filename') == inp.get('filename')][0]
    rows = [sum(1 << j for j, b in enumerate(r) if b) for r in inp['bools']]
    cx = gen.Ctx(rows, len(inp['properties']), inp.get('tag', 'replay'))
    workdir = os.path.join(common.BUILD, f'c12-replay-{os.getpid()}')
    os.makedirs(workdir, exist_ok=True)
    try:
        r = random.Random(0)
        if what == 'dat' or what == 'fimi file':
            cx.objects, cx.properties = inp['objects'], inp['properties']
            cands = dat_cases(cx, workdir, r)
        else:
            labels = (inp['objects'], inp['properties'])
            cands = cases_for(cx, inp.get('alphabet', 'plain'), labels, 'quick', r, workdir)
        same = [c for c in cands if c.replay.get('what') == what]
        bad_first = same or cands
        # evaluate all candidates of that kind as one composite: return the first (the caller evaluates a single case)
        return bad_first[0]
    finally:
        shutil.rmtree(workdir, ignore_errors=True)


def distribution(cases):
    d = {}
    for c in cases:
        k = c.term.split(' ', 1)[0]
        d[k] = d.get(k, 0) + 1
    return d
