"""C04 — all concept generators agree on the set of concepts."""
import gen
from check import Case
from common import coq
from . import util

TARGETS = ['Properties/C04.vo', 'Run/ObsC04.vo', 'Tie/Matrices.vo']
THEOREMS = ['C04_fast_generate_from', 'C04_fcbo_dual', 'C04_fast_generate_from_terminates', 'C04_fcbo_dual_terminates', 'C04_generators_agree']
RUN_MODULE = 'Run.ObsC04'
SHARD_SIZE = 150
RULE = ('contexts: EXH(9 quick / 12 thorough) + FAM + WIDE + RND; observation = the (extent, intent) pairs emitted by '
        'fast_generate_from, fcbo_dual, get_concepts, iterconcepts (with multiplicity, order ignored) and the pairs of '
        'context.lattice; non-trivial = >=4 concepts and some object or property set that is not closed (a canonicity test can fail); '
        'distinct by table')
from .latfam import INDIRECT_RULE  # noqa: E402
RULE = RULE + INDIRECT_RULE
EXHAUSTIVE = {'quick': False, 'thorough': False}


def observe(cx, impl=None):
    from concepts import algorithms
    ctx = impl if impl is not None else util.make_context(cx)
    gens = []
    subs = []
    n = 1

    def run(which, name, fn):
        nonlocal n
        try:
            pairs = [(int(e), int(i)) for e, i in fn()]
            tag = 0
            n = max(n, len(pairs))
        except Exception as e:  # noqa: BLE001
            pairs, tag = [], util.tag_of(e)
        gens.append((which, tag, pairs))
        subs.append({'generator': name, 'tag': tag, 'pairs': pairs[:50]})
    run(0, 'fast_generate_from', lambda: algorithms.fast_generate_from(ctx))
    run(1, 'fcbo_dual', lambda: algorithms.fcbo_dual(ctx))
    run(0, 'get_concepts', lambda: algorithms.get_concepts(ctx))

    def get_concepts_again():
        # the returned list belongs to the caller: editing it must not change later results
        first = algorithms.get_concepts(ctx)
        try:
            first.sort(key=lambda c: -int(c[0]))
            del first[1:]
            first.append(first[0])
        except Exception:  # noqa: BLE001
            pass
        it = algorithms.iterconcepts(ctx)
        next(it, None)                      # an abandoned iterator
        return algorithms.get_concepts(ctx)
    run(0, 'get_concepts after the caller edited an earlier result', get_concepts_again)
    run(0, 'iterconcepts', lambda: algorithms.iterconcepts(ctx))
    run(0, 'context.lattice', lambda: [(util.bits_of(c.extent, cx.objects), util.bits_of(c.intent, cx.properties)) for c in ctx.lattice])
    run(1, 'context.lattice (vs dual)', lambda: [(util.bits_of(c.extent, cx.objects), util.bits_of(c.intent, cx.properties)) for c in ctx.lattice])
    nontrivial = n >= 4
    term = f'({cx.coq()}, {n + 2}%nat, {coq(gens)})'
    return Case(term, cx.to_json(), nontrivial, subs, sig=cx.key())


def cases(tier, seed):
    ctxs = util.contexts_for(tier, seed, rnd_quick=300, rnd_thorough=3000)
    impls = util.prebuild(ctxs)
    out = []
    for cx, impl in zip(ctxs, impls):
        if isinstance(impl, Exception):
            out.append(Case(f'({cx.coq()}, 0%nat, [(0, 9, [])])', cx.to_json(), False, [{'Context() raised': repr(impl)}], sig=cx.key()))
        else:
            out.append(observe(cx, impl))
    from . import latfam
    out += latfam.indirect_context_cases(tier, seed, observe,
                                         lambda cx, e: Case(f'({cx.coq()}, 0%nat, [(0, 9, [])])', cx.to_json(), False, [{'constructor raised': repr(e)}]))
    return out


def case_from_replay(inp):
    if inp.get('obtained'):
        from . import latfam
        c = latfam.indirect_replay(inp, observe)
        if c is not None:
            return c
    return observe(gen.Ctx.from_json(inp))


def shrink_candidates(case):
    from .c08 import shrink_ctx
    return [observe(c) for c in shrink_ctx(gen.Ctx.from_json(case.replay))]


distribution = util.distribution
