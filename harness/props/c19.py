"""C19 — ill-formed input raises ValueError; accepted input is represented faithfully."""
import copy
import itertools
import random

import gen
from check import Case
from common import coq, nat, natlist, Raw
from . import util

TARGETS = ['Properties/C19.vo', 'Run/ObsC19.vo']
THEOREMS = util.theorems('C19')
RUN_MODULE = 'Run.ObsC19'
SHARD_SIZE = 500
IMPORTS = 'Model.Validation'
RULE = ('every valid triple of EXH(6) (quick; EXH(8) thorough) and its serialized dict (with / without lattice, flags), plus the '
        'catalogue of single and double corruptions: drop / duplicate / move a name within or across axes, non-string names, drop / '
        'duplicate / extend / shorten a row (incl. ragged rows with the right total), index = column count, negative, shifted, repeated, '
        'bool / None / str in place of an int, missing keys, empty lattice, lattice=None; non-trivial = corrupted input; distinct by input')
EXHAUSTIVE = {'quick': False, 'thorough': False}


class Tok:
    def __init__(self):
        self.t = {}

    def __call__(self, name):
        return self.t.setdefault(name, len(self.t))


class Tok2:
    """read-only view of a token table (unknown names get 7777)"""

    def __init__(self, tok):
        self.tok = tok

    def __call__(self, name):
        return self.tok.t.get(name, 7777)


def literal_prepass_ok(d):
    """python_literal.load_file expands the index rows itself before fromdict validates the dict; it raises on its own
    (KeyError / TypeError / IndexError) for some corruptions - those dicts are compared through fromdict only."""
    try:
        objects, properties, context = d['objects'], d['properties'], d['context']
        m = len(list(properties))
        list(objects)
        for row in context:
            for i in row:
                if isinstance(i, bool) or not isinstance(i, int) or not (0 <= i < m):
                    return False
        return True
    except Exception:  # noqa: BLE001
        return False


def pv(v, tok):
    if isinstance(v, bool):
        return f'VBool {"true" if v else "false"}'
    if isinstance(v, int):
        return f'VInt {v}' if v >= 0 else f'VInt ({v})'
    if v is None:
        return 'VNone'
    if isinstance(v, str):
        return f'VStr {tok(v)}%nat'
    raise TypeError(v)


def pvlist(l, tok):
    return '[' + '; '.join(pv(v, tok) for v in l) + ']'


def outcome(fn, tok):
    import concepts
    try:
        ctx = fn()
        objs = [tok(o) for o in ctx.objects]
        props = [tok(p) for p in ctx.properties]
        rows = [sum(1 << j for j, b in enumerate(r) if b) for r in ctx.bools]
        ok = all(isinstance(b, bool) for r in ctx.bools for b in r)
        lat = 'lattice' in ctx.__dict__
        return (0 if ok else 8, natlist(objs), natlist(props), rows, lat), None
    except Exception as e:  # noqa: BLE001
        return (util.tag_of(e), natlist([]), natlist([]), [], False), repr(e)


def init_case(objs, props, bools, note):
    import concepts
    tok = Tok()
    o = [tok(x) for x in objs]
    p = [tok(x) for x in props]
    term_in = f'InInit {natlist(o).text} {natlist(p).text} [' + '; '.join(pvlist(r, tok) for r in bools) + ']'
    out, err = outcome(lambda: concepts.Context(list(objs), list(props), [tuple(r) for r in bools]), tok)
    term = f'({term_in}, {coq(out)})'
    return Case(term, {'kind': 'init', 'objects': list(objs), 'properties': list(props), 'bools': [list(r) for r in bools], 'note': note},
                note != 'valid', [{'observed_tag': out[0], 'error': err}],
                sig=('init', tuple(objs), tuple(props), repr(bools)))


def opt(x, f):
    return 'None' if x is None else f'(Some {f(x)})'


def dict_case(d, ignore, require, note):
    import concepts
    tok = Tok()

    def names(l):
        return pvlist(l, tok)

    def ctxrows(rows):
        return '[' + '; '.join(pvlist(r, tok) for r in rows) + ']'
    lat = 'None'
    if 'lattice' in d:
        lat = '(Some None)' if d['lattice'] is None else f'(Some (Some {len(d["lattice"])}%nat))'
    term_in = (f'InDict (mkDict {opt(d.get("objects"), names)} {opt(d.get("properties"), names)} '
               f'{opt(d.get("context"), ctxrows)} {lat}) {"true" if ignore else "false"} {"true" if require else "false"}')
    out, err = outcome(lambda: concepts.Context.fromdict(copy.deepcopy(d), ignore_lattice=ignore, require_lattice=require), tok)
    if not ignore and not require and literal_prepass_ok(d):
        # the python-literal entry points hand the evaluated dict to fromdict: same outcome expected
        text = repr(d)
        for name, fn in (('fromstring(python-literal)', lambda: concepts.Context.fromstring(text, frmat='python-literal')),
                         ('make_context(python-literal)', lambda: concepts.make_context(text, frmat='python-literal'))):
            out2, err2 = outcome(fn, Tok2(tok))
            if coq(out2) != coq(out):
                out = (8,) + tuple(out[1:])
                err = f'{name} gives {out2[0]} ({err2}) where fromdict gives {err}'
    term = f'({term_in}, {coq(out)})'
    return Case(term, {'kind': 'fromdict', 'dict': repr(d), 'ignore_lattice': ignore, 'require_lattice': require, 'note': note},
                note != 'valid', [{'observed_tag': out[0], 'error': err}],
                sig=('dict', repr(d), ignore, require))


def corrupt_triples(objs, props, bools, r):
    """single corruptions of a valid triple"""
    out = []
    n, m = len(objs), len(props)
    out.append((objs[:-1], props, bools, 'drop an object name'))
    out.append((objs + [objs[0]], props, bools, 'duplicate an object name'))
    out.append((objs, props[:-1], bools, 'drop a property name'))
    out.append((objs, props + [props[-1]], bools, 'duplicate a property name'))
    out.append((objs, props[:-1] + [objs[0]], bools, 'object name moved across axes'))
    out.append((objs[:-1] + [props[0]], props, bools, 'property name used as object'))
    out.append((objs[::-1], props, bools, 'objects reordered (still valid)'))
    out.append(([], props, [], 'no objects'))
    out.append((objs, [], [[] for _ in objs], 'no properties'))
    out.append((objs, props, bools[:-1], 'drop a row'))
    out.append((objs, props, bools + [bools[-1]], 'extra row'))
    out.append((objs, props, [bools[0] + [True]] + bools[1:], 'first row too long'))
    out.append((objs, props, bools[:-1] + [bools[-1][:-1]], 'last row too short'))
    if n >= 2:
        out.append((objs, props, [bools[0][:-1]] + [bools[1] + [False]] + bools[2:], 'ragged rows, right total'))
        out.append((objs, props, [bools[0] + [False, True]] + [bools[1][:-1]] + bools[2:], 'ragged rows'))
    out.append((objs, props, [[1 if b else 0 for b in row] for row in bools], 'cells as ints (valid)'))
    out.append((objs, props, [[('x' if b else None) for b in row] for row in bools], 'cells as str/None (valid by truthiness)'))
    return out


def corrupt_dicts(d, r):
    out = []
    for k in ('objects', 'properties', 'context', 'lattice'):
        if k in d:
            e = copy.deepcopy(d)
            del e[k]
            out.append((e, f'missing key {k}'))
    e = copy.deepcopy(d); e['objects'] = list(e['objects'][:-1]) + [3]; out.append((e, 'non-string object'))
    e = copy.deepcopy(d); e['properties'] = [None] + list(e['properties'][1:]); out.append((e, 'non-string property'))
    e = copy.deepcopy(d); e['objects'] = [True] + list(e['objects'][1:]); out.append((e, 'non-string first object'))
    e = copy.deepcopy(d); e['properties'] = list(e['properties'][:-1]) + [7]; out.append((e, 'non-string last property'))
    for k in range(len(d['objects'])):
        e = copy.deepcopy(d); e['objects'] = [None if i == k else x for i, x in enumerate(e['objects'])]; out.append((e, f'non-string object at {k}'))
    for k in range(len(d['properties'])):
        e = copy.deepcopy(d); e['properties'] = [0 if i == k else x for i, x in enumerate(e['properties'])]; out.append((e, f'non-string property at {k}'))
    e = copy.deepcopy(d); e['objects'] = [None, 42] + list(e['objects'][2:]); e['context'] = list(e['context']) + [()] * max(0, 2 - len(d['objects'])); out.append((e, 'two non-string objects of unorderable types'))
    e = copy.deepcopy(d); e['properties'] = [7, None] + list(e['properties'][2:]); out.append((e, 'two non-string properties of unorderable types'))
    e = copy.deepcopy(d); e['objects'] = list(e['objects'])[:-1]; out.append((e, 'drop an object name'))
    e = copy.deepcopy(d); e['objects'] = list(e['objects']) + [e['objects'][0]]; e['context'] = list(e['context']) + [e['context'][0]]; out.append((e, 'duplicate object with its row'))
    e = copy.deepcopy(d); e['properties'] = list(e['properties']) + [e['objects'][0]]; out.append((e, 'object name also a property'))
    e = copy.deepcopy(d); e['context'] = list(e['context'])[:-1]; out.append((e, 'drop a row'))
    e = copy.deepcopy(d); e['context'] = list(e['context']) + [()]; out.append((e, 'extra row'))
    m = len(d['properties'])
    rows = [list(x) for x in d['context']]
    for note, f in (('index = column count', lambda row: row + [m]),
                    ('negative index', lambda row: row + [-1]),
                    ('index shifted by -n', lambda row: [row[0] - m] + row[1:] if row else [-m]),
                    ('repeated index', lambda row: row + row[:1] if row else [0, 0]),
                    ('bool index True', lambda row: row + [True]),
                    ('True and 1 together', lambda row: [1, True]),
                    ('None index', lambda row: row + [None]),
                    ('str index', lambda row: row + ['0']),
                    ('row reversed (valid)', lambda row: row[::-1])):
        e = copy.deepcopy(d)
        k = r.randrange(len(rows))
        e['context'] = [tuple(f(list(row))) if i == k else tuple(row) for i, row in enumerate(rows)]
        out.append((e, note))
    e = copy.deepcopy(d); e['lattice'] = []; out.append((e, 'empty lattice'))
    e = copy.deepcopy(d); e['lattice'] = None; out.append((e, 'lattice None'))
    return out


def cases(tier, seed):
    r = random.Random(seed)
    k = 6 if tier == 'quick' else 8
    out = []
    seen = set()

    def add(c):
        if c.sig not in seen:
            seen.add(c.sig)
            out.append(c)
    for cx in gen.exh(k):
        objs, props = list(cx.objects), list(cx.properties)
        bools = [list(b) for b in cx.bools]
        add(init_case(objs, props, bools, 'valid'))
        singles = corrupt_triples(objs, props, bools, r)
        for o, p, b, note in singles:
            add(init_case(o, p, b, note))
        # double corruptions: apply a second catalogue entry to a corrupted triple (sampled)
        for o, p, b, note in r.sample(singles, 3):
            if o and p and b and all(len(x) > 0 for x in b):
                try:
                    for o2, p2, b2, note2 in r.sample(corrupt_triples(list(o), list(p), [list(x) for x in b], r), 2):
                        add(init_case(o2, p2, b2, f'{note} + {note2}'))
                except (IndexError, ValueError):
                    pass
        if (hash(cx.key()) + seed) % (3 if tier == 'quick' else 1) == 0:
            ctx = util.make_context(cx)
            for with_lat in (False, True):
                d = ctx.todict(ignore_lattice=not with_lat)
                for ig, rq in ((False, False), (True, False), (False, True), (True, True)):
                    add(dict_case(d, ig, rq, 'valid'))
                cds = corrupt_dicts(d, r)
                # a corruption that yields a *valid but different* table next to a stored lattice is outside the
                # property (a stale lattice is not one of the listed rules): such dicts are loaded with ignore_lattice
                risky = ('bool index True', 'duplicate object with its row')
                for e, note in cds:
                    ig, rq = r.choice([(False, False), (False, False), (True, False), (False, True)])
                    if with_lat and note in risky:
                        ig = True
                    add(dict_case(e, ig, rq, note))
                    if note in ('empty lattice', 'lattice None', 'missing key lattice'):
                        for ig2, rq2 in ((False, False), (True, False), (False, True), (True, True)):
                            add(dict_case(e, ig2, rq2, note))
                for e, note in r.sample(cds, 3):
                    try:
                        for e2, note2 in r.sample(corrupt_dicts(e, r), 2):
                            add(dict_case(e2, with_lat, False, f'{note} + {note2}'))
                    except (KeyError, IndexError, ValueError, TypeError):
                        pass
    # unusual but legal label strings (empty, blank, falsy-looking, non-BMP, very long), also shared across the axes
    odd_o = ['', ' ', '0', '\U0001F600', 'a' * 300, 'None']
    odd_p = ['False', '\t', '\u00a0', '|', '#', 'x' * 300]
    for cx in gen.exh(4):
        n, m = cx.nG, cx.nM
        bools = [list(b) for b in cx.bools]
        for objs, props in ((odd_o[:n], odd_p[:m]), (odd_o[:n][::-1], odd_p[:m][::-1]), (odd_p[:n], odd_o[:m])):
            add(init_case(objs, props, bools, 'valid'))
            for o, p, b, note in corrupt_triples(list(objs), list(props), bools, r):
                add(init_case(o, p, b, note))
            for i in range(n):
                for j in range(m):
                    add(init_case(list(objs), props[:j] + [objs[i]] + props[j + 1:], bools, 'one shared name'))
            d = {'objects': tuple(objs), 'properties': tuple(props),
                 'context': [tuple(j for j, x in enumerate(row) if x) for row in bools]}
            add(dict_case(d, False, False, 'valid'))
            for e, note in corrupt_dicts(d, r):
                add(dict_case(e, False, False, note))
    return out


def case_from_replay(inp):
    if inp['kind'] == 'init':
        return init_case(inp['objects'], inp['properties'], inp['bools'], inp.get('note', 'replay'))
    import ast
    return dict_case(ast.literal_eval(inp['dict']), inp['ignore_lattice'], inp['require_lattice'], inp.get('note', 'replay'))


def distribution(cases):
    d = {}
    for c in cases:
        k = c.replay['kind'] + ':' + ('valid' if c.replay.get('note') == 'valid' else 'corrupted')
        d[k] = d.get(k, 0) + 1
    return d
