"""C02 (lattice family; see latfam.py)."""
from . import latfam, util

globals().update(latfam.module('C02', util.theorems('C02'),
    'contexts: EXH/FAM/WIDE/RND; queries: all non-empty subsets of either side (<=5 quick / 8 thorough members, else structured+random), duplicates, mixed and unknown labels; lattice[items], lattice(props), lattice[()], lattice(()), lattice[i]; non-trivial = closure strictly larger than some query; distinct by table',
    extra_targets=['Tie/Matrices.vo'], partial=''))
