"""C02 (lattice family; see latfam.py)."""
from . import latfam, util

globals().update(latfam.module('C02', util.theorems('C02'),
    'contexts: EXH(9 quick, 10 thorough)/FAM/WIDE/RND; queries: all non-empty subsets of either side (<=5 quick / 6 thorough members, else structured+random), duplicates, mixed and unknown labels; lattice[items], lattice(props), lattice[()], lattice(()), lattice[i]; non-trivial = closure strictly larger than some query; distinct by table',
    extra_targets=['Tie/Matrices.vo'], partial='', exh=(9, 10)))
