"""C02 (lattice family; see latfam.py)."""
from . import latfam

globals().update(latfam.module('C02', ['C02_getitem_objects', 'C02_getitem_properties', 'C02_is_concept_objects', 'C02_is_concept_properties', 'C02_contains_query', 'C02_contains_query_properties', 'C02_least', 'C02_least_properties', 'C02_monotone', 'C02_idempotent', 'C02_monotone_properties', 'C02_idempotent_properties', 'C02_mapping_lookup_partial', 'C02_mapping_lookup_total'],
    'contexts: EXH/FAM/WIDE/RND; queries: all non-empty subsets of either side (<=5 quick / 8 thorough members, else structured+random), duplicates, mixed and unknown labels; lattice[items], lattice(props), lattice[()], lattice(()), lattice[i]; non-trivial = closure strictly larger than some query; distinct by table',
    extra_targets=['Tie/Matrices.vo'], partial='lattice-level lookups: that the mapping lookup cannot miss is tied by correspondence until C03 completeness is proved'))
