"""C20 (lattice family; see latfam.py)."""
from . import latfam

globals().update(latfam.module('C20', ['C20_nodes', 'C20_edges'],
    'contexts as C03; observation = Digraph.body parsed into node / head-label / tail-label / edge statements, label callbacks returning index tokens; non-trivial = >=3 concepts and a concept with >=2 labels',
    extra_targets=[], partial='graphviz line syntax and quoting not modelled; labels via C10, covers via C05 (correspondence)'))
