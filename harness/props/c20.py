"""C20 (lattice family; see latfam.py)."""
from . import latfam, util

globals().update(latfam.module('C20', util.theorems('C20'),
    'contexts as C03 (EXH(10) in the thorough tier); observation = Digraph.body parsed into node / head-label / tail-label / edge statements, label callbacks returning index tokens; non-trivial = >=3 concepts and a concept with >=2 labels',
    extra_targets=[], partial='', exh=(9, 10)))
