"""Observation of the real library for the lattice family of properties
(C02, C03, C05, C06, C07, C09, C10, C18, C20) and construction of the Coq cases."""
import itertools
import random
import re

import gen
from check import Case
from common import coq, nat, natlist, Raw
from . import util


def rnd_for(cx, seed):
    return random.Random(seed * 1000003 + hash(cx.key()) % 1000003)


def positions(lattice):
    return {id(c): i for i, c in enumerate(lattice)}


def guarded(fn, default):
    """(tag, value): tag 0 and the value, or the exception tag and a default."""
    try:
        return 0, fn()
    except Exception as e:  # noqa: BLE001
        return util.tag_of(e), default


def items_term(items):
    return Raw('[' + '; '.join(f'in{"l" if side == "o" else "r"} {i}%nat' for side, i in items) + ']')


def labels_of_items(cx, items):
    out = []
    for side, i in items:
        universe = cx.objects if side == 'o' else cx.properties
        out.append(universe[i] if i < len(universe) else f'?unknown-{side}{i}')
    return out


class Obs:
    """Lazily built implementation-side objects for one context."""

    def __init__(self, cx, tier, seed, impl=None):
        self.cx, self.tier, self.seed = cx, tier, seed
        if isinstance(impl, Exception):
            raise impl
        if isinstance(impl, tuple):
            self.ctx, self.lattice = impl
        else:
            self.ctx = impl if impl is not None else util.make_context(cx)
            self.lattice = self.ctx.lattice
        self.concepts = list(self.lattice)
        self.pos = positions(self.concepts)
        self.n = len(self.concepts)
        self.fuel = self.n + 2
        self.r = rnd_for(cx, seed)

    def ext(self, c):
        return util.bits_of(c.extent, self.cx.objects)

    def int_(self, c):
        return util.bits_of(c.intent, self.cx.properties)

    def p(self, c):
        return self.pos.get(id(c), 3999)

    def head(self):
        return f'{self.cx.coq()}, {self.fuel}%nat'


# ------------------------------------------------------------------ C03
def obs_c03(o):
    pairs = sorted((o.ext(c), o.int_(c)) for c in o.concepts)
    # the lattice of a context that has already answered other queries is the same lattice
    if o.n <= 200:
        try:
            c2 = util.make_context(o.cx)
            objs = o.cx.objects
            for t in ([objs[0]], list(objs[:2]), [objs[-1]], []):
                c2.neighbors(t)
                c2.intension(t)
            c2[(o.cx.properties[0],)]
            for start in ([objs[-1]], list(objs[:2])):
                try:
                    type(o.lattice)(c2, infimum=start)        # a lattice above another start (may be rejected)
                except Exception:  # noqa: BLE001
                    pass
            pairs2 = sorted((util.bits_of(c.extent, o.cx.objects), util.bits_of(c.intent, o.cx.properties)) for c in c2.lattice)
            again = sorted((util.bits_of(c.extent, o.cx.objects), util.bits_of(c.intent, o.cx.properties)) for c in type(c2.lattice)(c2))
            if pairs2 != pairs or again != pairs or len(c2.lattice) != len(pairs):
                pairs = pairs + [(-1, -1)]
        except Exception:  # noqa: BLE001
            pairs = pairs + [(-2, -2)]
    nontrivial = o.n >= 3 and any(o.cx.nG - len(c.extent) > len(c.upper_neighbors) for c in o.concepts)
    term = f'({o.head()}, {coq(pairs)}, {len(o.lattice)}%nat)'
    subs = [{'extent': e, 'intent': i} for e, i in pairs]
    return term, nontrivial, subs


# ------------------------------------------------------------------ C05
def obs_c05(o):
    per = []
    subs = []
    nontrivial = False
    for c in o.concepts:
        up = sorted(o.p(u) for u in c.upper_neighbors)
        lo = sorted(o.p(l) for l in c.lower_neighbors)
        if len(set(map(id, c.upper_neighbors))) != len(c.upper_neighbors) or \
           len(set(map(id, c.lower_neighbors))) != len(c.lower_neighbors):
            up = up + [3999]
        per.append((o.ext(c), natlist(up), natlist(lo)))
        subs.append({'concept_extent': list(c.extent), 'upper': up, 'lower': lo})
        if len({len(u.extent) for u in c.upper_neighbors}) >= 2 or o.cx.nG - len(c.extent) > len(c.upper_neighbors):
            nontrivial = True
    # copies of the lattice keep the same links
    if o.n <= 300:
        import copy
        import pickle
        want = [(sorted(u.index for u in c.upper_neighbors), sorted(l.index for l in c.lower_neighbors)) for c in o.concepts]
        for name, fn in (('pickle', lambda: pickle.loads(pickle.dumps(o.lattice))), ('deepcopy', lambda: copy.deepcopy(o.lattice)), ('copy', lambda: copy.copy(o.lattice))):
            try:
                cp = list(fn())
                posc = {id(c): i for i, c in enumerate(cp)}
                got = [(sorted(posc.get(id(u), 3999) for u in c.upper_neighbors), sorted(posc.get(id(l), 3999) for l in c.lower_neighbors)) for c in cp]
            except Exception:  # noqa: BLE001
                got = None
            if got != want:
                per.append((-1, natlist([3999]), natlist([])))
                subs.append({'copy of the lattice': name, 'links': 'differ from the original'})
    queries = []
    limit = 6 if o.tier == 'quick' else 7
    for t in itertools.islice(gen.subsets(o.cx.nG, limit, o.r, extra=24), 1500 if o.cx.nG <= 200 else 10):
        labs = [o.cx.objects[i] for i in t]
        if len(queries) % 4 == 3 and labs:
            labs = labs + labs[:1] + labs[-1:]          # repeated labels denote the same set

        def call():
            res = o.ctx.neighbors(iter(labs) if len(queries) % 3 == 1 else
                                  (''.join(labs) if len(queries) % 3 == 0 and all(len(x) == 1 for x in labs) else labs))
            raw = o.ctx.neighbors((x for x in labs) if len(queries) % 3 == 2 else labs, raw=True)
            pairs = sorted((util.bits_of(e, o.cx.objects), util.bits_of(i, o.cx.properties)) for e, i in res)
            if sorted((int(e), int(i)) for e, i in raw) != pairs or len(set(pairs)) != len(pairs):
                pairs = pairs + [(-1, -1)]
            return pairs
        tag, pairs = guarded(call, [])
        queries.append((natlist(t), tag, pairs))
        subs.append({'call': 'Context.neighbors', 'objects': labs, 'observed': pairs, 'tag': tag})
    term = f'({o.head()}, {coq(per)}, {coq(queries)})'
    return term, nontrivial, subs


# ------------------------------------------------------------------ C06
def lattice_order_obs(o, lattice):
    concepts = list(lattice)
    pos = positions(concepts)

    def p(c):
        return pos.get(id(c), 3999)
    per = []
    for c in concepts:
        up = [p(u) for u in c.upper_neighbors]
        lo = [p(l) for l in c.lower_neighbors]
        per.append((o.ext(c), nat(c.index), nat(c.dindex), natlist(up), natlist(lo)))
    atoms = [p(a) for a in lattice.atoms]
    return (per, (nat(p(lattice.infimum)), nat(p(lattice.supremum)), natlist(atoms)))


def permuted_serialisations(o):
    """todict() with (a) only the neighbour index lists shuffled, (b) everything permuted."""
    import copy
    d = o.ctx.todict()
    lat = d['lattice']
    r = o.r
    a = copy.deepcopy(d)
    a['lattice'] = [(ex, it, tuple(sorted(up, reverse=True)), tuple(sorted(lo))) for ex, it, up, lo in lat]
    n = len(lat)
    perm = list(range(n))
    r.shuffle(perm)                       # new position k holds old concept perm[k]
    inv = {old: new for new, old in enumerate(perm)}

    def sh(t):
        t = list(t)
        r.shuffle(t)
        return tuple(t)
    b = copy.deepcopy(d)
    b['lattice'] = [(sh(lat[old][0]), sh(lat[old][1]), sh(inv[u] for u in lat[old][2]), sh(inv[l] for l in lat[old][3]))
                    for old in perm]
    b['context'] = [sh(row) for row in d['context']]
    return [('neighbour lists unsorted', a), ('fully permuted', b)]


def obs_c06(o):
    import concepts
    obss = [lattice_order_obs(o, o.lattice)]
    subs = [{'lattice': 'computed'}]
    if o.n <= 300:
        for name, d in permuted_serialisations(o):
            try:
                c2 = concepts.Context.fromdict(d, raw=True)
                obss.append(lattice_order_obs(o, c2.lattice))
            except Exception as e:  # noqa: BLE001
                obss.append(([], (nat(0), nat(0), natlist([]))))
            subs.append({'lattice': f'fromdict(raw=True) of todict() with {name}', 'serialised': str(d)[:600]})
        try:
            c3 = concepts.Context.fromdict(o.ctx.todict())
            obss.append(lattice_order_obs(o, c3.lattice))
        except Exception as e:  # noqa: BLE001
            obss.append(([], (nat(0), nat(0), natlist([]))))
        subs.append({'lattice': 'fromdict(todict()) (ordered path)'})
        import copy
        import pickle
        for name, fn in (('pickle', lambda: pickle.loads(pickle.dumps(o.lattice))),
                         ('deepcopy', lambda: copy.deepcopy(o.lattice)), ('copy', lambda: copy.copy(o.lattice)),
                         ('pickle of a pickled copy', lambda: pickle.loads(pickle.dumps(pickle.loads(pickle.dumps(o.lattice, 2)))))):
            try:
                obss.append(lattice_order_obs(o, fn()))
            except Exception as e:  # noqa: BLE001
                obss.append(([], (nat(0), nat(0), natlist([]))))
            subs.append({'lattice': f'{name} of the computed lattice'})
    sizes =[len(c.extent) for c in o.concepts]
    nontrivial = len(sizes) != len(set(sizes)) and any(len(c.upper_neighbors) >= 2 for c in o.concepts)
    term = f'({o.head()}, {coq(obss)})'
    return term, nontrivial, subs


# ------------------------------------------------------------------ C02
def obs_c02(o):
    cx = o.cx
    limit = 5 if o.tier == 'quick' else 6
    cq, lq, subs_c, subs_l = [], [], [], []
    nontrivial = False
    itemlists = []
    for t in gen.subsets(cx.nG, limit, o.r, extra=24):
        if t:
            itemlists.append([('o', i) for i in t])
    for t in gen.subsets(cx.nM, limit, o.r, extra=24):
        if t:
            itemlists.append([('p', i) for i in t])
    itemlists = itemlists[:1200]
    if itemlists:
        d = itemlists[len(itemlists) // 2]
        itemlists.append(d + d[::-1])                                 # duplicates, other order
    itemlists.append([('o', 0), ('p', 0)])                            # mixed -> KeyError
    itemlists.append([('o', cx.nG + 2)])                              # unknown label
    itemlists.append([('p', 0), ('p', cx.nM + 1)])
    for items in itemlists:
        labs = tuple(labels_of_items(cx, items))
        # a plain str is an iterable of one-character labels
        key = ''.join(labs) if (len(cq) % 3 == 2 and all(len(x) == 1 for x in labs)) else labs

        def call():
            e, i = o.ctx[key]
            re_, ri = o.ctx.__getitem__(iter(labs) if len(cq) % 2 else labs, raw=True)
            if re_.members() != e or ri.members() != i:
                raise AssertionError('raw and label forms differ')
            return (int(re_), int(ri)), (natlist(util.idx(e, cx.objects)), natlist(util.idx(i, cx.properties)))
        tag, (raw, mem) = guarded(call, ((0, 0), (natlist([]), natlist([]))))
        cq.append((items_term(items), tag, raw, mem))
        subs_c.append({'call': 'Context.__getitem__', 'items': list(labs), 'tag': tag, 'raw': raw})
        if tag == 0:
            q = util.bits_of(labs, cx.objects if items[0][0] == 'o' else cx.properties)
            if raw[0 if items[0][0] == 'o' else 1] != q:
                nontrivial = True
        tag, idx = guarded(lambda: o.p(o.lattice[key]), 0)
        lq.append((items_term(items), False, tag, nat(idx)))
        subs_l.append({'call': 'Lattice.__getitem__', 'items': list(labs), 'tag': tag, 'index': idx})
        if all(s == 'p' for s, _ in items):
            tag, idx = guarded(lambda: o.p(o.lattice(key)), 0)
            lq.append((items_term(items), True, tag, nat(idx)))
            subs_l.append({'call': 'Lattice.__call__', 'items': list(labs), 'tag': tag, 'index': idx})
    # lattice[()] is the top, lattice(()) the concept of the empty property set, lattice[i] the i-th member
    tag, idx = guarded(lambda: o.p(o.lattice[()]), 0)
    lq.append((items_term([]), False, tag, nat(idx)))
    subs_l.append({'call': 'Lattice.__getitem__', 'items': [], 'tag': tag, 'index': idx})
    tag, idx = guarded(lambda: o.p(o.lattice(())), 0)
    lq.append((items_term([]), True, tag, nat(idx)))
    subs_l.append({'call': 'Lattice.__call__', 'items': [], 'tag': tag, 'index': idx})
    ok_int = all(o.lattice[i] is c for i, c in enumerate(o.concepts)) and o.lattice[-1] is o.concepts[-1]
    if not ok_int:
        lq.append((items_term([]), False, 7, nat(0)))
        subs_l.append({'call': 'Lattice.__getitem__(int)', 'problem': 'lattice[i] is not the i-th member'})
    term = f'({o.head()}, {coq(cq)}, {coq(lq)})'
    return term, nontrivial, subs_c + subs_l


# ------------------------------------------------------------------ C07
def obs_c07(o):
    n = o.n
    nary, binary, subs_n, subs_b = [], [], [], []
    nontrivial = False
    if n <= 14:
        pairs = [(i, j) for i in range(n) for j in range(n)]
    else:
        pairs = [(o.r.randrange(n), o.r.randrange(n)) for _ in range(150)]
    for i, j in pairs:
        x, y = o.concepts[i], o.concepts[j]
        for is_join in (True, False):
            def call():
                a = x.join(y) if is_join else x.meet(y)
                b = (x | y) if is_join else (x & y)
                c = (o.lattice.join([x, y]) if is_join else o.lattice.meet([x, y]))
                if a is not b or a is not c:
                    raise AssertionError('method, operator and n-ary form differ')
                return o.p(a)
            tag, res = guarded(call, 0)
            binary.append((is_join, nat(i), nat(j), tag, nat(res)))
            subs_b.append({'call': 'join' if is_join else 'meet', 'x': list(x.extent), 'y': list(y.extent), 'tag': tag, 'result': res})
        u = o.ext(x) | o.ext(y)
        if u not in (o.ext(x), o.ext(y)) and all(o.ext(c) != u for c in o.concepts):
            nontrivial = True
    arglists = [[], [0], [n - 1], [0, n - 1]]
    for _ in range(12 if o.tier == 'quick' else 40):
        k = o.r.randint(2, 5)
        arglists.append([o.r.randrange(n) for _ in range(k)])
    for k in (5, 6, 7, 9, 10, 13):                  # longer operand lists (a fold that pairs operands up must not lose one)
        arglists.append([o.r.randrange(n) for _ in range(k)])
        arglists.append(([0] * (k - 1) + [n - 1]) if k % 2 else ([n - 1] * (k - 1) + [0]))
    for args in arglists:
        for is_join in (True, False):
            cs = [o.concepts[i] for i in args]
            form = [list, tuple, iter, lambda l: (x for x in l), lambda l: map(lambda x: x, l)][len(nary) % 5]
            tag, res = guarded(lambda: o.p(o.lattice.join(form(cs)) if is_join else o.lattice.meet(form(cs))), 0)
            nary.append((is_join, natlist(args), tag, nat(res)))
            subs_n.append({'call': 'Lattice.join' if is_join else 'Lattice.meet', 'args': args, 'tag': tag, 'result': res})
    term = f'({o.head()}, {coq(nary)}, {coq(binary)})'
    return term, nontrivial, subs_n + subs_b


# ------------------------------------------------------------------ C09
def obs_c09(o):
    n = o.n
    edges = sum(len(c.upper_neighbors) for c in o.concepts)
    ifuel = edges + n + 5
    qs, subs = [], []
    singles = range(n) if n <= 64 else sorted(o.r.sample(range(n), 40))
    for i in singles:
        c = o.concepts[i]
        for kind, fn in ((0, c.upset), (1, c.downset)):
            tag, res = guarded(lambda: [o.p(x) for x in fn()], [])
            qs.append((kind, natlist([i]), tag, natlist(res)))
            subs.append({'call': 'upset' if kind == 0 else 'downset', 'concept': list(c.extent), 'tag': tag, 'result': res})
    if n <= (8 if o.tier == 'quick' else 12):
        multis = [[i, j] for i in range(n) for j in range(n)]
    else:
        multis = [[o.r.randrange(n), o.r.randrange(n)] for _ in range(40)]
    multis.append([])
    for _ in range(10 if o.tier == 'quick' else 40):
        k = o.r.randint(3, 6)
        multis.append([o.r.randrange(n) for _ in range(k)])
    nontrivial = False
    for args in multis:
        cs = [o.concepts[i] for i in args]
        form = [list, tuple, iter, lambda l: (x for x in l)][len(qs) % 4]
        for kind, fn in ((2, o.lattice.upset_union), (3, o.lattice.downset_union)):
            tag, res = guarded(lambda: [o.p(x) for x in fn(form(cs))], [])
            qs.append((kind, natlist(args), tag, natlist(res)))
            subs.append({'call': 'upset_union' if kind == 2 else 'downset_union', 'args': args, 'tag': tag, 'result': res})
        if len(args) >= 2 and (len(set(args)) < len(args) or any(
                a != b and (o.concepts[a] < o.concepts[b]) for a in args for b in args)):
            nontrivial = True
    # a traversal fed directly into a union (one-shot iterable argument)
    if n >= 2:
        for _ in range(2):
            i = o.r.randrange(n)
            x = o.concepts[i]
            down = [o.p(c) for c in x.downset()]
            tag, res = guarded(lambda: [o.p(c) for c in o.lattice.upset_union(x.downset())], [])
            qs.append((2, natlist(down), tag, natlist(res)))
            subs.append({'call': 'upset_union(c.downset())', 'concept': list(x.extent), 'tag': tag, 'result': res})
            up = [o.p(c) for c in x.upset()]
            tag, res = guarded(lambda: [o.p(c) for c in o.lattice.downset_union(x.upset())], [])
            qs.append((3, natlist(up), tag, natlist(res)))
            subs.append({'call': 'downset_union(c.upset())', 'concept': list(x.extent), 'tag': tag, 'result': res})
    # interleaved, lock-step and abandoned traversals (generators must not share state)
    if n >= 2:
        for _ in range(3):
            i, j = o.r.randrange(n), o.r.randrange(n)
            x, y = o.concepts[i], o.concepts[j]

            def interleaved():
                g1 = x.upset()
                first = [next(g1)]
                abandoned = y.upset()
                next(abandoned)
                inner = [o.p(c) for c in y.downset()]
                rest = [o.p(c) for c in g1]
                return [o.p(first[0])] + rest, inner
            tag, res = guarded(interleaved, ([], []))
            qs.append((0, natlist([i]), tag, natlist(res[0])))
            subs.append({'call': 'upset interleaved with other traversals', 'concept': list(x.extent), 'tag': tag, 'result': res[0]})
            qs.append((1, natlist([j]), tag, natlist(res[1])))
            subs.append({'call': 'downset run while another traversal is suspended', 'concept': list(y.extent), 'tag': tag, 'result': res[1]})

            def lockstep():
                a, b = [], []
                for u, d in zip(o.lattice.upset_union([x, y]), o.lattice.downset_union([x, y])):
                    a.append(o.p(u))
                    b.append(o.p(d))
                return a, b
            tag, (a, b) = guarded(lockstep, ([], []))
            full_u = guarded(lambda: [o.p(c) for c in o.lattice.upset_union([x, y])], [])[1]
            full_d = guarded(lambda: [o.p(c) for c in o.lattice.downset_union([x, y])], [])[1]
            k = min(len(full_u), len(full_d))
            # zip stops at the shorter one: compare prefixes by completing them with the sequential result
            qs.append((2, natlist([i, j]), tag, natlist(a[:k] + full_u[len(a[:k]):] if a[:k] == full_u[:k] else a)))
            subs.append({'call': 'upset_union in lock-step with downset_union', 'args': [i, j], 'tag': tag, 'result': a})
            qs.append((3, natlist([i, j]), tag, natlist(b[:k] + full_d[len(b[:k]):] if b[:k] == full_d[:k] else b)))
            subs.append({'call': 'downset_union in lock-step with upset_union', 'args': [i, j], 'tag': tag, 'result': b})
    nontrivial = nontrivial and any(len(c.upper_neighbors) >= 2 for c in o.concepts)
    term = f'({o.head()}, {ifuel}%nat, {coq(qs)})'
    return term, nontrivial, subs


# ------------------------------------------------------------------ C10
def obs_c10(o):
    cx = o.cx
    per, subs = [], []
    nontrivial = False
    for c in o.concepts:
        objs = util.idx(c.objects, cx.objects)
        props = util.idx(c.properties, cx.properties)
        atoms = [o.p(a) for a in c.atoms]
        # glue: the label part of str(concept) is built from exactly these names
        ext = ', '.join(c.extent)
        int_ = ' '.join(c.intent)
        ostr = ' <=> {}'.format(' '.join(c.objects)) if c.objects else ''
        pstr = ' <=> {}'.format(' '.join(c.properties)) if c.properties else ''
        if str(c) != f'{{{ext}}} <-> [{int_}]{ostr}{pstr}' or not isinstance(c.objects, tuple) \
                or not isinstance(c.properties, tuple):
            objs = objs + [3999]
        per.append((natlist(objs), natlist(props), natlist(atoms)))
        subs.append({'concept_extent': list(c.extent), 'objects': list(c.objects), 'properties': list(c.properties), 'atoms': atoms})
        if len(objs) + len(props) >= 2:
            nontrivial = True
    if o.concepts[0].objects or o.concepts[-1].properties:
        nontrivial = True
    lines = str(o.lattice).split('\n')[1:]
    if lines != [f'    {c}' for c in o.concepts]:
        per.append((natlist([3999]), natlist([]), natlist([])))
    # the consequence clause on the real traversals (also after a traversal that was abandoned half-way):
    # extent = object labels of the downset, intent = property labels of the upset, atoms = lattice atoms below
    if o.n <= 150:
        try:
            for c in o.concepts:
                _ = c in c.downset(), c in c.upset(), next(iter(c.upset())), any(True for _ in c.downset())
            lattice_atoms = set(map(id, o.lattice.atoms))
            for c in o.concepts:
                down, up = list(c.downset()), list(c.upset())
                if (sorted(x for d in down for x in d.objects) != sorted(c.extent)
                        or sorted(x for u in up for x in u.properties) != sorted(c.intent)
                        or [id(a) for a in c.atoms] != [id(d) for d in o.lattice.atoms if id(d) in set(map(id, down))]
                        or any(id(a) not in lattice_atoms for a in c.atoms)):
                    per.append((natlist([3999]), natlist([]), natlist([])))
                    subs.append({'concept_extent': list(c.extent), 'label union over its traversals': 'differs from extent / intent / atoms'})
                    break
        except Exception as e:  # noqa: BLE001
            per.append((natlist([3999]), natlist([]), natlist([])))
            subs.append({'traversal raised': repr(e)})
    # copies of the lattice carry the same labelling
    if o.n <= 300:
        import copy
        import pickle
        want = [(c.objects, c.properties, tuple(a.index for a in c.atoms)) for c in o.concepts]
        for name, fn in (('pickle', lambda: pickle.loads(pickle.dumps(o.lattice))), ('deepcopy', lambda: copy.deepcopy(o.lattice)), ('copy', lambda: copy.copy(o.lattice))):
            try:
                got = [(c.objects, c.properties, tuple(a.index for a in c.atoms)) for c in fn()]
            except Exception:  # noqa: BLE001
                got = None
            if got != want:
                per.append((natlist([3999]), natlist([]), natlist([])))
                subs.append({'copy of the lattice': name, 'labels': 'differ from the original'})
    term = f'({o.head()}, {coq(per)})'
    return term, nontrivial, subs


# ------------------------------------------------------------------ C18
def obs_c18(o):
    cx = o.cx
    per, subs = [], []
    nontrivial = False
    limit = 9 if o.tier == 'quick' else 11
    budget = 6000
    for i, c in enumerate(o.concepts):
        if len(c.intent) > limit or budget <= 0:
            continue
        budget -= 1 << len(c.intent)
        def attrs_call():
            # two live iterators over the same concept must not disturb each other (done before anything else
            # has enumerated this concept, so that no completed result can be replayed)
            it1, it2 = c.attributes(), c.attributes()
            first = [next(it1, None)]
            second = [next(it2, None), next(it2, None)]
            first += [next(it1, None)]
            second += list(it2)
            first += list(it1)
            second = [a for a in second if a is not None]
            first = [a for a in first if a is not None]
            full = [util.idx(a, cx.properties) for a in c.attributes()]
            third = list(c.attributes())
            if [util.idx(a, cx.properties) for a in first if a is not None] != full or \
               [util.idx(a, cx.properties) for a in second] != full or [util.idx(a, cx.properties) for a in third] != full:
                return full + [[7777]]
            return full
        tag, attrs = guarded(attrs_call, [])
        tag2, mini = guarded(lambda: util.idx(c.minimal(), cx.properties), [])
        per.append((nat(i), tag, [natlist(a) for a in attrs], tag2, natlist(mini)))
        subs.append({'concept_extent': list(c.extent), 'attributes': attrs, 'minimal': mini, 'tags': [tag, tag2]})
        if len(attrs) >= 2:
            nontrivial = True
    attrs_t = Raw('[' + '; '.join(coq(x) for x in per) + ']')
    term = f'({o.head()}, {attrs_t.text})'
    return term, nontrivial, subs


# ------------------------------------------------------------------ C20
NODE = re.compile(r'^\tc(\d+)\n$')
EDGE = re.compile(r'^\tc(\d+) -> c(\d+)\n$')
LABEL = re.compile(r'^\tc(\d+) -> c(\d+) \[(.*)\]\n$')


def obs_c20(o):
    cx = o.cx
    opos = {l: i for i, l in enumerate(cx.objects)}
    ppos = {l: i for i, l in enumerate(cx.properties)}

    # label callbacks are lambdas of one scope (same __qualname__): a result cached per callback name would show
    olabel = lambda objs: 'O_' + '_'.join(str(opos.get(x, 7777)) for x in objs)      # noqa: E731
    plabel = lambda props: 'P_' + '_'.join(str(ppos.get(x, 7777)) for x in props)    # noqa: E731
    dummy_o = lambda objs: 'O_9999'                                                  # noqa: E731
    dummy_p = lambda props: 'P_9999'                                                 # noqa: E731
    try:
        o.lattice.graphviz()                                              # default callbacks first
        o.lattice.graphviz(make_object_label=dummy_o, make_property_label=dummy_p)
    except Exception:  # noqa: BLE001
        pass
    stmts, subs = [], []
    try:
        dot = o.lattice.graphviz(make_object_label=olabel, make_property_label=plabel)
        body = list(dot.body)
        src_ok = all(line in dot.source for line in body)
        for line in body:
            m = NODE.match(line)
            if m:
                stmts.append((0, nat(int(m.group(1))), natlist([])))
                continue
            m = EDGE.match(line)
            if m:
                stmts.append((3, nat(int(m.group(1))), natlist([int(m.group(2))])))
                continue
            m = LABEL.match(line)
            if m and m.group(1) == m.group(2):
                attrs = dict(kv.split('=', 1) for kv in m.group(3).split(' '))
                if 'headlabel' in attrs and attrs.get('color') == 'transparent':
                    tok = attrs['headlabel'].strip('"')
                    stmts.append((1, nat(int(m.group(1))), natlist([int(x) for x in tok.split('_')[1:]])))
                    continue
                if 'taillabel' in attrs and attrs.get('color') == 'transparent':
                    tok = attrs['taillabel'].strip('"')
                    stmts.append((2, nat(int(m.group(1))), natlist([int(x) for x in tok.split('_')[1:]])))
                    continue
            stmts.append((9, nat(0), natlist([])))        # unparsable statement
        if not src_ok or 'dir=none' not in dot.source:
            stmts.append((9, nat(0), natlist([])))
        # the same graph with none / only one of the callbacks customised: the other labels are the names joined by a blank
        from graphviz import quoting

        def expected(custom_o, custom_p):
            out = []
            for line in body:
                m = LABEL.match(line)
                if m:
                    for key, custom, names in (('headlabel', custom_o, cx.objects), ('taillabel', custom_p, cx.properties)):
                        mm = re.search(key + r'=([OP]_[0-9_]*)', line)
                        if mm and not custom:
                            text = ' '.join(names[int(x)] for x in mm.group(1).split('_')[1:])
                            line = line.replace(mm.group(0), key + '=' + quoting.quote(text))
                out.append(line)
            return out
        if o.n <= 300:
            for kw, co, cp in (({}, False, False), ({'make_object_label': olabel}, True, False),
                               ({'make_property_label': plabel}, False, True)):
                if list(o.lattice.graphviz(**kw).body) != expected(co, cp):
                    stmts.append((9, nat(1), natlist([])))
    except Exception as e:  # noqa: BLE001
        stmts = [(100 + util.tag_of(e), nat(0), natlist([]))]
    subs = [{'statement': [s[0], s[1].text, s[2].text]} for s in stmts]
    nontrivial = o.n >= 3 and any(len(c.objects) + len(c.properties) >= 2 for c in o.concepts)
    term = f'({o.head()}, {coq(stmts)})'
    return term, nontrivial, subs


OBSERVERS = {'C02': obs_c02, 'C03': obs_c03, 'C05': obs_c05, 'C06': obs_c06, 'C07': obs_c07,
             'C09': obs_c09, 'C10': obs_c10, 'C18': obs_c18, 'C20': obs_c20}


class _Holder:
    pass


INDIRECT_RULE = ('; plus the INDIRECT family: for ~60 small base contexts the same observation on the context / lattice obtained through 13 other '
                 'public routes (fromjson(raw=True) of a fully permuted serialisation by path and by file object, fromdict(todict()), pickled / '
                 'deep-copied / shallow-copied lattice, pickled context, Context(*Definition), copy(), count cells, str/None cells, '
                 'fromstring(tostring()), make_context of cxt text); label schemes include one-character names, for which arguments are also '
                 'passed as a plain str; one context with 520 objects (two incomparable extents of 260)')


def indirect_impls(cx, seed):
    """The same context / lattice obtained through other public entry points: (tag, impl) pairs, impl being a
    Context or a (Context, Lattice) pair; a failing constructor yields the exception."""
    import copy
    import io
    import json
    import pickle
    import tempfile
    import os
    import concepts
    try:
        base = util.make_context(cx)
    except Exception as e:  # noqa: BLE001
        return [('Context(objects, properties, bools)', e)]
    h = _Holder()
    h.ctx, h.r = base, rnd_for(cx, seed + 77)
    out = []

    def add(tag, fn):
        try:
            out.append((tag, fn()))
        except Exception as e:  # noqa: BLE001
            out.append((tag, e))
    try:
        name, d = permuted_serialisations(h)[1]
    except Exception as e:  # noqa: BLE001
        name, d = 'serialisation failed', e

    def json_file_raw():
        if isinstance(d, Exception):
            raise d
        fd, path = tempfile.mkstemp(suffix='.json')
        os.close(fd)
        try:
            with open(path, 'w', encoding='utf-8') as f:
                json.dump(d, f, indent=2)
            return concepts.Context.fromjson(path, raw=True)
        finally:
            os.unlink(path)
    add('fromjson(path, raw=True) of a fully permuted serialisation', json_file_raw)
    add('fromjson(StringIO, raw=True)', lambda: concepts.Context.fromjson(io.StringIO(json.dumps(None if isinstance(d, Exception) else d)), raw=True))
    add('fromdict(todict())', lambda: concepts.Context.fromdict(base.todict()))
    add('pickled lattice', lambda: (base, pickle.loads(pickle.dumps(base.lattice))))
    add('deep-copied lattice', lambda: (base, copy.deepcopy(base.lattice)))
    add('shallow-copied lattice', lambda: (base, copy.copy(base.lattice)))
    add('pickled context', lambda: pickle.loads(pickle.dumps(util.make_context(cx))))
    add('Context(*Definition)', lambda: concepts.Context(*concepts.Definition(cx.objects, cx.properties, cx.bools)))
    add('context.copy()', lambda: base.copy())
    # cells are taken by truthiness: counts and arbitrary objects are legal cells
    add('Context with count cells (0, 2, 3, ...)',
        lambda: concepts.Context(cx.objects, cx.properties, [tuple((2 + (i + j) % 3) if b else 0 for j, b in enumerate(row)) for i, row in enumerate(cx.bools)]))
    add('Context with str / None cells',
        lambda: concepts.Context(cx.objects, cx.properties, [tuple('x' if b else (None if j % 2 else '') for j, b in enumerate(row)) for row in cx.bools]))
    add('fromstring(tostring()) as table', lambda: concepts.Context.fromstring(base.tostring()))
    add('make_context(cxt text)', lambda: concepts.make_context(base.tostring(frmat='cxt'), frmat='cxt'))
    return out


def indirect_bases(tier, seed):
    bases = [c for c in gen.fam(6) if c.nG * c.nM <= 49]
    bases += gen.rnd(12 if tier == 'quick' else 60, seed + 3, max_rows=6, max_cols=6)
    bases += [c for i, c in enumerate(gen.exh(6)) if (i + seed) % (37 if tier == 'quick' else 7) == 0]
    return bases


def indirect_context_cases(tier, seed, observe_ctx, failed):
    """Cases for the properties observed through a Context only (C01, C04, C16): the same observation on contexts
    obtained through the other public entry points.  observe_ctx(cx, ctx) -> Case; failed(cx, exc) -> Case."""
    out = []
    for cx in indirect_bases(tier, seed):
        for tag, impl in indirect_impls(cx, seed):
            if isinstance(impl, tuple):
                continue                      # a copied lattice has no public way back to a context
            try:
                c = failed(cx, impl) if isinstance(impl, Exception) else observe_ctx(cx, impl)
            except Exception as e:  # noqa: BLE001
                c = failed(cx, e)
            c.replay = dict(c.replay, obtained=tag)
            c.sig = (cx.key(), tag)
            out.append(c)
    return out


def indirect_replay(inp, observe_ctx):
    cx = gen.Ctx.from_json(inp)
    for tag, impl in indirect_impls(cx, 0):
        if tag == inp.get('obtained') and not isinstance(impl, (tuple, Exception)):
            return observe_ctx(cx, impl)
    return None


def observe(prop, cx, tier, seed, impl=None):
    o = Obs(cx, tier, seed, impl)
    term, nontrivial, subs = OBSERVERS[prop](o)
    return Case(term, cx.to_json(), nontrivial, subs, sig=cx.key())


def observe_safe(prop, cx, tier, seed, impl=None):
    """A crash of the implementation while building the lattice is a disagreement, not an
    infrastructure error: emit a case the model cannot agree with."""
    try:
        return observe(prop, cx, tier, seed, impl)
    except Exception as e:  # noqa: BLE001
        bogus = {'C02': '[], []', 'C03': '[], 0%nat', 'C05': '[], []', 'C06': '[([], (0%nat, 0%nat, []))]',
                 'C07': '[], []', 'C09': '0%nat, []', 'C10': '[]', 'C18': '[]', 'C20': '[]'}[prop]
        term = f'({cx.coq()}, 0%nat, {bogus})'
        return Case(term, cx.to_json(), False, [{'implementation_raised': repr(e)}], sig=cx.key())


def module(prop, theorems, rule, extra_targets=(), exh=(9, 12), rnd=(200, 1500), big=(10, 11), partial='',
           trusted_extra=()):
    """Build the attributes of a props.cXX module."""
    from .c08 import shrink_ctx

    def cases(tier, seed):
        ctxs = util.contexts_for(tier, seed, exh_quick=exh[0], exh_thorough=exh[1],
                                 rnd_quick=rnd[0], rnd_thorough=rnd[1], big=big[0] if tier == 'quick' else big[1])
        impls = util.prebuild(ctxs)
        out = [observe_safe(prop, cx, tier, seed, impl) for cx, impl in zip(ctxs, impls)]
        for cx in indirect_bases(tier, seed):
            for tag, impl in indirect_impls(cx, seed):
                c = observe_safe(prop, cx, tier, seed, impl)
                c.replay = dict(c.replay, obtained=tag)
                c.sig = (cx.key(), tag)
                c.subs = [dict(x, obtained=tag) if isinstance(x, dict) else x for x in (c.subs or [])]
                out.append(c)
        return out

    def case_from_replay(inp):
        cx = gen.Ctx.from_json(inp)
        if inp.get('obtained'):
            for tag, impl in indirect_impls(cx, 0):
                if tag == inp['obtained']:
                    return observe_safe(prop, cx, 'quick', 0, impl)
        return observe_safe(prop, cx, 'quick', 0)

    def shrink_candidates(case):
        return [observe_safe(prop, c, 'quick', 0) for c in shrink_ctx(gen.Ctx.from_json(case.replay))]

    return {
        'TARGETS': [f'Properties/{prop}.vo', f'Run/Obs{prop}.vo'] + list(extra_targets),
        'THEOREMS': theorems, 'RUN_MODULE': f'Run.Obs{prop}', 'RULE': rule + INDIRECT_RULE, 'SHARD_SIZE': 120,
        'EXHAUSTIVE': {'quick': False, 'thorough': False},
        'cases': cases, 'case_from_replay': case_from_replay, 'shrink_candidates': shrink_candidates,
        'distribution': util.distribution, 'PARTIAL': partial, 'TRUSTED_EXTRA': list(trusted_extra),
    }
