"""C13 — every edit history of a Definition matches the ordered-table model."""
import random

from check import Case
from . import util
from . import defmachine as dm

TARGETS = ['Properties/C13.vo', 'Run/ObsC13.vo']
THEOREMS = util.theorems('C13')
RUN_MODULE = 'Run.ObsC13'
SHARD_SIZE = 400
RULE = ('(a) exhaustive single steps (both tiers): every definition over ordered subsets of 2 object and 2 property names x every operation '
        'instance over 3+3 names (argument lists up to length 2 incl. duplicates and unseen names, move indexes -3..3); '
        '(b) in-place union/intersection on sampled pairs of such definitions; (c) random multi-handle histories (quick 400 x <=25 '
        'steps, thorough 6000 x <=40) over 4+4 names. After each step every live handle is observed: triple, return value, '
        'exception class, d == Definition(*d). non-trivial = history with >=3 steps containing a remove/rename followed by a '
        're-add of the same name, or a single step that changes the name order; distinct by operation sequence')
EXHAUSTIVE = {'quick': False, 'thorough': False}   # part (a) is exhaustive over its bounded space, (b)/(c) are sampled

OBJS, PROPS = [0, 1], [3, 4]
OBJS3, PROPS3 = [0, 1, 2], [3, 4, 5]


def mk(ops, variant=0, nontrivial=False):
    term, subs = dm.run_history(ops, variant)
    return Case(term, {'history': [o.describe() for o in ops], 'variant': variant,
                       'ops': [[o.kind, list(o.args)] for o in ops]}, nontrivial, subs,
                sig=tuple((o.kind, repr(o.args)) for o in ops))


def cases(tier, seed):
    r = random.Random(seed)
    out = []
    tables = dm.all_tables(OBJS, PROPS)
    ops1 = dm.single_ops(0, OBJS3, PROPS3)
    step = 1          # every (definition, operation) pair, in both tiers
    k = 0
    for t in tables:
        start = dm.Op('DNew', *t)
        for i, op in enumerate(ops1):
            k += 1
            if (k + seed) % step:
                continue
            nt = op.kind in ('OMoveObject', 'OMoveProperty', 'ORenameObject', 'ORenameProperty', 'OSetObject', 'OSetProperty')
            out.append(mk([start, op], k, nt))
    # the same names on both axes (legal for a Definition): every single step on every such table
    shared = dm.all_tables([0, 1], [0, 1])
    ops_shared = dm.single_ops(0, [0, 1, 3], [0, 1, 3])
    for t in shared:
        if t[0] and t[1]:
            start = dm.Op('DNew', *t)
            for op in ops_shared:
                k += 1
                out.append(mk([start, op], k, True))
    npairs = 1500 if tier == 'quick' else 8000
    for _ in range(npairs):
        a, b = r.choice(tables), r.choice(tables)
        op = r.choice([dm.Op(kind, 0, 1, ig) for kind in ('OUnionUpdate', 'OIntersectionUpdate') for ig in (False, True)])
        out.append(mk([dm.Op('DNew', *a), dm.Op('DNew', *b), op], r.randrange(2), True))
    n, length = (400, 25) if tier == 'quick' else (6000, 40)
    for i in range(n):
        if i % 5 == 4:
            ops = dm.random_history(r, [0, 1, 2, 6], [0, 1, 5, 7], r.randint(3, length))     # names shared between the axes
        else:
            ops = dm.random_history(r, [0, 1, 2, 6], [3, 4, 5, 7], r.randint(3, length))
        kinds = [o.kind for o in ops]
        nt = any(k.startswith('ORemove') or k.startswith('ORename') for k in kinds[:-1])
        out.append(mk(ops, i, nt))
    return out


def case_from_replay(inp):
    ops = [dm.Op(k, *[tuple(x) if False else x for x in args]) for k, args in inp['ops']]
    return mk(ops, inp.get('variant', 0))


def shrink_candidates(case):
    ops = [dm.Op(k, *args) for k, args in case.replay['ops']]
    out = []
    for i in range(len(ops)):
        if ops[i].kind == 'DNew':
            continue
        out.append(mk(ops[:i] + ops[i + 1:], case.replay.get('variant', 0)))
    return out[:40]


def distribution(cases):
    d = {}
    for c in cases:
        n = len(c.replay['ops'])
        key = 'single-step' if n == 2 else ('two-operand' if n == 3 else 'history')
        d[key] = d.get(key, 0) + 1
    return d
