"""C05 (lattice family; see latfam.py)."""
from . import latfam

globals().update(latfam.module('C05', ['C05_candidates_above_partial'],
    'contexts as C03; observation = per concept the sets of upper and lower neighbour positions (no repeats) and Context.neighbors(objs) (label and raw form) for all object subsets (<=6 quick / 9 thorough objects, else structured+random); non-trivial = a concept with upper covers of different sizes or a rejected candidate',
    extra_targets=['Tie/Lindig.vo', 'Tie/Matrices.vo'], partial='minimality filter and converse links decided by the correspondence'))
