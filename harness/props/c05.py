"""C05 (lattice family; see latfam.py)."""
from . import latfam, util

globals().update(latfam.module('C05', util.theorems('C05'),
    'contexts as C03 (EXH(10) in the thorough tier); observation = per concept the sets of upper and lower neighbour positions (no repeats) and Context.neighbors(objs) (label and raw form) for all object subsets (<=6 quick / 7 thorough objects, else structured+random); non-trivial = a concept with upper covers of different sizes or a rejected candidate',
    extra_targets=['Tie/Lindig.vo', 'Tie/Matrices.vo'], partial='', exh=(9, 10)))
