"""C03 (lattice family; see latfam.py)."""
from . import latfam, util

globals().update(latfam.module('C03', util.theorems('C03'),
    'contexts: EXH(9 quick/12 thorough)/FAM (Boolean lattices to 2^10 / 2^12)/WIDE/RND; observation = the set of (extent,intent) pairs with multiplicity and len(lattice); non-trivial = >=3 concepts and a concept with more outside objects than upper neighbours (a candidate was rejected or merged); distinct by table',
    extra_targets=['Tie/Lindig.vo', 'Tie/Matrices.vo'], partial=''))
