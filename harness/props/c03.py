"""C03 (lattice family; see latfam.py)."""
from . import latfam

globals().update(latfam.module('C03', ['C03_candidates_are_concepts_partial', 'C03_bottom_is_least', 'C03_bottom_is_concept', 'C03_top_is_concept', 'C03_top_is_greatest', 'C03_all_crosses'],
    'contexts: EXH(9 quick/12 thorough)/FAM (Boolean lattices to 2^10 / 2^12)/WIDE/RND; observation = the set of (extent,intent) pairs with multiplicity and len(lattice); non-trivial = >=3 concepts and a concept with more outside objects than upper neighbours (a candidate was rejected or merged); distinct by table',
    extra_targets=['Tie/Lindig.vo', 'Tie/Matrices.vo'], partial='completeness/uniqueness of the Lindig loop is decided by the correspondence, not yet by a theorem'))
