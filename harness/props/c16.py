"""C16 — relations() classifies each pair of contingent properties once and correctly."""
import gen
from check import Case
from common import coq, nat, natlist, Raw
from . import util

TARGETS = ['Properties/C16.vo', 'Tie/Junctors.vo', 'Run/ObsC16.vo']
THEOREMS = util.theorems('C16')
RUN_MODULE = 'Run.ObsC16'
RULE = ('every context of EXH(10) (quick; EXH(12) thorough; 0/1 contingent property, only-orthogonal, equal and complementary columns all occur) '
        '/ EXH(16 with <=6 columns) thorough + FAM + WIDE + RND; observation = (kind, left, right, order) of every entry for both '
        'include_unary values, plus that str()/tostring()/print of the result and of each entry are defined and have the documented '
        'layout; non-trivial = >=3 kinds present; distinct by table')
from .latfam import INDIRECT_RULE  # noqa: E402
RULE = RULE + INDIRECT_RULE
EXHAUSTIVE = {'quick': False, 'thorough': False}
SHARD_SIZE = 400


def entries(cx, rel):
    pos = {l: i for i, l in enumerate(cx.properties)}
    out = []
    for r in rel:
        right = Raw('None') if not r.__class__.binary else Raw(f'(Some {pos.get(r.right, 7777)}%nat)')
        out.append((r.kind, nat(pos.get(r.left, 7777)), right, r.order))
    return out


def layout_ok(rel):
    """Glue: printing is defined and follows the documented layout."""
    width = max((len(str(r.left)) for r in rel), default=0)
    tmpl = '%%-%ds %%-12s %%s' % width
    full = '\n'.join(tmpl % (r.left, r.kind, r.right) for r in rel)
    short = '\n'.join(tmpl % (r.left, r.kind, r.right) for r in rel if r.kind != 'orthogonal')
    if rel.tostring() != full or str(rel) != short or rel.tostring(exclude_orthogonal=True) != short:
        return False
    for r in rel:
        exp = f'{r.left} {r.kind} {r.right}' if r.__class__.binary else f'{r.left} {r.kind}'
        if str(r) != exp:
            return False
    return True


def observe(cx, impl=None):
    ctx = impl if impl is not None else util.make_context(cx)
    obs = []
    kinds = set()
    subs = []
    for unary in (False, True):
        try:
            rel = ctx.relations(include_unary=unary)
            ent = entries(cx, rel)
            tag = 0 if layout_ok(rel) else 8
            repr(rel), str(rel), rel.tostring(), rel.tostring(exclude_orthogonal=True), len(rel), list(reversed(rel))
            if coq(entries(cx, rel)) != coq(ent) or coq(entries(cx, ctx.relations(include_unary=unary))) != coq(ent):
                tag = 8               # printing / re-asking must not change the result
            kinds |= {r.kind for r in rel}
            subs.append({'include_unary': unary, 'entries': [(r.kind, str(r.left), str(r.right), r.order) for r in rel], 'tag': tag})
        except Exception as e:  # noqa: BLE001
            ent, tag = [], util.tag_of(e)
            subs.append({'include_unary': unary, 'raised': repr(e)})
        obs.append((tag, ent))
    term = f'({cx.coq()}, {coq(obs[0])}, {coq(obs[1])})'
    return Case(term, cx.to_json(), len(kinds) >= 3, subs, sig=cx.key())


def cases(tier, seed):
    ctxs = util.contexts_for(tier, seed, exh_quick=10, exh_thorough=12, rnd_quick=300, rnd_thorough=3000)
    if tier == 'thorough':
        import itertools
        ctxs += [c for c in gen.exh(16) if c.nM <= 6 and c.nG * c.nM > 12][::7]
    # unusual but legal labels: the empty string and short digit strings as property names
    extra = []
    for i, c in enumerate(list(gen.exh(9))[11::53]):
        if c.nM >= 2:
            v = gen.Ctx(c.rows, c.nM, c.tag + ':odd-labels')
            v.objects = [f'o{g}' for g in range(c.nG)]
            names = ['0', '', ' ', 'False', '1', 'None', '00', '-', 'p8', '100%', '%s', '%d%%'][(i % 3):] + ['0', '', ' ']
            k = i % c.nM
            v.properties = [names[(j + i) % len(names)] for j in range(c.nM)]
            if len(set(v.properties)) == c.nM:
                extra.append(v)
    ctxs += extra
    impls = util.prebuild(ctxs)
    out = []
    for cx, impl in zip(ctxs, impls):
        if isinstance(impl, Exception):
            out.append(Case(f'({cx.coq()}, (9, []), (9, []))', cx.to_json(), False, [{'Context() raised': repr(impl)}], sig=cx.key()))
        else:
            out.append(observe(cx, impl))
    from . import latfam
    out += latfam.indirect_context_cases(tier, seed, observe,
                                         lambda cx, e: Case(f'({cx.coq()}, (9, []), (9, []))', cx.to_json(), False, [{'constructor raised': repr(e)}]))
    return out


def case_from_replay(inp):
    if inp.get('obtained'):
        from . import latfam
        c = latfam.indirect_replay(inp, observe)
        if c is not None:
            return c
    return observe(gen.Ctx.from_json(inp))


def shrink_candidates(case):
    from .c08 import shrink_ctx
    return [observe(c) for c in shrink_ctx(gen.Ctx.from_json(case.replay))]


distribution = util.distribution
