"""C11 — structured persistence reloads the same context and the same lattice."""
import copy
import io
import json
import os
import pickle
import random
import shutil
import subprocess

import common
import gen
from check import Case
from common import coq, nat, natlist, Raw
from . import util, persist_obs

TARGETS = ['Properties/C11.vo', 'Run/ObsC11.vo']
THEOREMS = util.theorems('C11')
RUN_MODULE = 'Run.ObsC11'
SHARD_SIZE = 6
IMPORTS = 'Model.Persist'
RULE = ('contexts: EXH(6) quick / EXH(8) sampled thorough + FAM (lattices up to 2^6 quick / 2^8 thorough) + RND; channels: dict, JSON text, JSON '
        'file, python-literal string and file, pickle of the context, pickle of the lattice x {with, without, lazily present lattice} x '
        '{ordered, raw=True with a seeded permutation of entries and of every tuple} x {same process, fresh interpreter with another '
        'PYTHONHASHSEED}; observation: todict() encoding vs the model, and for every reloaded object the rows, names, equality with the '
        'original, iteration order, index/dindex, ordered neighbour tuples, infimum/supremum/atoms, labels; the model\'s own _fromlist is '
        'run on the permuted serialisations as well; non-trivial = lattice with >=5 concepts reloaded through a non-identity permutation')
EXHAUSTIVE = {'quick': False, 'thorough': False}
PARTIAL = 'json, repr/literal_eval, pickle, codecs, files and the second process are exercised, not modelled'
TRUSTED_EXTRA = ['json / repr / ast.literal_eval / pickle / file encodings: exercised by the harness, not modelled']


def obs_term(o):
    """(obs_C06 * labels_obs) from persist_obs.lattice_obs output"""
    per = [(e, nat(i), nat(di), natlist(up), natlist(lo)) for e, i, di, up, lo, _ in o['per']]
    c06 = (per, (nat(o['inf']), nat(o['sup']), natlist(o['atoms'])))
    labels = [(natlist(a), natlist(b), natlist(c)) for a, b, c in o['labels']]
    return (c06, labels)


def entry_term(e):
    return Raw('(' + ', '.join(natlist(list(x)).text for x in e) + ')')


def permuted(d, r):
    lat = d['lattice']
    n = len(lat)
    perm = list(range(n))
    r.shuffle(perm)
    inv = {old: new for new, old in enumerate(perm)}

    def sh(t):
        t = list(t)
        r.shuffle(t)
        return tuple(t)
    b = copy.deepcopy(d)
    b['lattice'] = [(sh(lat[o][0]), sh(lat[o][1]), sh(inv[u] for u in lat[o][2]), sh(inv[l] for l in lat[o][3])) for o in perm]
    b['context'] = [sh(row) for row in d['context']]
    return b


def reload_term(ob, want_lattice=True):
    rows = Raw('[' + '; '.join(natlist(r).text for r in ob['rows']) + ']')
    if not ob.get('names_ok', False):
        rows = Raw('[[7777]%nat]')
    if ob['lattice'] is None:
        return (rows, Raw('None'))
    return (rows, Raw(f'(Some {coq(obs_term(ob["lattice"]))})'))


def observe(cx, tier, seed, workdir, manifest, impl=None):
    import concepts
    r = random.Random(seed * 7 + hash(cx.key()) % 100003)
    ctx = impl if impl is not None else util.make_context(cx)
    objects, properties = list(cx.objects), list(cx.properties)
    subs = []
    reloads = []
    fromlists = []

    def add(name, fn, **kw):
        try:
            obj = fn()
            ob = persist_obs.observe_reloaded(obj, objects, properties, **kw)
            if not kw.get('lattice_object') and not (obj == ctx and ctx == obj and not (obj != ctx)):
                ob['names_ok'] = False
            reloads.append(reload_term(ob))
        except Exception as e:  # noqa: BLE001
            reloads.append((Raw('[[7777]%nat]'), Raw('None')))
            name = f'{name}: raised {e!r}'
        subs.append({'channel': name})

    lazy = util.make_context(cx)
    d_lazy_before = lazy.todict(ignore_lattice=None)
    d_nolat = ctx.todict(ignore_lattice=True)
    d_full = ctx.todict()
    n = len(d_full['lattice'])
    _ = lazy.lattice
    d_lazy_after = lazy.todict(ignore_lattice=None)
    # a returned dict belongs to the caller: editing it in place must not change later serialisations
    saved = copy.deepcopy(d_full)
    scratch = ctx.todict()
    try:
        scratch['lattice'].reverse()
        scratch['lattice'][:1] = []
        scratch['context'].reverse()
    except Exception:  # noqa: BLE001
        pass
    again = ctx.todict()
    buf2 = io.StringIO()
    ctx.tojson(buf2)
    stable = (again == saved and json.loads(buf2.getvalue()) == json.loads(json.dumps(saved)))
    enc_ok = ('lattice' not in d_lazy_before and 'lattice' not in d_nolat and d_lazy_after == d_full
              and d_full['objects'] == tuple(objects) and d_full['properties'] == tuple(properties)
              and {k: v for k, v in d_full.items() if k != 'lattice'} == d_nolat and stable)
    d_full = saved
    ctx_sets = [list(row) for row in d_full['context']] if enc_ok else [[7777]]
    lat_terms = [entry_term(e) for e in d_full['lattice']]

    add('fromdict(full)', lambda: concepts.Context.fromdict(copy.deepcopy(d_full)), force_lattice=False)
    add('fromdict(full, ignore_lattice)', lambda: concepts.Context.fromdict(copy.deepcopy(d_full), ignore_lattice=True))
    add('fromdict(no lattice)', lambda: concepts.Context.fromdict(copy.deepcopy(d_nolat)))
    add('fromdict(full, require_lattice)', lambda: concepts.Context.fromdict(copy.deepcopy(d_full), require_lattice=True), force_lattice=False)
    add('fromdict(full, raw) canonical', lambda: concepts.Context.fromdict(copy.deepcopy(d_full), raw=True), force_lattice=False)
    dp = permuted(d_full, r)
    add('fromdict(permuted, raw)', lambda: concepts.Context.fromdict(copy.deepcopy(dp), raw=True), force_lattice=False)
    # the model's _fromlist on the same serialisations
    try:
        c_raw = concepts.Context.fromdict(copy.deepcopy(dp), raw=True)
        ob = persist_obs.lattice_obs(c_raw.lattice, objects, properties)
        fromlists.append((Raw('[' + '; '.join(entry_term(e).text for e in dp['lattice']) + ']'), True, obs_term(ob)))
        c_ord = concepts.Context.fromdict(copy.deepcopy(d_full))
        ob = persist_obs.lattice_obs(c_ord.lattice, objects, properties)
        fromlists.append((Raw('[' + '; '.join(t.text for t in lat_terms) + ']'), False, obs_term(ob)))
    except Exception as e:  # noqa: BLE001
        fromlists.append((Raw('[]'), False, obs_term({'per': [], 'inf': 0, 'sup': 0, 'atoms': [], 'labels': []})))
        subs.append({'fromlist': repr(e)})

    def json_text():
        buf = io.StringIO()
        ctx.tojson(buf)
        return concepts.Context.fromjson(io.StringIO(buf.getvalue()))
    add('JSON text', json_text, force_lattice=False)

    def json_text_raw():
        return concepts.Context.fromjson(io.StringIO(json.dumps(dp)), raw=True)
    add('JSON text permuted raw', json_text_raw, force_lattice=False)
    base = os.path.join(workdir, f'c{len(manifest)}-{abs(hash(cx.key())) % 10**8}')

    def json_file():
        ctx.tojson(base + '.json', indent=2)
        return concepts.Context.fromjson(base + '.json')
    add('JSON file', json_file, force_lattice=False)

    def json_fileobj_indented():
        ctx.tojson(base + '.i4.json', indent=4, sort_keys=False)
        with open(base + '.i4.json', encoding='utf-8') as f:
            return concepts.Context.fromjson(f)
    add('JSON file object, indent=4', json_fileobj_indented, force_lattice=False)

    def json_stringio_tab():
        buf = io.StringIO()
        ctx.tojson(buf, indent='\t')
        return concepts.Context.fromjson(io.StringIO('\n' + buf.getvalue()))
    add('JSON StringIO, tab indent, leading newline', json_stringio_tab, force_lattice=False)

    def json_path_raw():
        with open(base + '.praw.json', 'w', encoding='utf-8') as f:
            json.dump(dp, f, indent=1)
        return concepts.Context.fromjson(base + '.praw.json', raw=True)
    add('JSON path permuted raw', json_path_raw, force_lattice=False)

    def literal_string():
        return concepts.Context.fromstring(ctx.tostring(frmat='python-literal'), frmat='python-literal')
    add('python-literal string', literal_string, force_lattice=False)

    def literal_file():
        ctx.tofile(base + '.py', frmat='python-literal')
        return concepts.Context.fromfile(base + '.py', frmat='python-literal')
    add('python-literal file', literal_file, force_lattice=False)

    def literal_nolat():
        fresh = util.make_context(cx)
        return concepts.Context.fromstring(fresh.tostring(frmat='python-literal'), frmat='python-literal')
    add('python-literal string (lattice not yet computed)', literal_nolat)
    add('pickle context', lambda: pickle.loads(pickle.dumps(ctx)))
    add('pickle lattice', lambda: pickle.loads(pickle.dumps(ctx.lattice)), lattice_object=True)
    add('pickle lattice protocol 2', lambda: pickle.loads(pickle.dumps(ctx.lattice, protocol=2)), lattice_object=True)
    add('copy()', lambda: ctx.copy())
    # fresh-process artefacts (observed later by the child interpreter)
    if manifest is not None and (len(manifest) < (120 if tier == 'quick' else 600)):
        try:
            pickle.dump(ctx, open(base + '.ctx.pickle', 'wb'))
            kinds = [('json', base + '.json'), ('literal', base + '.py'), ('pickle-context', base + '.ctx.pickle')]
            pickle.dump(ctx.lattice, open(base + '.lat.pickle', 'wb'))
            kinds.append(('pickle-lattice', base + '.lat.pickle'))
            with open(base + '.perm.json', 'w') as f:
                json.dump(dp, f)
            for kind, path in kinds:
                manifest.append({'id': len(manifest), 'kind': kind, 'path': path, 'objects': objects, 'properties': properties})
            manifest.append({'id': len(manifest), 'kind': 'json', 'raw': True, 'path': base + '.perm.json', 'objects': objects, 'properties': properties})
        except Exception as e:  # noqa: BLE001
            subs.append({'artefacts': repr(e)})
    return {'cx': cx, 'n': n, 'ctx_sets': ctx_sets, 'lat': lat_terms, 'reloads': reloads, 'fromlists': fromlists, 'subs': subs,
            'first_child': None}


def finish(rec, child_obs):
    cx = rec['cx']
    reloads = list(rec['reloads'])
    subs = list(rec['subs'])
    for name, ob in child_obs:
        if 'error' in ob:
            reloads.append((Raw('[[7777]%nat]'), Raw('None')))
            subs.append({'channel': f'fresh process {name}: {ob["error"]}'})
        else:
            reloads.append(reload_term(ob))
            subs.append({'channel': f'fresh process {name}'})
    ctx_sets = Raw('[' + '; '.join(natlist(r).text for r in rec['ctx_sets']) + ']')
    lat = Raw('[' + '; '.join(t.text for t in rec['lat']) + ']')
    term = f'({cx.coq()}, {rec["n"] + 2}%nat, {ctx_sets.text}, {lat.text}, {coq(reloads)}, {coq(rec["fromlists"])})'
    sub_list = [{'check': 'todict context encoding'}, {'check': 'todict lattice encoding'}]
    return Case(term, cx.to_json(), rec['n'] >= 5, subs, sig=cx.key())


def cases(tier, seed):
    ctxs = list(gen.exh(6)) if tier == 'quick' else [c for i, c in enumerate(gen.exh(8)) if i % 5 == seed % 5]
    ctxs += [c for c in gen.fam(6) if len(c.rows) <= (6 if tier == 'quick' else 8)]
    ctxs += gen.rnd(40 if tier == 'quick' else 400, seed, max_rows=7, max_cols=8)
    # label alphabets for the text channels: backslashes, quotes, control characters, non-ASCII, digits, delimiters
    nasty_o = ['C:\\temp', "it's", 'tab\there', 'line\nbreak', 'ünï cödé ∀', 'quo"te', 'trailing\\', '{brace}', "'", '0']
    nasty_p = ['\\', '"""', '\r', 'a,b', 'mixed\'"quotes', '(1, 2)', '\x7f del', 'é\u2028x', ' lead', 'X']
    for i, c in enumerate(list(gen.exh(6))[5::37] + gen.rnd(12, seed + 1, max_rows=6, max_cols=6)):
        v = gen.Ctx(c.rows, c.nM, c.tag + ':nasty-labels')
        v.objects = [nasty_o[(i + g) % len(nasty_o)] + ('' if g < len(nasty_o) else str(g)) for g in range(c.nG)]
        v.properties = [nasty_p[(i + m) % len(nasty_p)] + ('' if m < len(nasty_p) else str(m)) for m in range(c.nM)]
        if len(set(v.objects)) == c.nG and len(set(v.properties)) == c.nM and not set(v.objects) & set(v.properties):
            ctxs.append(v)
    workdir = os.path.join(common.BUILD, f'c11-artefacts-{os.getpid()}')
    shutil.rmtree(workdir, ignore_errors=True)
    os.makedirs(workdir)
    try:
        manifest = []
        impls = util.prebuild(ctxs)
        recs = []
        for cx, impl in zip(ctxs, impls):
            start = len(manifest)
            try:
                rec = observe(cx, tier, seed, workdir, manifest, impl if not isinstance(impl, Exception) else None)
            except Exception as e:  # noqa: BLE001
                rec = {'cx': cx, 'n': 0, 'ctx_sets': [[7777]], 'lat': [], 'reloads': [], 'fromlists': [], 'subs': [{'raised': repr(e)}]}
            rec['items'] = list(range(start, len(manifest)))
            recs.append(rec)
        # one child interpreter with a different hash seed observes all artefacts
        mpath = os.path.join(workdir, 'manifest.json')
        json.dump(manifest, open(mpath, 'w', encoding='utf-8'))
        env = dict(os.environ, PYTHONHASHSEED=str(1000 + seed % 1000), PYTHONPATH=os.path.join(common.VERIF, 'harness') + ':' + common.REPO)
        pr = subprocess.run([common.PY, os.path.join(common.VERIF, 'harness', 'c11_child.py'), mpath], capture_output=True, text=True,
                            env=env, timeout=1800)
        child = {}
        for line in pr.stdout.splitlines():
            try:
                j = json.loads(line)
                child[j['id']] = j['obs']
            except ValueError:
                pass
        out = []
        for pb in large_lattice_glue(tier):
            c1 = gen.Ctx([1], 1, 'large-lattice-glue')
            out.append(Case(f'({c1.coq()}, 3%nat, [[7777]%nat], [], [], [])', dict(c1.to_json(), problem=pb), True, [{'glue': pb}], sig=pb))
        for rec in recs:
            obs = [(manifest[i]['kind'] + (' raw' if manifest[i].get('raw') else ''), child.get(i, {'error': 'no output from the child interpreter: ' + pr.stderr[-300:]}))
                   for i in rec['items']]
            out.append(finish(rec, obs))
        return out
    finally:
        shutil.rmtree(workdir, ignore_errors=True)


def case_from_replay(inp):
    cx = gen.Ctx.from_json(inp)
    workdir = os.path.join(common.BUILD, f'c11-replay-{os.getpid()}')
    os.makedirs(workdir, exist_ok=True)
    try:
        rec = observe(cx, 'quick', 0, workdir, None)
        return finish(rec, [])
    finally:
        shutil.rmtree(workdir, ignore_errors=True)


def large_lattice_glue(tier):
    """Pickle / JSON / literal round trips of lattices with hundreds to thousands of concepts, compared on the real objects
    (these sizes are too slow for the in-Coq evaluation of every channel; the codec logic is size-independent by the theorems)."""
    import concepts
    problems = []

    def chain(n):
        return concepts.Context([f'o{i}' for i in range(n)], [f'p{i}' for i in range(n)], [tuple(j <= i for j in range(n)) for i in range(n)])

    def contra(n):
        return concepts.Context([f'o{i}' for i in range(n)], [f'p{i}' for i in range(n)], [tuple(i != j for j in range(n)) for i in range(n)])
    for name, c in (('chain(400)', chain(400)), ('contranominal(9)', contra(9)), ('contranominal(10)', contra(10) if tier == 'quick' else contra(12))):
        try:
            lat = c.lattice
            objs, props = list(c.objects), list(c.properties)
            want = persist_obs.lattice_obs(lat, objs, props)
            for proto in (2, pickle.HIGHEST_PROTOCOL):
                got = persist_obs.lattice_obs(pickle.loads(pickle.dumps(lat, protocol=proto)), objs, props)
                if got != want:
                    problems.append(f'{name}: lattice unpickled with protocol {proto} differs')
            c2 = pickle.loads(pickle.dumps(c))
            if c2 != c or persist_obs.lattice_obs(c2.lattice, objs, props) != want:
                problems.append(f'{name}: unpickled context differs')
            buf = io.StringIO()
            c.tojson(buf)
            c3 = concepts.Context.fromjson(io.StringIO(buf.getvalue()))
            if c3 != c or 'lattice' not in c3.__dict__ or persist_obs.lattice_obs(c3.lattice, objs, props) != want:
                problems.append(f'{name}: JSON round trip differs')
        except Exception as e:  # noqa: BLE001
            problems.append(f'{name}: raised {type(e).__name__}: {e}')
    return problems


# F4 (fixed): pickling a large lattice recursed through the neighbour links
def known_probe(kf):
    if kf.get('id') != 'F4':
        return None
    import concepts
    n = 9
    c = concepts.Context([f'o{i}' for i in range(n)], [f'p{i}' for i in range(n)], [tuple(i != j for j in range(n)) for i in range(n)])
    try:
        pickle.dumps(c.lattice)
    except RecursionError:
        return True
    return False


distribution = util.distribution
